#!/bin/bash
# usage: tools/port_patch.sh <diff> [<max commits back>]   - re-base a diff that no longer applies to /repo HEAD:
# find the newest ancestor it applies to, commit it there in a scratch worktree, cherry-pick the later commits on top,
# print the diff against HEAD (three-way; exits 1 if a cherry-pick conflicts).  Triage aid; scratch worktree removed.
D=$1; N=${2:-20}
W=$(mktemp -d /tmp/port_XXXX); rmdir $W
for i in $(seq 0 $N); do
  C=$(git -C /repo rev-parse HEAD~$i 2>/dev/null) || break
  git -C /repo worktree add --detach $W $C -q 2>/dev/null || break
  if (cd $W && git apply --check $D 2>/dev/null); then
    (cd $W && git apply $D && git -c user.email=x@x -c user.name=x commit -qam port &&
      { [ $i -eq 0 ] || git -c user.email=x@x -c user.name=x cherry-pick -X theirs $(git -C /repo rev-parse HEAD~$i)..$(git -C /repo rev-parse HEAD) >/dev/null 2>&1; } &&
      git diff $(git -C /repo rev-parse HEAD) HEAD -- asimap) ; rc=$?
    git -C /repo worktree remove --force $W; git -C /repo worktree prune; exit $rc
  fi
  git -C /repo worktree remove --force $W
done
echo "no ancestor within $N commits takes the patch" >&2; exit 2
