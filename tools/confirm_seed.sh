#!/bin/bash
# usage: [SEEDROOT=/tmp/seed2 BASE=<commit>] confirm_seed.sh C17 A     (reads $SEEDROOT_C17/SEED_OUT/{A.diff,demo_A.py,A.json}; defaults /tmp/seed, 9dc07ba)
# Confirms in a fresh scratch worktree: patch applies, baseline still passes, demo fails with / passes without.
# Writes /verif/seeded/C17-A/{patch.diff,demo.py,meta.json}.  Triage aid only - never part of a registered check.
set -u
P=$1; L=$2
SRC=${SEEDROOT:-/tmp/seed}_$P/SEED_OUT
BASE=${BASE:-9dc07ba}
OUT=/verif/seeded/$P-$L
WT=/tmp/confirm${CONFIRM_TAG:-}_${P}_$L
[ -f $SRC/$L.diff ] || { echo "no $SRC/$L.diff"; exit 3; }
rm -rf $WT; git -C /repo worktree prune; git -C /repo worktree add --detach $WT $BASE >/dev/null 2>&1 || exit 3
cd $WT
DEMO=asimap/test/test_seed_${P}_$L.py
cp $SRC/demo_$L.py $DEMO
run_demo() { timeout 600 /venv/bin/python -m pytest -q -p no:cacheprovider -x $DEMO >/tmp/confirm_${P}_$L.demo.$1.log 2>&1; echo $?; }
if head -30 $SRC/demo_$L.py | grep -qi "standalone\|python demo_"; then :; fi
PRISTINE=$(run_demo pristine)
git apply $SRC/$L.diff || { echo "PATCH DOES NOT APPLY"; cd /; git -C /repo worktree remove --force $WT; exit 4; }
/venv/bin/python -m compileall -q asimap >/dev/null || echo COMPILE-FAIL
WITH=$(run_demo defect)
rm -f $DEMO
BASE_OUT=$(/venv/bin/python /tmp/seedtools/baseline_check.py $WT 2>&1 | head -3)
BASE_RC=$?
mkdir -p $OUT
cp $SRC/$L.diff $OUT/patch.diff; cp $SRC/demo_$L.py $OUT/demo.py
/venv/bin/python - "$P" "$L" "$PRISTINE" "$WITH" "$BASE_OUT" <<'PY'
import json,sys
P,L,pr,wi,base=sys.argv[1:6]
import os
src=json.load(open(os.environ.get('SEEDROOT','/tmp/seed')+f'_{P}/SEED_OUT/{L}.json'))
meta={"property":P,"id":f"{P}-{L}","summary":src.get("summary"),"why_breaks":src.get("why_breaks"),
"needs_to_manifest":src.get("needs_to_manifest"),"files":src.get("files"),
"confirmed_by_me":{"demo_rc_pristine":int(pr),"demo_rc_with_defect":int(wi),"baseline_check_with_defect":base.strip(),
"base_commit":os.environ.get("BASE","9dc07ba"),"what_i_ran":"tools/confirm_seed.sh: fresh worktree of the base commit; pytest demo on pristine (expect rc 0); git apply patch.diff; pytest demo (expect rc!=0); baseline_check.py (expect missing=0)"},
"demo_how":"copy demo.py to asimap/test/test_seed_%s_%s.py in a worktree and run /venv/bin/python -m pytest on it"%(P,L)}
meta["confirmed"]= (int(pr)==0 and int(wi)!=0 and "missing=0" in base)
json.dump(meta,open(f'/verif/seeded/{P}-{L}/meta.json','w'),indent=1)
print(P,L,"confirmed" if meta["confirmed"] else "NOT-CONFIRMED",pr,wi,base.strip()[:80])
PY
cd /; git -C /repo worktree remove --force $WT
