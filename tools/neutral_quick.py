#!/venv/bin/python
"""Triage aid: apply each behaviour-preserving refactoring delivered under /tmp/neut_Cxx/NEUT_OUT/N<k>.diff to a scratch
worktree of /repo HEAD and print every quick check that raises a NEW finding or an analysis error on it (= a false alarm,
provided the refactoring really is neutral - to be judged by reading it).  usage: tools/neutral_quick.py [Cxx-Nk ...]"""
import glob, os, subprocess, sys, tempfile
sys.path.insert(0, "/verif")
sys.path.insert(0, "/verif/tools")
os.environ.setdefault("PYTHONDONTWRITEBYTECODE", "1")
import seed_matrix as sm

want = set(sys.argv[1:])
if "--jobs" in sys.argv or True:
    # parallel: scratch copies instead of git worktrees
    from concurrent.futures import ProcessPoolExecutor
    want.discard("--jobs")
    base = sm.run_all("/repo")
    work = []
    for d in sorted(glob.glob("/tmp/neut*_C*/NEUT_OUT/[NMQR][0-9].diff") + glob.glob("/verif/selftest/neutral/*.diff")):
        sid = (d.split("/")[2].split("_")[1] + "-" + os.path.basename(d)[:2]) if d.startswith("/tmp/") else os.path.basename(d)[:-5]
        if want and sid not in want:
            continue
        work.append((sid, d, base))
    alarms = 0
    seen = set()
    with ProcessPoolExecutor(max_workers=14) as pool:
        for sid, m in pool.map(sm.judge_patch, work):
            if sid in seen:
                continue
            seen.add(sid)
            if m.get("detected_by"):
                alarms += 1
                for k, v in sorted(m["reports"].items()):
                    print(f"{sid:8s} ALARM {k}: {v[0][:230]}")
            else:
                print(f"{sid:8s} {'silent' if m['applied'] in ('clean', 'fuzzy') else m['applied']}")
    print(f"{alarms} of {len(seen)} neutral refactorings raise an alarm")
    sys.exit(0)
base = sm.run_all("/repo")
tot = alarms = 0
for d in sorted(glob.glob("/tmp/neut_C*/NEUT_OUT/N[0-9].diff")):
    P = d.split("/")[2].split("_")[1]
    L = os.path.basename(d)[:2]
    sid = f"{P}-{L}"
    if want and sid not in want:
        continue
    wt = tempfile.mkdtemp(prefix=f"nq_{sid}_", dir="/tmp"); os.rmdir(wt)
    subprocess.run(["git", "-C", "/repo", "worktree", "add", "--detach", wt, "HEAD"], capture_output=True)
    try:
        r = subprocess.run(["git", "apply", "--3way", d], cwd=wt, capture_output=True, text=True)
        if r.returncode != 0:
            print(sid, "PATCH-FAILED"); continue
        tot += 1
        res = sm.run_all(wt)
        res = {k: v for k, v in res.items() if v != base.get(k)}
        if res:
            alarms += 1
            for k, v in sorted(res.items()):
                print(f"{sid:8s} ALARM {k}: {v[0][:230]}")
        else:
            print(f"{sid:8s} silent")
    finally:
        subprocess.run(["git", "-C", "/repo", "worktree", "remove", "--force", wt], capture_output=True)
print(f"{alarms} of {tot} neutral refactorings raise an alarm")
