"""
Demonstration: the expunge phase of `MOVE` is admitted while other commands
are still executing on the same mailbox.

`Authenticated.do_move` (asimap/client.py) removes the moved source messages
under a phony command of kind EXPUNGE.  `Mailbox.would_conflict`
(asimap/mbox.py) lets an EXPUNGE run next to any non-exclusive command as long
as the `Deleted` sequence is empty -- which is the normal situation for a MOVE
(it removes messages that are NOT flagged `\\Deleted`).  So the forced expunge
`mbox.expunge(uid_msg_set=..., check_deleted=False)` runs while another
session's FETCH is in the middle of its loop and renumbers the mailbox
underneath it.

Copy this file to `asimap/test/` and run it from the top of the repository:

    python -m pytest -q -p no:cacheprovider asimap/test/demo_move_race.py

* test_admission_*            characterise the admission rule of the mailbox
                              management task.  They pass with and without the
                              repair (the repair does not touch mbox.py).
* test_do_move_forced_expunge_runs_alone
* test_two_sessions_fetch_during_move
                              state the property that should hold.  They FAIL
                              on the unmodified tree and pass once `do_move`
                              submits its phase 3 as a command of kind MOVE.
"""

# system imports
#
import asyncio
import re
from collections.abc import Callable
from typing import Any

# 3rd party imports
#
import pytest

# Project imports
#
from ..client import Authenticated
from ..mbox import Mailbox
from ..parse import (
    IMAPClientCommand,
    IMAPCommand,
    StoreAction,
    parse_cmd_from_msg,
)
from ..user_server import IMAPUserServer

# How long a "client that is slow to read its FETCH responses" stalls (at
# most). The real `IMAPClientProxy.push()` awaits `writer.drain()` for up to 2
# seconds, so this is well within what the real server tolerates.
#
STALL = 0.75


####################################################################
#
def phony_cmd(kind: IMAPCommand) -> IMAPClientCommand:
    """
    Build a phony command exactly the way `do_move` (and `Mailbox.copy`) do.
    """
    cmd = IMAPClientCommand(f"A001 {kind.value.upper()}")
    cmd.command = kind
    return cmd


####################################################################
#
class Holder:
    """
    Runs `async with cmd.ready_and_okay(mbox)` in its own task, like every
    `do_xxx` method of the client does, and stays inside the block until it is
    released.
    """

    def __init__(
        self,
        name: str,
        cmd: IMAPClientCommand,
        mbox: Mailbox,
        log: list[str],
        body: Callable[[], Any] | None = None,
    ) -> None:
        self.name = name
        self.cmd = cmd
        self.mbox = mbox
        self.log = log
        self.body = body
        self.entered = asyncio.Event()
        self.release = asyncio.Event()
        self.task = asyncio.create_task(self._run())

    async def _run(self) -> None:
        async with self.cmd.ready_and_okay(self.mbox):
            self.log.append(f"{self.name} enter")
            self.entered.set()
            if self.body is not None:
                await self.body()
            await self.release.wait()
            self.log.append(f"{self.name} leave")

    @property
    def inside(self) -> bool:
        return (
            self.entered.is_set()
            and not self.cmd.completed
            and self.cmd in self.mbox.executing_tasks
        )

    async def wait_entered(self, timeout: float) -> bool:
        try:
            await asyncio.wait_for(self.entered.wait(), timeout)
        except TimeoutError:
            return False
        return True

    async def finish(self) -> None:
        self.release.set()
        await asyncio.wait_for(self.task, 5)


FETCHES = [
    pytest.param("A001 FETCH 1:* (UID FLAGS)", id="fetch_peek"),
    pytest.param("A001 FETCH 1:* (BODY[HEADER])", id="fetch_no_peek"),
]


####################################################################
#
@pytest.mark.asyncio
@pytest.mark.parametrize("fetch_str", FETCHES)
async def test_admission_phony_expunge_admitted_during_fetch(
    fetch_str: str,
    mailbox_with_bunch_of_email: Mailbox,
) -> None:
    """
    GIVEN: a FETCH that went through `ready_and_okay` and is still inside
           its block; no message is flagged `\\Deleted`
    WHEN:  the phony EXPUNGE that `do_move` builds asks to run
    THEN:  it is admitted immediately, next to the FETCH; and the forced
           expunge it is there for shrinks the mailbox below the message set
           the management task resolved for the still running FETCH
    """
    mbox = mailbox_with_bunch_of_email
    log: list[str] = []
    assert not mbox.sequences.get("Deleted")
    num_msgs = mbox.num_msgs
    uids_before = list(mbox.uids)

    fetch_cmd = parse_cmd_from_msg(fetch_str)
    assert fetch_cmd.fetch_peek == ("BODY[" not in fetch_str)
    fetch = Holder("FETCH", fetch_cmd, mbox, log)
    assert await fetch.wait_entered(2)
    assert fetch.inside
    assert fetch_cmd.msg_set_as_set == set(range(1, num_msgs + 1))

    async def forced_expunge() -> None:
        # what do_move does inside its phony command
        await mbox.expunge(uid_msg_set=uids_before[:3], check_deleted=False)
        log.append("forced expunge done")

    expunge = Holder(
        "PHONY-EXPUNGE", phony_cmd(IMAPCommand.EXPUNGE), mbox, log, forced_expunge
    )
    admitted = await expunge.wait_entered(2)

    # The phony EXPUNGE got in while the FETCH is still in its block.
    #
    assert admitted
    assert fetch.inside and expunge.cmd in mbox.executing_tasks
    while "forced expunge done" not in log:
        await asyncio.sleep(0.01)
    assert fetch.inside
    assert log == ["FETCH enter", "PHONY-EXPUNGE enter", "forced expunge done"]

    # ... and the running FETCH now holds message sequence numbers that no
    # longer exist, and the ones that do exist name other messages.
    #
    assert len(mbox.msg_keys) == num_msgs - 3
    assert max(fetch_cmd.msg_set_as_set) > len(mbox.msg_keys)
    assert mbox.uids[0] == uids_before[3]

    await expunge.finish()
    await fetch.finish()


####################################################################
#
@pytest.mark.asyncio
@pytest.mark.parametrize("fetch_str", FETCHES)
@pytest.mark.parametrize(
    "kind,deleted",
    [
        pytest.param(IMAPCommand.MOVE, False, id="kind_move"),
        pytest.param(IMAPCommand.EXPUNGE, True, id="kind_expunge_with_deleted"),
    ],
)
async def test_admission_exclusive_commands_wait_for_fetch(
    kind: IMAPCommand,
    deleted: bool,
    fetch_str: str,
    mailbox_with_bunch_of_email: Mailbox,
) -> None:
    """
    GIVEN: a FETCH that is still inside its `ready_and_okay` block
    WHEN:  a phony command of kind MOVE asks to run (or one of kind EXPUNGE
           when some message is flagged `\\Deleted`)
    THEN:  it is only admitted after the FETCH left its block
    """
    mbox = mailbox_with_bunch_of_email
    log: list[str] = []
    if deleted:
        await mbox.store([2], StoreAction.ADD_FLAGS, [r"\Deleted"])
        assert mbox.sequences["Deleted"]
    else:
        assert not mbox.sequences.get("Deleted")

    fetch = Holder("FETCH", parse_cmd_from_msg(fetch_str), mbox, log)
    assert await fetch.wait_entered(2)

    other = Holder("OTHER", phony_cmd(kind), mbox, log)
    assert not await other.wait_entered(0.5)
    assert fetch.inside
    assert other.cmd not in mbox.executing_tasks

    await fetch.finish()
    assert await other.wait_entered(2)
    await other.finish()
    assert log == ["FETCH enter", "FETCH leave", "OTHER enter", "OTHER leave"]


####################################################################
#
async def _select(handler: Authenticated, mbox_name: str) -> None:
    cmd = IMAPClientCommand(f"S001 SELECT {mbox_name}").parse()
    await handler.command(cmd)
    assert handler.mbox is not None and handler.mbox.name == mbox_name


####################################################################
#
def _recording_push(
    who: str, events: list[tuple[str, str]], client: Any
) -> None:
    """
    Replace the AsyncMock `push` of the test IMAPClientProxy by one that
    records what is sent in `events` (shared by all sessions, so the relative
    order is kept) and, like the real `push()` (which awaits
    `writer.drain()`), lets other tasks run.
    """

    async def push(*data: bytes | str) -> None:
        for d in data:
            d = d.decode("latin-1") if isinstance(d, bytes) else d
            events.append((who, d.strip()))
        await asyncio.sleep(0)

    client.push.side_effect = push


####################################################################
#
@pytest.mark.asyncio
async def test_do_move_forced_expunge_runs_alone(
    mailbox_with_bunch_of_email: Mailbox,
    imap_user_server: IMAPUserServer,
    imap_client_proxy: Callable[..., Any],
) -> None:
    """
    GIVEN: session B runs the real `MOVE 1:5 Trash`; a FETCH asks to run on
           the same mailbox right after the MOVE started (it is admitted when
           the copy phase of the MOVE releases the source mailbox) and then
           stays in its `ready_and_okay` block for a while
    WHEN:  `do_move` reaches its expunge phase
    THEN:  the forced expunge must not run while the FETCH is still in its
           block (it removes messages whatever their flags: it needs the
           mailbox for itself exactly like an EXPUNGE with `\\Deleted`
           messages does)
    """
    server = imap_user_server
    mbox = mailbox_with_bunch_of_email
    log: list[str] = []
    events: list[tuple[str, str]] = []

    client_b = await imap_client_proxy()
    _recording_push("B", events, client_b)
    sess_b = Authenticated(client_b, server)
    await _select(sess_b, "inbox")
    await sess_b.command(IMAPClientCommand("B001 CREATE Trash").parse())
    assert not mbox.sequences.get("Deleted")

    # Spy on the forced expunge: which other commands are executing when it
    # is called?
    #
    others_during_expunge: list[list[str]] = []
    real_expunge = mbox.expunge

    async def spy_expunge(*args: Any, **kwargs: Any) -> None:
        others_during_expunge.append(
            [
                x.qstr()
                for x in mbox.executing_tasks
                if not x.completed and x.tag is not None  # not the phony one
            ]
        )
        log.append("forced expunge")
        await real_expunge(*args, **kwargs)

    mbox.expunge = spy_expunge  # type: ignore[method-assign]

    move_cmd = IMAPClientCommand("B002 MOVE 1:5 Trash").parse()
    move_task = asyncio.create_task(sess_b.command(move_cmd))
    while not move_cmd.ready.is_set():
        await asyncio.sleep(0)

    # The copy phase of the MOVE is now running (alone). Queue a FETCH. It
    # stays in its block until the MOVE is over, but no longer than STALL
    # seconds.
    #
    fetch_cmd = parse_cmd_from_msg("F001 FETCH 1:* (UID FLAGS)")
    fetch = Holder("FETCH", fetch_cmd, mbox, log)
    assert await fetch.wait_entered(5)
    assert not others_during_expunge, "FETCH was to be admitted before phase 3"
    await asyncio.wait([move_task], timeout=STALL)
    await fetch.finish()
    await asyncio.wait_for(move_task, 5)

    assert events[-1] == ("B", "B002 OK MOVE command completed")
    assert len(mbox.msg_keys) == 15
    assert others_during_expunge == [[]], (
        "the forced expunge of MOVE ran while these commands were still "
        f"executing on the mailbox: {others_during_expunge}; order: {log}"
    )
    assert log == ["FETCH enter", "FETCH leave", "forced expunge"]


####################################################################
#
@pytest.mark.asyncio
async def test_two_sessions_fetch_during_move(
    mailbox_with_bunch_of_email: Mailbox,
    imap_user_server: IMAPUserServer,
    imap_client_proxy: Callable[..., Any],
) -> None:
    """
    GIVEN: sessions A and B have `inbox` (20 messages) selected
    WHEN:  B runs `MOVE 1:5 Trash` and, once the MOVE started, A runs
           `FETCH 1:* (UID)`. A's client is slow to read its first FETCH
           response (its `push()` stalls for at most STALL seconds)
    THEN:  Whatever A is told must agree with the sequence numbers A knows.
           A has not been sent a single EXPUNGE, so `* n FETCH (UID u)` must
           pair n with the n-th message as it was when A's FETCH began, and
           the FETCH must complete with OK.
    """
    server = imap_user_server
    mbox = mailbox_with_bunch_of_email
    events: list[tuple[str, str]] = []

    client_a = await imap_client_proxy()
    client_b = await imap_client_proxy()
    _recording_push("B", events, client_b)
    sess_a = Authenticated(client_a, server)
    sess_b = Authenticated(client_b, server)
    await _select(sess_a, "inbox")
    await _select(sess_b, "inbox")
    await sess_b.command(IMAPClientCommand("B001 CREATE Trash").parse())
    assert sess_a.mbox is mbox and sess_b.mbox is mbox
    assert not mbox.sequences.get("Deleted")
    assert mbox.num_msgs == 20
    uids_before = list(mbox.uids)

    # Record when the mailbox is renumbered.
    #
    real_expunge = mbox.expunge

    async def spy_expunge(*args: Any, **kwargs: Any) -> None:
        events.append(("mbox", "expunge begin"))
        await real_expunge(*args, **kwargs)
        events.append(("mbox", "expunge end"))

    mbox.expunge = spy_expunge  # type: ignore[method-assign]

    # A's push: records, and stalls once, after the first FETCH response,
    # until B's MOVE is over (but never more than STALL seconds).
    #
    move_done = asyncio.Event()
    stalled = False

    async def push_a(*data: bytes | str) -> None:
        nonlocal stalled
        for d in data:
            d = d.decode("latin-1") if isinstance(d, bytes) else d
            events.append(("A", d.strip()))
        if not stalled and any(" FETCH " in e for w, e in events if w == "A"):
            stalled = True
            try:
                await asyncio.wait_for(move_done.wait(), STALL)
            except TimeoutError:
                pass
        else:
            await asyncio.sleep(0)

    client_a.push.side_effect = push_a

    move_cmd = IMAPClientCommand("B002 MOVE 1:5 Trash").parse()
    fetch_cmd = IMAPClientCommand("A002 FETCH 1:* (UID)").parse()

    async def run_move() -> None:
        try:
            await sess_b.command(move_cmd)
        finally:
            move_done.set()

    async def run_fetch() -> None:
        # Start as soon as the MOVE has been admitted for its copy phase.
        #
        while not move_cmd.ready.is_set():
            await asyncio.sleep(0)
        await sess_a.command(fetch_cmd)

    await asyncio.wait_for(asyncio.gather(run_move(), run_fetch()), 30)

    a_msgs = [e for w, e in events if w == "A"]
    b_msgs = [e for w, e in events if w == "B"]
    print("\n".join(f"{w:5}| {e}" for w, e in events))

    # B's MOVE went fine.
    #
    assert "* OK [COPYUID" in b_msgs[-7]
    assert b_msgs[-6:-1] == [f"* {n} EXPUNGE" for n in (5, 4, 3, 2, 1)]
    assert b_msgs[-1] == "B002 OK MOVE command completed"
    assert mbox.uids == uids_before[5:]

    # A was never sent an EXPUNGE (they are pending for its next command).
    #
    assert not any("EXPUNGE" in m for m in a_msgs)
    assert sum("EXPUNGE" in n for n in sess_a.pending_notifications) == 5

    # So for A message sequence number n is still the n-th message of the
    # mailbox as it was before the MOVE.
    #
    fetched = [
        (int(m.group(1)), int(m.group(2)))
        for m in (re.fullmatch(r"\* (\d+) FETCH \(UID (\d+)\)", x) for x in a_msgs)
        if m
    ]
    wrong = [(n, u) for n, u in fetched if uids_before[n - 1] != u]
    first = events.index(("A", a_msgs[0]))
    last = len(events) - 1 - events[::-1].index(("A", a_msgs[-1]))
    renumbered_during_fetch = ("mbox", "expunge begin") in events[first:last]

    assert not renumbered_during_fetch, (
        "the mailbox was expunged between the first and the last response "
        "of A's FETCH"
    )
    assert not wrong, (
        f"A's FETCH paired sequence numbers with the wrong messages: {wrong} "
        f"(seq, uid); before the MOVE the uids were {uids_before}"
    )
    assert a_msgs[-1] == "A002 OK FETCH command completed", a_msgs[-1]
    assert fetched == list(zip(range(1, 21), uids_before))
