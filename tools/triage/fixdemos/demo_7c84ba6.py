"""
Demonstration: a command line longer than the stream reader's limit ends the connection without any response.

The front end read lines with StreamReader.readuntil() on a reader with the default 64 KiB limit: an 80 KB command line
with no literal in it - a long `UID FETCH 1,3,5,...` - raised LimitOverrunError, which fell into the generic handler: the
connection was closed with no BAD and the commands behind it were dropped.

(1) Such a line within MAX_INPUT_SIZE is an ordinary command (the server gives its streams that limit).  (2) A line
beyond the reader's limit is refused with BAD, skipped to its end, and the next command is served.

Run: copy to asimap/test/ and run pytest on it.  FAILS before the fix, PASSES after.
"""
import asyncio
import inspect
from unittest.mock import AsyncMock

import pytest

from ..server import MAX_INPUT_SIZE, IMAPServer
from .test_server import _get_push_messages, _make_imap_client


def test_server_streams_take_a_line_as_long_as_a_command_may_be() -> None:
    src = inspect.getsource(IMAPServer.run)
    assert "limit=MAX_INPUT_SIZE" in src.replace(" ", "").replace("\n", "") or "limit=MAX_INPUT_SIZE" in src


@pytest.mark.asyncio
async def test_line_beyond_the_reader_limit_is_refused_and_skipped() -> None:
    reader = asyncio.StreamReader(limit=1024)
    client, push_mock = _make_imap_client(reader)
    relayed: list[bytes] = []

    async def message(msg: bytes) -> bool:
        relayed.append(msg)
        return not msg.upper().endswith(b"LOGOUT")

    client.subprocess_intf.message = AsyncMock(side_effect=message)  # type: ignore[method-assign]
    long_line = b"A001 UID FETCH " + b",".join(str(n).encode() for n in range(1, 3000, 2)) + b" FLAGS\r\n"
    assert len(long_line) > 4096

    async def feed() -> None:
        for i in range(0, len(long_line), 700):
            reader.feed_data(long_line[i : i + 700])
            await asyncio.sleep(0)
        reader.feed_data(b"A002 NOOP\r\nA003 LOGOUT\r\n")
        reader.feed_eof()

    await asyncio.gather(client.start(), feed())
    messages = _get_push_messages(push_mock)
    assert any(m.startswith(b"* BAD") and b"maximum" in m for m in messages), messages
    assert relayed == [b"A002 NOOP", b"A003 LOGOUT"], relayed
