r"""
Demo for f5b656e: the RFC 3501 search key UNDRAFT.

Input: inbox with 20 messages, messages 2 and 4 are \Draft. The client sends

    A001 SELECT INBOX
    A002 STORE 2,4 +FLAGS.SILENT (\Draft)
    A003 SEARCH DRAFT
    A004 SEARCH UNDRAFT
    A005 SEARCH OR UNDRAFT SEEN
    A006 UID SEARCH NOT UNDRAFT

through the user server's client loop (IMAPClientProxy.run(), fed through
its asyncio.StreamReader in the framing the front-end uses.)
"""

import asyncio

import pytest

from ..mbox import Mailbox
from ..parse import BadCommand, IMAPClientCommand
from ..user_server import IMAPClientProxy, IMAPUserServer
from .conftest import client_push_responses


def frame(line: str) -> bytes:
    """How asimapd hands a complete IMAP command to the user server."""
    data = line.encode("latin-1")
    return b"{%d}\n" % len(data) + data


@pytest.mark.asyncio
async def test_search_undraft_through_client_loop(
    mailbox_with_bunch_of_email: Mailbox,
    imap_user_server_and_client: tuple[IMAPUserServer, IMAPClientProxy],
) -> None:
    server, imap_client = imap_user_server_and_client
    mbox = mailbox_with_bunch_of_email
    assert mbox.num_msgs == 20

    reader = imap_client.reader
    for line in (
        "A001 SELECT INBOX\r\n",
        "A002 STORE 2,4 +FLAGS.SILENT (\\Draft)\r\n",
        "A003 SEARCH DRAFT\r\n",
        "A004 SEARCH UNDRAFT\r\n",
        "A005 SEARCH OR UNDRAFT SEEN\r\n",
        "A006 UID SEARCH NOT UNDRAFT\r\n",
    ):
        reader.feed_data(frame(line))
    reader.feed_eof()
    async with asyncio.timeout(10):
        await imap_client.run()

    results = client_push_responses(imap_client)
    tagged_or_search = [
        x
        for x in results
        if x.startswith("* SEARCH") or x.split(" ", 1)[0].startswith("A00")
    ]
    undraft = " ".join(str(x) for x in range(1, 21) if x not in (2, 4))
    assert tagged_or_search[2:] == [
        "* SEARCH 2 4",
        "A003 OK SEARCH command completed",
        f"* SEARCH {undraft}",
        "A004 OK SEARCH command completed",
        f"* SEARCH {undraft}",
        "A005 OK SEARCH command completed",
        "* SEARCH 2 4",
        "A006 OK SEARCH command completed",
    ], results


def test_parse_undraft() -> None:
    """The parser alone: every other UN<flag> key of RFC 3501 is known."""
    for key in ("UNANSWERED", "UNDELETED", "UNFLAGGED", "UNSEEN", "UNDRAFT"):
        cmd = IMAPClientCommand(f"A001 SEARCH {key}\r\n")
        try:
            cmd.parse()
        except BadCommand as e:
            pytest.fail(f"SEARCH {key}: {e}")
        assert cmd.search_key is not None
