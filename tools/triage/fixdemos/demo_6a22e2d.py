"""
Demo for 6a22e2d "fix: only the whole name INBOX is the inbox".

Parent: _p_mailbox matched the case-insensitive *prefix* `inbox` of the raw
input. So `inboxes`, `Inbox2`, `inbox/sub` all parsed as the mailbox `inbox`
(with the rest of the name left unparsed), and quoted / literal "INBOX" was
not normalised to `inbox`.
"""

from pathlib import Path

import pytest

from ..client import Authenticated
from ..mbox import Mailbox
from ..parse import IMAPClientCommand
from ..user_server import IMAPClientProxy, IMAPUserServer
from .conftest import client_push_responses


def _mbox_name(line: str) -> str:
    cmd = IMAPClientCommand(line)
    cmd.parse()
    return cmd.mailbox_name


@pytest.mark.parametrize(
    "line,expected",
    [
        ("A1 SELECT inboxes\r\n", "inboxes"),
        ("A1 CREATE Inbox2\r\n", "Inbox2"),
        ("A1 SELECT inbox/sub\r\n", "inbox/sub"),
        ('A1 SELECT "INBOX"\r\n', "inbox"),
        ("A1 SELECT {5+}\r\nInBoX\r\n", "inbox"),
        # sanity: these were right before and after
        ("A1 SELECT iNbOx\r\n", "inbox"),
        ("A1 SELECT foo\r\n", "foo"),
    ],
)
def test_parse_mailbox_name(line: str, expected: str) -> None:
    assert _mbox_name(line) == expected


def test_status_inboxes_parses() -> None:
    """
    With a command that has arguments after the mailbox name the leftover
    `es` made the whole command unparsable (BAD) on the parent.
    """
    cmd = IMAPClientCommand("A1 STATUS inboxes (MESSAGES)\r\n")
    cmd.parse()
    assert cmd.mailbox_name == "inboxes"


@pytest.mark.asyncio
async def test_create_and_select_inboxes(
    mailbox_with_bunch_of_email: Mailbox,
    imap_user_server_and_client: tuple[IMAPUserServer, IMAPClientProxy],
    mailbox_dir: Path,
) -> None:
    """
    End to end through the Authenticated handler: `CREATE inboxes` must create
    a mailbox called `inboxes` (on the parent it is refused because it is
    taken for `inbox`), and `SELECT inboxes` must select that (empty) mailbox,
    not the inbox with its 20 messages.
    """
    server, imap_client = imap_user_server_and_client
    inbox = mailbox_with_bunch_of_email
    assert inbox.num_msgs > 0
    handler = Authenticated(imap_client, server)

    cmd = IMAPClientCommand("A001 CREATE inboxes\r\n")
    cmd.parse()
    await handler.command(cmd)
    results = client_push_responses(imap_client)
    assert results == ["A001 OK CREATE command completed"]
    assert (Path(server.maildir) / "inboxes").is_dir()

    cmd = IMAPClientCommand("A002 SELECT inboxes\r\n")
    cmd.parse()
    await handler.command(cmd)
    results = client_push_responses(imap_client)
    assert handler.mbox is not None
    assert handler.mbox.name == "inboxes"
    assert "* 0 EXISTS" in results
