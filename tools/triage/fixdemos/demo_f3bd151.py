"""
Demo for f3bd151 "fix: RETR delivers exactly the announced octets".

Uses the real POP3CommandHandler on a real Mailbox (INBOX in a temp MH dir).
"""

import asyncio
from collections.abc import AsyncGenerator, Callable
from pathlib import Path
from typing import Any
from unittest.mock import AsyncMock

import pytest
import pytest_asyncio
from faker import Faker
from pytest_mock import MockerFixture

from asimap.generator import msg_as_bytes
from asimap.pop3_client import POP3ClientProxy, POP3CommandHandler
from asimap.pop3_parse import parse_pop3_command
from asimap.user_server import IMAPUserServer


@pytest_asyncio.fixture
async def pop3_client_proxy(
    faker: Faker, mocker: MockerFixture, imap_user_server: IMAPUserServer
) -> AsyncGenerator[Callable[..., Any]]:
    """Same as the fixture in test_pop3.py."""
    writers: list[asyncio.StreamWriter] = []

    async def _make() -> POP3ClientProxy:
        server = imap_user_server
        loop = asyncio.get_event_loop()
        devnull_writer = open("/dev/null", "wb")
        transport, protocol = await loop.connect_write_pipe(
            lambda: asyncio.streams.FlowControlMixin(loop=loop),
            devnull_writer,
        )
        writer = asyncio.StreamWriter(transport, protocol, None, loop)
        proxy = POP3ClientProxy(
            server,
            "pop3-127.0.0.1:2000",
            server.next_client_num,
            "127.0.0.1",
            2000,
            asyncio.StreamReader(),
            writer,
        )
        server.next_client_num += 1
        mocker.patch.object(proxy, "push", AsyncMock())
        writers.append(writer)
        return proxy

    yield _make
    for writer in writers:
        writer.close()


async def _pop3(handler: POP3CommandHandler, proxy: Any, line: str) -> bytes:
    proxy.push.reset_mock()
    await handler.command(parse_pop3_command(line))
    out = b""
    for args, _ in proxy.push.call_args_list:
        for d in args:
            out += d if isinstance(d, bytes) else d.encode("latin-1")
    return out



def _decode_multiline(resp: bytes) -> tuple[bytes, bytes]:
    """
    Do what a POP3 client does with a multi-line response (RFC 1939 sect. 3):
    the first line is the status line, then lines up to (not including) the
    line that is a lone ".", with the leading "." of stuffed lines removed.
    Returns (status line, payload with its CRLFs).
    """
    lines = resp.split(b"\r\n")
    assert lines[-1] == b""  # response ends in CRLF
    lines = lines[:-1]
    status, rest = lines[0], lines[1:]
    assert rest[-1] == b".", "no termination line"
    assert b"." not in rest[:-1], "termination line inside payload"
    payload = b""
    for line in rest[:-1]:
        if line.startswith(b"."):
            line = line[1:]
        payload += line + b"\r\n"
    return status, payload


@pytest.mark.asyncio
async def test_retr_payload_is_the_announced_size(
    bunch_of_email_in_folder: Callable[..., Path],
    imap_user_server: IMAPUserServer,
    pop3_client_proxy: Callable[..., Any],
) -> None:
    """
    INBOX with 3 ordinary messages. For each: the octets that a POP3 client
    gets out of RETR n must be as many as "+OK <size> octets" and LIST n
    announce, and must be the message as rendered by the server (no extra
    empty line at the end). STAT must be their sum.
    """
    bunch_of_email_in_folder(num_emails=3, folder="inbox")
    proxy = await pop3_client_proxy()
    handler = POP3CommandHandler(proxy, imap_user_server)
    await handler.init_session()
    mbox = handler.mbox
    assert mbox is not None

    total = 0
    for n in (1, 2, 3):
        lst = await _pop3(handler, proxy, f"LIST {n}")
        listed = int(lst.split()[2])

        retr = await _pop3(handler, proxy, f"RETR {n}")
        status, payload = _decode_multiline(retr)
        announced = int(status.split()[1])

        expected = msg_as_bytes(mbox.get_msg(mbox.msg_keys[n - 1]))
        assert announced == listed == len(expected)
        assert len(payload) == announced, (
            f"RETR {n}: announced {announced} octets, delivered "
            f"{len(payload)}; tail={payload[-12:]!r}"
        )
        assert payload == expected
        total += len(payload)

    stat = await _pop3(handler, proxy, "STAT")
    assert stat == f"+OK 3 {total}\r\n".encode()
