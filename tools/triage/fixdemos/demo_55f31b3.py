"""
Demo for 55f31b3 "fix: escape quoted strings in FETCH, LIST, LSUB and STATUS
responses".

Drives the real Authenticated command handler (CREATE / SUBSCRIBE / LIST /
LSUB / STATUS / SELECT / FETCH) and reads its responses with a small, strict
RFC 3501 response tokenizer, as a client would.
"""

from collections.abc import Callable
from pathlib import Path
from typing import Any

import pytest

from ..client import Authenticated
from ..parse import IMAPClientCommand
from ..user_server import IMAPUserServer
from .conftest import client_push_responses

ATOM_SPECIALS = b'(){ "\\'  # '\\' is allowed in flags, handled below


class Malformed(Exception):
    pass


def tokenize(data: bytes) -> list[Any]:
    """
    Strict tokenizer for one IMAP response: atoms, quoted strings (with `\\\\`
    and `\\"` escapes, no CR/LF inside), literals and parenthesized lists.
    Tokens must be separated by SP or list delimiters.
    """
    pos = 0
    stack: list[list[Any]] = [[]]

    def need_delim(p: int) -> None:
        if p < len(data) and data[p : p + 1] not in (b" ", b")", b"\r"):
            raise Malformed(
                f"token not followed by a delimiter at {p}: "
                f"{data[max(0, p - 30) : p + 30]!r}"
            )

    while pos < len(data):
        c = data[pos : pos + 1]
        if c == b" ":
            pos += 1
        elif data[pos : pos + 2] == b"\r\n" and pos + 2 == len(data):
            pos += 2
        elif c == b"(":
            new: list[Any] = []
            stack[-1].append(new)
            stack.append(new)
            pos += 1
        elif c == b")":
            if len(stack) == 1:
                raise Malformed(f"unbalanced ')' at {pos}")
            stack.pop()
            pos += 1
            need_delim(pos)
        elif c == b'"':
            pos += 1
            out = b""
            while True:
                if pos >= len(data):
                    raise Malformed("unterminated quoted string")
                ch = data[pos : pos + 1]
                if ch in (b"\r", b"\n"):
                    raise Malformed(f"CR/LF inside quoted string at {pos}")
                if ch == b"\\":
                    nxt = data[pos + 1 : pos + 2]
                    if nxt not in (b"\\", b'"'):
                        raise Malformed(f"bad escape \\{nxt!r} at {pos}")
                    out += nxt
                    pos += 2
                elif ch == b'"':
                    pos += 1
                    break
                else:
                    out += ch
                    pos += 1
            need_delim(pos)
            stack[-1].append(out)
        elif c == b"{":
            end = data.index(b"}\r\n", pos)
            n = int(data[pos + 1 : end])
            start = end + 3
            stack[-1].append(data[start : start + n])
            pos = start + n
        else:
            start = pos
            while pos < len(data) and data[pos : pos + 1] not in (
                b" ",
                b"(",
                b")",
                b'"',
                b"\r",
                b"\n",
            ):
                pos += 1
            if pos == start:
                raise Malformed(f"unexpected {c!r} at {pos}")
            need_delim(pos)
            atom = data[start:pos]
            stack[-1].append(None if atom == b"NIL" else atom)
    if len(stack) != 1:
        raise Malformed("unbalanced '('")
    return stack[0]


def _b(x: Any) -> bytes:
    return x if isinstance(x, bytes) else x.encode("latin-1")


async def _run(handler: Authenticated, client: Any, line: str) -> list[bytes]:
    cmd = IMAPClientCommand(line)
    cmd.parse()
    await handler.command(cmd)
    return [_b(x) for x in client_push_responses(client, strip=False)]


MESSAGE = (
    b"Date: Mon, 01 Jan 2024 10:00:00 +0000\n"
    b"From: \"Joe \\\"the\\\\man\\\" Doe\" <joe@example.com>\n"
    b"To: jane@example.com\n"
    b"Message-ID: <abc@example.com>\n"
    b'Subject: say "hi" to c:\\temp\n'
    b"MIME-Version: 1.0\n"
    b'Content-Type: text/plain; charset="us-ascii"; name="we\\"ird.txt"\n'
    b'Content-Disposition: attachment; filename="we\\"ird.txt"\n'
    b"\n"
    b"Hello.\n"
)


@pytest.mark.asyncio
async def test_fetch_envelope_and_bodystructure_are_well_formed(
    mh_folder: Callable[..., Any],
    imap_user_server_and_client: tuple[IMAPUserServer, Any],
) -> None:
    """
    One message with  Subject: say "hi" to c:\\temp , a display name and MIME
    parameters that contain a double quote / backslash.
    """
    server, client = imap_user_server_and_client
    _, _, inbox = mh_folder("inbox", None)
    (Path(inbox._path) / "1").write_bytes(MESSAGE)

    handler = Authenticated(client, server)
    await _run(handler, client, "A001 SELECT INBOX")

    results = await _run(handler, client, "A002 FETCH 1 (ENVELOPE)")
    assert results[-1].startswith(b"A002 OK"), results
    tokens = tokenize(results[0])  # Malformed on the parent
    assert tokens[:3] == [b"*", b"1", b"FETCH"]
    att = tokens[3]
    env = att[att.index(b"ENVELOPE") + 1]
    assert len(env) == 10, env
    assert env[1] == b'say "hi" to c:\\temp'
    # from: ((personal NIL mailbox host))
    assert env[2][0][2:] == [b"joe", b"example.com"]
    assert b'"the' in env[2][0][0]

    results = await _run(handler, client, "A003 FETCH 1 (BODYSTRUCTURE)")
    assert results[-1].startswith(b"A003 OK"), results
    tokens = tokenize(results[0])
    att = tokens[3]
    bs = att[att.index(b"BODYSTRUCTURE") + 1]
    assert bs[0:2] == [b"TEXT", b"PLAIN"]
    params = dict(zip(bs[2][0::2], bs[2][1::2]))
    assert params[b"NAME"] == b'we"ird.txt'
    # body-fld-dsp is the 9th field of a text part (text has `lines`)
    dsp = bs[9]
    assert dsp[0] == b"ATTACHMENT"
    assert dict(zip(dsp[1][0::2], dsp[1][1::2]))[b"FILENAME"] == b'we"ird.txt'


@pytest.mark.asyncio
async def test_list_lsub_status_with_quote_in_mailbox_name(
    mh_folder: Callable[..., Any],
    imap_user_server_and_client: tuple[IMAPUserServer, Any],
) -> None:
    """
    A mailbox named  we"ird\\box  (created over IMAP with a properly escaped
    quoted string) must come back as a well formed quoted string.
    """
    server, client = imap_user_server_and_client
    mh_folder("inbox", None)
    handler = Authenticated(client, server)
    NAME = b'we"ird\\box'
    WIRE = '"we\\"ird\\\\box"'

    results = await _run(handler, client, f"A001 CREATE {WIRE}")
    assert results[-1].startswith(b"A001 OK"), results
    results = await _run(handler, client, f"A002 SUBSCRIBE {WIRE}")
    assert results[-1].startswith(b"A002 OK"), results

    results = await _run(handler, client, 'A003 LIST "" "we*"')
    assert results[-1].startswith(b"A003 OK"), results
    assert len(results) == 2
    tokens = tokenize(results[0])
    assert tokens[:2] == [b"*", b"LIST"]
    assert tokens[3:] == [b"/", NAME], tokens

    results = await _run(handler, client, 'A004 LSUB "" "we*"')
    assert results[-1].startswith(b"A004 OK"), results
    assert len(results) == 2
    tokens = tokenize(results[0])
    assert tokens[:2] == [b"*", b"LSUB"]
    assert tokens[3:] == [b"/", NAME], tokens

    results = await _run(handler, client, f"A005 STATUS {WIRE} (MESSAGES)")
    assert results[-1].startswith(b"A005 OK"), results
    tokens = tokenize(results[0])
    assert tokens == [b"*", b"STATUS", NAME, [b"MESSAGES", b"0"]], tokens

    results = await _run(
        handler, client, 'A006 LIST "" "we*" RETURN (STATUS (MESSAGES))'
    )
    assert results[-1].startswith(b"A006 OK"), results
    for line in results[:-1]:
        tokens = tokenize(line)
        assert NAME in tokens, tokens
