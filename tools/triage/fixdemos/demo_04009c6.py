"""
Demonstration: SEARCH HEADER looks at the first occurrence of a field only; one message with an unparsable Date: makes
every SENTBEFORE / SENTON / SENTSINCE search of the mailbox fail.

(1) A message with two `Received:` lines: `SEARCH HEADER Received bravo.example` (the string is in the second line) finds
nothing although `TEXT bravo.example` finds the message.  (2) A message whose `Date:` header is `not a date at all`:
`SEARCH SENTBEFORE 1-Jan-2030` raises ValueError out of the search instead of returning the other messages.

Run: copy to asimap/test/ and run pytest on it.  FAILS before the fix, PASSES after.
"""
from datetime import date
from email import message_from_string
from email.policy import default

import pytest

from ..mbox import Mailbox
from ..search import IMAPSearch

TWO_RECEIVED = """Received: from alpha.example by mx.example; Mon, 02 Feb 2026 10:00:00 +0000
Received: from bravo.example by alpha.example; Mon, 02 Feb 2026 09:59:00 +0000
From: a@example.com
To: b@example.com
Subject: two hops
Date: Mon, 02 Feb 2026 10:00:00 +0000
Message-ID: <two-hops@example.com>

body
"""

BAD_DATE = """From: a@example.com
To: b@example.com
Subject: odd date
Date: not a date at all
Message-ID: <odd-date@example.com>

body
"""


@pytest.mark.asyncio
async def test_header_search_sees_every_occurrence(mailbox_with_bunch_of_email: Mailbox) -> None:
    mbox = mailbox_with_bunch_of_email
    uid = await mbox.append(message_from_string(TWO_RECEIVED, policy=default), [])
    seq = mbox.uids.index(uid) + 1
    by_text = await mbox.search(IMAPSearch("text", string="bravo.example"))
    by_header = await mbox.search(IMAPSearch("header", header="received", string="bravo.example"))
    assert seq in by_text
    assert by_header == [seq], f"HEADER Received bravo.example -> {by_header}"


@pytest.mark.asyncio
async def test_sent_searches_survive_an_unparsable_date(mailbox_with_bunch_of_email: Mailbox) -> None:
    mbox = mailbox_with_bunch_of_email
    n = mbox.num_msgs
    uid = await mbox.append(message_from_string(BAD_DATE, policy=default), [])
    seq = mbox.uids.index(uid) + 1
    got = await mbox.search(IMAPSearch("sentbefore", date=date(2100, 1, 1)))
    assert seq not in got
    assert len(got) == n
    assert seq not in await mbox.search(IMAPSearch("sentsince", date=date(1970, 1, 1)))
    assert seq not in await mbox.search(IMAPSearch("senton", date=date(2026, 2, 2)))
