r"""
Demo for 740ecf1: the guard in Mailbox.store only refused the literal flag
`\Recent`.  The keyword `Recent` (no backslash) passed the guard and was then
mapped by flag_to_seq() to the MH sequence `Recent` - which *is* the \Recent
flag.

History: SELECT inbox (all messages \Recent);  STORE 1 -FLAGS (Recent)
Parent: "OK", the untagged FETCH shows message 1 without \Recent and the
`Recent` sequence lost the message.  And `STORE 2 +FLAGS (Recent)` on a
message that is not recent makes it \Recent.
Fixed: both are refused with NO, flags unchanged.
"""

import pytest

from ..client import Authenticated
from ..mbox import Mailbox
from ..parse import IMAPClientCommand, StoreAction
from ..user_server import IMAPClientProxy, IMAPUserServer
from .conftest import client_push_responses


async def _run(handler: Authenticated, line: str) -> None:
    cmd = IMAPClientCommand(line + "\r\n")
    cmd.parse()
    await handler.command(cmd)


@pytest.mark.asyncio
async def test_store_keyword_recent_via_client(
    mailbox_with_bunch_of_email: Mailbox,
    imap_user_server_and_client: tuple[IMAPUserServer, IMAPClientProxy],
) -> None:
    server, imap_client = imap_user_server_and_client
    mbox = mailbox_with_bunch_of_email
    handler = Authenticated(imap_client, server)

    await _run(handler, "A001 SELECT inbox")
    client_push_responses(imap_client)

    key1 = mbox.msg_keys[0]
    assert key1 in mbox.sequences["Recent"]

    # The literal system flag is refused (on parent and on the fix.)
    #
    await _run(handler, r"A002 STORE 1 -FLAGS (\Recent)")
    results = client_push_responses(imap_client)
    assert results == [
        r"A002 NO You can not add or remove the '\Recent' flag"
    ]

    # .. but the same thing spelled as a keyword must be refused too.
    #
    await _run(handler, r"A003 STORE 1 -FLAGS (Recent)")
    results = client_push_responses(imap_client)
    assert key1 in mbox.sequences["Recent"], (
        f"STORE -FLAGS (Recent) removed \\Recent from message 1: {results}"
    )
    assert results == [
        r"A003 NO You can not add or remove the '\Recent' flag"
    ]
    assert key1 in mbox.mailbox.get_sequences().get("Recent", [])


@pytest.mark.asyncio
async def test_store_add_keyword_recent_on_mailbox(
    mailbox_with_bunch_of_email: Mailbox,
) -> None:
    r"""Adding: a message that is not \Recent becomes \Recent."""
    from ..exceptions import No

    mbox = mailbox_with_bunch_of_email
    key2 = mbox.msg_keys[1]
    # Make message 2 not recent (what happens when the mailbox was selected
    # before) through the normal sequence plumbing.
    async with mbox.mh_sequences_lock:
        mbox.sequences["Recent"].discard(key2)
        mbox.set_sequences_in_folder(mbox.sequences)
    assert key2 not in mbox.sequences["Recent"]

    with pytest.raises(No):
        await mbox.store([2], StoreAction.ADD_FLAGS, ["Recent"])
    assert key2 not in mbox.sequences["Recent"]
