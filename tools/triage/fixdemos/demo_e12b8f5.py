r"""
Demo for e12b8f5: Mailbox.delete() must refuse the inbox whatever its case.

NOTE: On the wire the plain `DELETE INBOX` / `DELETE InBoX` never reached the
      defect: the parser (`_p_mailbox`) already turns every spelling of INBOX
      in to "inbox" (see the control test at the bottom, it passes before and
      after.) What does reach Mailbox.delete() with an upper case name is a
      name that only *becomes* INBOX when the parser normalises the path
      after its INBOX check: `INBOX/`, `/INBOX`, `./Inbox`.
      IMAPUserServer.get_mailbox() then maps that to the real inbox and
      DELETE removes every message in it.
"""

from pathlib import Path

import pytest

from ..client import Authenticated
from ..mbox import InvalidMailbox, Mailbox
from ..parse import IMAPClientCommand
from ..user_server import IMAPClientProxy, IMAPUserServer
from .conftest import client_push_responses


def inbox_files(server: IMAPUserServer) -> list[str]:
    inbox = Path(server.maildir) / "inbox"
    return sorted(
        (x.name for x in inbox.iterdir() if x.name.isdigit()), key=int
    )


@pytest.mark.parametrize("name", ["INBOX", "Inbox", "iNbOx"])
@pytest.mark.asyncio
async def test_mailbox_delete_refuses_inbox_in_any_case(
    name: str,
    mailbox_with_bunch_of_email: Mailbox,
    imap_user_server: IMAPUserServer,
) -> None:
    server = imap_user_server
    assert len(inbox_files(server)) == 20
    try:
        with pytest.raises(InvalidMailbox):
            await Mailbox.delete(name, server)
    finally:
        # The user's mail must still be there.
        assert len(inbox_files(server)) == 20


@pytest.mark.parametrize("arg", ["INBOX/", "/INBOX", "./Inbox", '"/inBox"'])
@pytest.mark.asyncio
async def test_delete_command_with_path_that_normalises_to_inbox(
    arg: str,
    mailbox_with_bunch_of_email: Mailbox,
    imap_user_server_and_client: tuple[IMAPUserServer, IMAPClientProxy],
) -> None:
    server, imap_client = imap_user_server_and_client
    client_handler = Authenticated(imap_client, server)
    assert len(inbox_files(server)) == 20

    cmd = IMAPClientCommand(f"A001 DELETE {arg}\r\n")
    cmd.parse()
    try:
        await client_handler.command(cmd)
    except Exception:
        # (on the parent the command goes on to blow up when it tries to
        # remove the directory "INBOX" - after the messages are gone.)
        pass
    results = client_push_responses(imap_client)
    assert len(inbox_files(server)) == 20, results
    assert results == ["A001 NO You are not allowed to delete the inbox"]


@pytest.mark.parametrize("arg", ["INBOX", "inbox", "InBoX", '"Inbox"'])
@pytest.mark.asyncio
async def test_control_plain_delete_inbox_is_refused(
    arg: str,
    mailbox_with_bunch_of_email: Mailbox,
    imap_user_server_and_client: tuple[IMAPUserServer, IMAPClientProxy],
) -> None:
    """Passes before and after: the parser protects this spelling."""
    server, imap_client = imap_user_server_and_client
    client_handler = Authenticated(imap_client, server)
    cmd = IMAPClientCommand(f"A001 DELETE {arg}\r\n")
    cmd.parse()
    assert cmd.mailbox_name == "inbox"
    await client_handler.command(cmd)
    results = client_push_responses(imap_client)
    assert results == ["A001 NO You are not allowed to delete the inbox"]
    assert len(inbox_files(server)) == 20
