"""
Demo for 0b0bf06: a LIST reference that ends in the hierarchy delimiter names
a level of hierarchy (RFC 3501 6.3.8: the reference and the mailbox name are
put together; `LIST "~/Mail/" "%"` are the names directly under `~/Mail/`).

On the parent revision the parser normalises the reference `a/` to `a`, the
pattern becomes `a%` and `LIST "a/" "%"` answers `a`, `ab` - none of which is
below `a/` - and leaves out `a/b`.
"""

from typing import Any

import pytest

from ..client import Authenticated
from ..mbox import Mailbox
from ..parse import IMAPClientCommand
from ..user_server import IMAPClientProxy, IMAPUserServer
from .conftest import client_push_responses


async def _run(
    handler: Authenticated, client: IMAPClientProxy, line: str
) -> list[Any]:
    cmd = IMAPClientCommand(line)
    cmd.parse()
    await handler.command(cmd)
    return client_push_responses(client)


def _names(results: list[str], what: str = "LIST") -> list[str]:
    return sorted(
        r.rsplit(' "/" ', 1)[1].strip('"')
        for r in results
        if r.startswith(f"* {what} (")
    )


@pytest.mark.asyncio
async def test_list_reference_with_trailing_delimiter(
    mailbox_with_bunch_of_email: Mailbox,
    imap_user_server_and_client: tuple[IMAPUserServer, IMAPClientProxy],
) -> None:
    server, client = imap_user_server_and_client
    _ = mailbox_with_bunch_of_email
    for name in ("a", "ab", "a/b", "a/b/c", "a/d"):
        await Mailbox.create(name, server)
    handler = Authenticated(client, server)

    # Controls, the same on both revisions: what the patterns mean when
    # the reference is empty or has no trailing delimiter.
    #
    results = await _run(handler, client, 'A1 LIST "" "a/%"')
    assert _names(results) == ["a/b", "a/d"]
    results = await _run(handler, client, 'A2 LIST "a" "%"')
    assert _names(results) == ["a", "ab"]

    # The children of `a`
    #
    results = await _run(handler, client, 'A3 LIST "a/" "%"')
    assert results[-1] == "A3 OK LIST command completed"
    assert _names(results) == ["a/b", "a/d"], results

    # Everything below `a`
    #
    results = await _run(handler, client, 'A4 LIST "a/" "*"')
    assert _names(results) == ["a/b", "a/b/c", "a/d"], results

    # One name below `a`
    #
    results = await _run(handler, client, 'A5 LIST "a/" "b"')
    assert _names(results) == ["a/b"], results

    # Two levels down
    #
    results = await _run(handler, client, 'A6 LIST "a/b/" "%"')
    assert _names(results) == ["a/b/c"], results

    # LSUB
    #
    for name in ("a", "ab", "a/b"):
        await _run(handler, client, f"S SUBSCRIBE {name}")
    results = await _run(handler, client, 'A7 LSUB "a/" "%"')
    assert _names(results, "LSUB") == ["a/b"], results

    # RFC 5258 multiple patterns use the same reference
    #
    results = await _run(handler, client, 'A8 LIST "a/" ("b" "d")')
    assert _names(results) == ["a/b", "a/d"], results


def test_parser_keeps_the_normalised_reference() -> None:
    """
    What the parser reports: the name as before plus the fact that the
    reference named a level. (`list_reference_is_level` does not exist on the
    parent revision.)
    """
    cmd = IMAPClientCommand('A1 LIST "a/" "%"\r\n').parse()
    assert cmd.mailbox_name == "a"
    assert cmd.list_reference_is_level is True
    cmd = IMAPClientCommand('A1 LIST "a" "%"\r\n').parse()
    assert cmd.mailbox_name == "a"
    assert cmd.list_reference_is_level is False
    cmd = IMAPClientCommand('A1 LIST "" "%"\r\n').parse()
    assert cmd.list_reference_is_level is False
