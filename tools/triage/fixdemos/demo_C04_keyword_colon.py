"""A flag keyword containing ':' is a valid atom; it must either be stored and reported, or refused - not corrupt .mh_sequences."""
from collections.abc import Callable
from pathlib import Path
from typing import Any

import pytest

from ..parse import IMAPClientCommand
from ..user_server import IMAPUserServer
from .conftest import client_push_responses


async def run_cmd(proxy: Any, line: str) -> list[str]:
    cmd = IMAPClientCommand(line)
    try:
        cmd.parse()
    except Exception as e:  # the user-process read loop answers BAD to an unparsable command
        return [f"{line.split()[0]} BAD {e}"]
    try:
        await proxy.cmd_processor.command(cmd)
    except Exception:
        pass
    return [x if isinstance(x, str) else str(x, "latin-1") for x in client_push_responses(proxy)]


@pytest.mark.asyncio
@pytest.mark.parametrize("kw", ["a:b", "$Label:1"])
async def test_keyword_with_colon(kw, bunch_of_email_in_folder: Callable[..., Path], imap_user_server: IMAPUserServer, imap_client_proxy: Callable[..., Any]) -> None:
    bunch_of_email_in_folder(num_emails=5)
    a = await imap_client_proxy()
    b = await imap_client_proxy()
    await run_cmd(a, "A1 SELECT inbox")
    res = await run_cmd(a, f"A2 STORE 1 +FLAGS ({kw})")
    print(res)
    accepted = res[-1].startswith("A2 OK")
    # whatever the answer, the mailbox must stay usable and consistent for everybody
    r3 = await run_cmd(a, "A3 FETCH 1:2 (FLAGS BODY[HEADER.FIELDS (SUBJECT)])")
    print(r3[-1])
    assert r3[-1].startswith("A3 OK"), r3[-1]
    r4 = await run_cmd(b, "B1 SELECT inbox")
    assert r4[-1].startswith("B1 OK"), r4[-1]
    r5 = await run_cmd(b, "B2 FETCH 1 (FLAGS)")
    assert r5[-1].startswith("B2 OK"), r5
    if accepted:
        assert any(kw in x for x in r5), r5
