"""
Demo for 2bd90a2: a command the parser can not take in (a number with more
digits than `int()` converts, search keys / parenthesised lists nested deeper
than the recursion limit) must be answered with a tagged BAD and the
connection must stay usable.

On the parent revision `IMAPClientCommand.parse()` lets `ValueError` /
`RecursionError` escape. Its callers only expect `BadCommand`, so
`IMAPClientProxy.run()` (the per-connection read loop of the user server)
dies with that exception and closes the connection without any reply.
"""

import asyncio
from collections.abc import Callable
from typing import Any

import pytest

from ..parse import BadCommand, IMAPClientCommand
from .conftest import client_push_responses

HUGE_NUMBER = "9" * 5000  # int() refuses more than 4300 digits
DEEP = 5000  # well over the recursion limit

UNPARSEABLE = [
    pytest.param(f"A1 FETCH 1:{HUGE_NUMBER} FLAGS", id="fetch-huge-seq-number"),
    pytest.param(f"A1 SEARCH LARGER {HUGE_NUMBER}", id="search-larger-huge"),
    pytest.param(
        "A1 SEARCH " + "NOT " * DEEP + "SEEN", id="search-deeply-nested-not"
    ),
    pytest.param(
        "A1 SEARCH " + "(" * DEEP + "SEEN" + ")" * DEEP,
        id="search-deeply-nested-parens",
    ),
]


@pytest.mark.parametrize("line", UNPARSEABLE)
def test_parse_raises_bad_command(line: str) -> None:
    """
    Whatever the client sent, parse() gives the command or a BadCommand
    """
    cmd = IMAPClientCommand(line + "\r\n")
    with pytest.raises(BadCommand):
        cmd.parse()
    assert cmd.tag == "A1"


def _frame(line: str) -> bytes:
    """
    The framing the front-end uses when it relays a client's message to the
    user server.
    """
    data = (line + "\r\n").encode("latin-1")
    return f"{{{len(data)}}}\n".encode() + data


@pytest.mark.asyncio
@pytest.mark.parametrize("line", UNPARSEABLE)
async def test_connection_answers_bad_and_survives(
    line: str, imap_client_proxy: Callable[..., Any]
) -> None:
    """
    Run the real per-connection loop over a stream that holds the bad command
    followed by a NOOP. We must see a tagged BAD for the first and the OK for
    the second: i.e. the connection was not dropped.
    """
    proxy = await imap_client_proxy()
    proxy.reader.feed_data(_frame(line))
    proxy.reader.feed_data(_frame("A2 NOOP"))
    proxy.reader.feed_eof()

    # On the parent revision this raises ValueError / RecursionError out of
    # the connection's task (and the NOOP is never looked at).
    #
    await asyncio.wait_for(proxy.run(), timeout=30)

    results = client_push_responses(proxy)
    assert len(results) == 2, results
    assert results[0].startswith("A1 BAD "), results
    assert results[1] == "A2 OK NOOP command completed", results
