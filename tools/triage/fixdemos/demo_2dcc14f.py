"""
Demo for 2dcc14f: a schema migration and its row in `versions` must become
durable together.

History: a child process opens a fresh asimap.db with `Database.new()`. The
process is killed (os._exit - no cleanup, no commit, no rollback) right after
migration number N has run its statements, i.e. before apply_migrations()
recorded version N. Then we "restart": `Database.new()` on the same directory
must succeed and bring the schema to the latest version.
"""

import asyncio
import subprocess
import sys
import textwrap
from pathlib import Path

import aiosqlite
import pytest

from .. import db as dbmod
from ..db import MIGRATIONS, Database

REPO_ROOT = Path(__file__).resolve().parents[2]

CHILD = textwrap.dedent(
    """
    import asyncio, os, sys
    from asimap import db as dbmod

    maildir, kill_after = sys.argv[1], int(sys.argv[2])
    orig = dbmod.MIGRATIONS[kill_after]

    async def migrate_then_die(conn):
        await orig(conn)
        # The kill: nothing after the last statement of the migration runs.
        os._exit(42)

    migrate_then_die.__name__ = orig.__name__
    dbmod.MIGRATIONS[kill_after] = migrate_then_die
    asyncio.run(dbmod.Database.new(maildir))
    os._exit(0)   # not reached
    """
)


@pytest.mark.parametrize("kill_after", [0, 1, 2, 3, 5])
@pytest.mark.asyncio
async def test_restart_after_kill_between_migration_and_version_row(
    tmp_path: Path, kill_after: int, monkeypatch: pytest.MonkeyPatch
) -> None:
    # Database.new() does not close its connection when apply_migrations()
    # raises and the (non daemon) aiosqlite thread would keep pytest from
    # exiting. Remember the connections so that we can close them ourselves.
    #
    conns: list[aiosqlite.Connection] = []
    real_connect = aiosqlite.connect

    def recording_connect(*args, **kwargs):  # type: ignore[no-untyped-def]
        conn = real_connect(*args, **kwargs)
        conns.append(conn)
        return conn

    monkeypatch.setattr(dbmod.aiosqlite, "connect", recording_connect)

    res = subprocess.run(
        [sys.executable, "-c", CHILD, str(tmp_path), str(kill_after)],
        cwd=REPO_ROOT,
        capture_output=True,
        timeout=15,
    )
    assert res.returncode == 42, res.stderr.decode()
    assert (tmp_path / "asimap.db").exists()

    # Restart. Must not raise "table versions already exists" /
    # "duplicate column name: ...".
    #
    try:
        async with asyncio.timeout(10):
            db = await Database.new(tmp_path)
    except BaseException:
        for conn in conns:
            await conn.close()
        raise
    try:
        row = await db.fetchone(
            "SELECT version FROM versions ORDER BY version DESC LIMIT 1"
        )
        assert row is not None
        assert int(row[0]) == len(MIGRATIONS) - 1
        cols = [r[1] async for r in db.query("PRAGMA table_info(mailboxes)")]
        for col in ("uids", "last_resync", "subscribed", "msg_keys"):
            assert cols.count(col) == 1
    finally:
        await db.close()
