r"""
Demo for 84d9ad8: the inbox must be listed with \HasChildren when it has
sub-mailboxes (the server advertises CHILDREN / LIST-EXTENDED, RFC 3348 /
RFC 5258: \HasNoChildren is a promise that there are no child mailboxes).

LIST renames the inbox to `INBOX` and then looks for names beginning with
`INBOX/`; its children are stored and listed as `inbox/...`, so on the parent
revision the inbox is always `\HasNoChildren`, right next to its children in
the same LIST response.
"""

from typing import Any

import pytest

from ..client import Authenticated
from ..mbox import Mailbox
from ..parse import IMAPClientCommand
from ..user_server import IMAPClientProxy, IMAPUserServer
from .conftest import client_push_responses


async def _run(
    handler: Authenticated, client: IMAPClientProxy, line: str
) -> list[Any]:
    cmd = IMAPClientCommand(line)
    cmd.parse()
    await handler.command(cmd)
    return client_push_responses(client)


def _attrs_of(results: list[str], name: str, what: str = "LIST") -> set[str]:
    for r in results:
        if r.startswith(f"* {what} (") and r.endswith(f' "/" "{name}"'):
            return set(r[len(f"* {what} (") : r.index(")")].split())
    raise AssertionError(f"{name} not in {results}")


@pytest.mark.asyncio
@pytest.mark.parametrize("pattern", ["*", "%", "inbox"])
async def test_inbox_with_children_is_haschildren(
    pattern: str,
    mailbox_with_bunch_of_email: Mailbox,
    imap_user_server_and_client: tuple[IMAPUserServer, IMAPClientProxy],
) -> None:
    server, client = imap_user_server_and_client
    _ = mailbox_with_bunch_of_email
    handler = Authenticated(client, server)

    # Control: no children yet
    #
    await Mailbox.create("inboxes", server)  # not a child of the inbox
    results = await _run(handler, client, f'A0 LIST "" {pattern}')
    attrs = _attrs_of(results, "INBOX")
    assert r"\HasNoChildren" in attrs and r"\HasChildren" not in attrs

    # A sub-mailbox under the name the inbox is kept under (this is also what
    # an MH folder `inbox/sub` found on disk becomes).
    #
    results = await _run(handler, client, "A1 CREATE inbox/sub")
    assert results[-1].startswith("A1 OK"), results

    results = await _run(handler, client, f'A2 LIST "" {pattern}')
    assert results[-1] == "A2 OK LIST command completed"
    attrs = _attrs_of(results, "INBOX")
    assert r"\HasChildren" in attrs, results
    assert r"\HasNoChildren" not in attrs, results

    # The same holds for the other mailboxes (control)
    #
    await Mailbox.create("other/sub", server)
    results = await _run(handler, client, 'A3 LIST "" *')
    assert r"\HasChildren" in _attrs_of(results, "other")
    assert r"\HasNoChildren" in _attrs_of(results, "other/sub")
    assert r"\HasNoChildren" in _attrs_of(results, "inboxes")

    # LSUB builds its attributes in the same loop
    #
    await _run(handler, client, "A4 SUBSCRIBE INBOX")
    results = await _run(handler, client, 'A5 LSUB "" *')
    attrs = _attrs_of(results, "INBOX", "LSUB")
    assert r"\HasChildren" in attrs and r"\HasNoChildren" not in attrs


@pytest.mark.xfail(
    reason="REVIEW CONCERN: 84d9ad8 swaps one case for the other. A child "
    "made as `INBOX/sub` (what a client that was told the inbox is called "
    "INBOX will write) is stored and listed as `INBOX/sub`; the parent "
    "revision reported INBOX \\HasChildren for it, the commit reports "
    "\\HasNoChildren.",
    strict=False,
)
@pytest.mark.asyncio
async def test_concern_child_created_with_upper_case_prefix(
    mailbox_with_bunch_of_email: Mailbox,
    imap_user_server_and_client: tuple[IMAPUserServer, IMAPClientProxy],
) -> None:
    """
    Not part of the pass/fail verdict (xfail, non strict): XPASS on the parent
    revision, XFAIL on the commit.
    """
    server, client = imap_user_server_and_client
    _ = mailbox_with_bunch_of_email
    handler = Authenticated(client, server)
    results = await _run(handler, client, "A1 CREATE INBOX/sub")
    assert results[-1].startswith("A1 OK"), results
    results = await _run(handler, client, 'A2 LIST "" *')
    _attrs_of(results, "INBOX/sub")  # it is listed under that name
    attrs = _attrs_of(results, "INBOX")
    assert r"\HasChildren" in attrs and r"\HasNoChildren" not in attrs, results
