"""
Demonstration: SEARCH names a message the session has not been told about.

A and B have the inbox selected.  B's STORE leaves a `* 1 FETCH` queued for A (A is not idling).  A message is delivered
and B's CHECK resyncs: the `* n EXISTS` for A is queued behind that FETCH (so that order is kept).  FETCH, STORE, COPY and
MOVE flush such a queue before they run; SEARCH did not: A's `SEARCH ALL` was answered with the new message's number
while A's view - replay of what it was sent - had one message less.

Run: copy to asimap/test/ and run pytest on it.  FAILS before the fix, PASSES after.
"""
import re
from collections.abc import Callable
from email.message import EmailMessage
from typing import Any

import pytest

from ..client import Authenticated
from ..mbox import Mailbox
from ..parse import IMAPClientCommand
from ..user_server import IMAPUserServer


async def run(handler: Authenticated, line: str) -> None:
    cmd = IMAPClientCommand(line)
    cmd.parse()
    await handler.command(cmd)


def sent(proxy) -> list[str]:
    out = []
    for c in proxy.push.call_args_list:
        for a in c.args:
            out.append(a.decode("latin-1") if isinstance(a, bytes) else a)
    proxy.push.reset_mock()
    return out


@pytest.mark.asyncio
async def test_search_result_stays_inside_the_sessions_view(
    mailbox_with_bunch_of_email: Mailbox, imap_user_server: IMAPUserServer, imap_client_proxy: Callable[..., Any]
) -> None:
    mbox = mailbox_with_bunch_of_email
    pa, pb = await imap_client_proxy(), await imap_client_proxy()
    a, b = Authenticated(pa, imap_user_server), Authenticated(pb, imap_user_server)
    await run(a, "A001 SELECT inbox")
    await run(b, "B001 SELECT inbox")
    view = max(int(m.group(1)) for x in sent(pa) if (m := re.match(r"\* (\d+) EXISTS", x)))
    sent(pb)
    await run(b, r"B002 STORE 1 +FLAGS (\Flagged)")  # a FETCH is now queued for A

    # the MH agent delivers a message
    msg = EmailMessage()
    msg["From"] = "x@example.com"
    msg["Subject"] = "new one"
    msg["Message-ID"] = "<new-one@example.com>"
    msg.set_content("hello\n")
    mbox.mailbox.add(msg)
    import os, time
    os.utime(mbox.mailbox._path, (time.time() + 5, time.time() + 5))
    await run(b, "B003 CHECK")

    await run(a, "A002 SEARCH ALL")
    for line in sent(pa):
        if (m := re.match(r"\* (\d+) EXISTS", line)):
            view = int(m.group(1))
        if line.startswith("* SEARCH"):
            nums = [int(n) for n in line.split()[2:]]
            assert nums and max(nums) <= view, f"SEARCH names message {max(nums)}, the session was told of {view}"
            return
    pytest.fail("no SEARCH response")
