"""
Demo for 906d7b3: a command whose message set can not be resolved by the
mailbox management task (FETCH 9 on a 3 message mailbox) must be woken up and
told about the failure instead of sitting in `ready_and_okay()` until the
command watchdog (COMMAND_TIMEOUT, 120s) fires.
"""

import asyncio
from collections.abc import Callable
from pathlib import Path

import pytest

from ..client import Authenticated
from ..exceptions import Bad
from ..parse import IMAPClientCommand
from ..user_server import IMAPClientProxy, IMAPUserServer
from .conftest import client_push_responses

# Far below the 120s watchdog, far above what the real code needs (ms).
#
PATIENCE = 5.0


####################################################################
#
@pytest.mark.asyncio
async def test_out_of_range_msg_set_wakes_waiter(
    bunch_of_email_in_folder: Callable[..., Path],
    imap_user_server: IMAPUserServer,
) -> None:
    """
    Mailbox level: queue `FETCH 9 FLAGS` on a 3 message inbox. The waiter in
    `ready_and_okay()` has to be released promptly, with a BAD.
    """
    bunch_of_email_in_folder(num_emails=3, folder="inbox")
    mbox = await imap_user_server.get_mailbox("inbox")
    assert mbox.num_msgs == 3

    cmd = IMAPClientCommand("A001 FETCH 9 FLAGS").parse()
    entered = False
    try:
        async with asyncio.timeout(PATIENCE):
            with pytest.raises(Bad):
                async with cmd.ready_and_okay(mbox):
                    entered = True
    except TimeoutError:
        pytest.fail(
            "FETCH 9 on a 3 message mailbox was never signalled by the "
            f"management task (still waiting after {PATIENCE}s)"
        )
    assert not entered
    assert cmd.ready.is_set()

    # The management task survived and the mailbox still serves commands.
    #
    cmd = IMAPClientCommand("A002 FETCH 3 FLAGS").parse()
    async with asyncio.timeout(PATIENCE):
        async with cmd.ready_and_okay(mbox):
            assert cmd.msg_set_as_set == {3}


####################################################################
#
@pytest.mark.asyncio
async def test_client_gets_prompt_bad_for_out_of_range_fetch(
    bunch_of_email_in_folder: Callable[..., Path],
    imap_user_server_and_client: tuple[IMAPUserServer, IMAPClientProxy],
) -> None:
    """
    Handler level: SELECT inbox (3 msgs) then `FETCH 9 FLAGS` through
    `Authenticated.command()`. The tagged BAD must arrive right away.
    """
    server, imap_client = imap_user_server_and_client
    bunch_of_email_in_folder(num_emails=3, folder="inbox")
    client_handler = Authenticated(imap_client, server)

    await client_handler.command(IMAPClientCommand("A001 SELECT INBOX").parse())
    results = client_push_responses(imap_client)
    assert "* 3 EXISTS" in results

    fetch = asyncio.create_task(
        client_handler.command(IMAPClientCommand("A002 FETCH 9 FLAGS").parse())
    )
    done, _ = await asyncio.wait([fetch], timeout=PATIENCE)
    if not done:
        fetch.cancel()
        try:
            await fetch
        except asyncio.CancelledError:
            pass
        pytest.fail(
            f"`A002 FETCH 9 FLAGS` got no tagged response within {PATIENCE}s "
            "(it is stuck until the 120s command watchdog)"
        )
    results = client_push_responses(imap_client)
    assert len(results) == 1
    assert results[0].startswith("A002 BAD ")
    assert "greater than the size of the mailbox" in results[0]
