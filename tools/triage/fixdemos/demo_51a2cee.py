r"""
Demo for 51a2cee: three response lines were pushed without their CRLF:

 1. the tagged BAD after a command timed out,
 2. the tagged BAD after a command died with an unexpected exception,
 3. the "+ idling" continuation re-sent when a client that is already idling
    sends IDLE again (IMAPClientProxy.run loop).

Every IMAP response line ends in CRLF; the main server relays what the user
process writes with `readuntil(b"\r\n")` (server.py msgs_to_client) so a line
without CRLF is not delivered until some later response supplies a CRLF, and
then arrives glued to that response.

Each test drives the real handler / real proxy read loop and looks at the raw
strings handed to IMAPClientProxy.push().
"""

import asyncio
from collections.abc import Callable
from typing import Any

import pytest

from ..client import Authenticated
from ..mbox import Mailbox
from ..parse import IMAPClientCommand
from ..user_server import IMAPClientProxy, IMAPUserServer
from .conftest import client_push_responses


async def _run(handler: Authenticated, line: str) -> None:
    cmd = IMAPClientCommand(line + "\r\n")
    cmd.parse()
    await handler.command(cmd)


def _raw(x: str | bytes) -> bytes:
    return x.encode("latin-1") if isinstance(x, str) else x


@pytest.mark.asyncio
async def test_timed_out_command_reply_ends_with_crlf(
    mailbox_with_bunch_of_email: Mailbox,
    imap_user_server_and_client: tuple[IMAPUserServer, IMAPClientProxy],
    monkeypatch: pytest.MonkeyPatch,
) -> None:
    server, imap_client = imap_user_server_and_client
    handler = Authenticated(imap_client, server)
    await _run(handler, "A001 SELECT inbox")
    client_push_responses(imap_client)

    # A store that hangs (a stuck folder lock) and a short command timeout.
    #
    async def stuck_store(*args: Any, **kwargs: Any) -> list[str]:
        await asyncio.sleep(30)
        return []

    monkeypatch.setattr("asimap.client.COMMAND_TIMEOUT", 0.1)
    monkeypatch.setattr(Mailbox, "store", stuck_store)

    await _run(handler, r"A002 STORE 1 +FLAGS (\Seen)")
    pushed = [_raw(x) for x in client_push_responses(imap_client, strip=False)]
    assert len(pushed) == 1
    assert pushed[0].startswith(b"A002 BAD Command timed out")
    assert pushed[0].endswith(b"\r\n"), pushed


@pytest.mark.asyncio
async def test_unhandled_exception_reply_ends_with_crlf(
    mailbox_with_bunch_of_email: Mailbox,
    imap_user_server_and_client: tuple[IMAPUserServer, IMAPClientProxy],
    monkeypatch: pytest.MonkeyPatch,
) -> None:
    server, imap_client = imap_user_server_and_client
    handler = Authenticated(imap_client, server)
    await _run(handler, "A001 SELECT inbox")
    client_push_responses(imap_client)

    async def broken_store(*args: Any, **kwargs: Any) -> list[str]:
        raise OSError("No space left on device")

    monkeypatch.setattr(Mailbox, "store", broken_store)

    with pytest.raises(OSError):
        await _run(handler, r"A002 STORE 1 +FLAGS (\Seen)")
    pushed = [_raw(x) for x in client_push_responses(imap_client, strip=False)]
    assert len(pushed) == 1
    assert pushed[0].startswith(b"A002 BAD Unhandled exception: No space")
    assert pushed[0].endswith(b"\r\n"), pushed


@pytest.mark.asyncio
async def test_idle_reprompt_ends_with_crlf(
    imap_client_proxy: Callable[..., Any],
) -> None:
    """
    Feed the real IMAPClientProxy.run() loop (framed the way the main server
    frames messages: `{<len>}\n<msg>`):  IDLE, IDLE (again, while idling), DONE.
    """
    imap_client: IMAPClientProxy = await imap_client_proxy()
    for msg in (b"A001 IDLE\r\n", b"A002 IDLE\r\n", b"DONE\r\n"):
        imap_client.reader.feed_data(b"{%d}\n" % len(msg) + msg)
    imap_client.reader.feed_eof()
    await asyncio.wait_for(imap_client.run(), timeout=10)

    pushed = [_raw(x) for x in client_push_responses(imap_client, strip=False)]
    assert [x.strip() for x in pushed] == [
        b"+ idling",
        b"+ idling",
        b"A001 OK IDLE terminated",
    ]
    for line in pushed:
        assert line.endswith(b"\r\n"), pushed
