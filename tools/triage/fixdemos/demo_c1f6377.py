"""
Demonstration: a message delivered while an EXPUNGE is still removing files inherits the flags of the message that had its key.

History: five messages, the last one \\Answered and \\Deleted (acknowledged STOREs).  EXPUNGE removes its file and is
suspended in that removal; the MH delivery agent files a new message - MH hands out highest key + 1, the key just freed - and
records it in `unseen`.  EXPUNGE then rewrites `.mh_sequences`.  The new message must come up unseen with no other flag,
and a second EXPUNGE must leave it alone.

Run: copy to asimap/test/ and run pytest on it.  FAILS before the fix, PASSES after.
"""
from email.message import EmailMessage
from pathlib import Path

import pytest

from ..mbox import Mailbox
from ..mh import MH
from ..parse import StoreAction
from ..user_server import IMAPUserServer


def _email(n: int) -> EmailMessage:
    msg = EmailMessage()
    msg["From"] = "alice@example.com"
    msg["To"] = "bob@example.com"
    msg["Subject"] = f"message number {n}"
    msg["Message-ID"] = f"<gone-{n}@example.com>"
    msg["Date"] = "Mon, 02 Feb 2026 10:00:00 +0000"
    msg.set_content(f"This is the body of message {n}\n")
    return msg


@pytest.mark.asyncio
async def test_delivery_during_expunge_does_not_inherit_flags(tmp_path: Path) -> None:
    maildir = tmp_path / "Mail"
    MH(maildir).add_folder("inbox")
    server = await IMAPUserServer.new(maildir)
    try:
        await server.find_all_folders()
        await Mailbox.create("work", server)
        work = await server.get_mailbox("work")
        for n in range(1, 6):
            await work.append(_email(n), [r"\Seen"])
        await work.store([5], StoreAction.ADD_FLAGS, [r"\Answered", r"\Deleted"])

        real_aremove = work.mailbox.aremove
        delivered = []

        async def aremove_then_deliver(key):
            await real_aremove(key)
            if not delivered:
                # the delivery agent: files the message, records it in `unseen`
                agent = MH(maildir).get_folder("work")
                new_key = int(agent.add(_email(99)))
                seqs = agent.get_sequences()
                seqs.setdefault("unseen", []).append(new_key)
                agent.set_sequences(seqs)
                delivered.append(new_key)

        work.mailbox.aremove = aremove_then_deliver  # type: ignore[method-assign]
        await work.expunge()
        work.mailbox.aremove = real_aremove  # type: ignore[method-assign]
        assert delivered == [5]

        on_disk = {k: v for k, v in work.mailbox.get_sequences().items() if 5 in v}
        assert set(on_disk) <= {"unseen"}, f"the new message 5 is in {sorted(on_disk)} on disk"

        await work.check_new_msgs_and_flags(optional=False)
        assert work.msg_keys == [1, 2, 3, 4, 5]
        flags = set(work.msg_sequences(5))
        assert flags == {"unseen", "Recent"}, sorted(flags)
        await work.expunge()
        assert 5 in [int(k) for k in work.mailbox.keys()], "the new message was destroyed by the next EXPUNGE"
        assert work.get_msg(5)["Subject"] == "message number 99"
    finally:
        await server.shutdown()
