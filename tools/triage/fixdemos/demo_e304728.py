"""
Demonstration: ENVELOPE address lists for odd address headers.

(1) `From: "a@b"@c.com` - a quoted local part with an `@` in it - made encode_addrs() raise ValueError (`split("@")` gave
three pieces): FETCH ENVELOPE of that message failed as a whole.  (2) A header that is present but holds no address (`To:`)
gave `()` - an address list is `"(" 1*address ")" / nil`.

Run: copy to asimap/test/ and run pytest on it.  FAILS before the fix, PASSES after.
"""
from email import message_from_string
from email.policy import default

from ..fetch import encode_addrs

MSG = """From: "a@b"@c.com
To:
Cc: undisclosed-recipients:;
Sender: Some One <one@example.com>
Subject: odd addresses

body
"""


def test_envelope_address_lists() -> None:
    msg = message_from_string(MSG, policy=default)
    frm = encode_addrs(msg, "from")
    assert frm.endswith(b'"c.com"))'), frm
    assert b'a@b' in frm
    for field in ("to", "cc"):
        out = encode_addrs(msg, field)
        assert out != b"()", f"{field}: {out!r}"
        assert out == b"NIL" or (out.startswith(b"((") and out.endswith(b"))")), out
    assert encode_addrs(msg, "to") == b"NIL"
    assert encode_addrs(msg, "sender") == b'(("Some One" NIL "one" "example.com"))'
    assert encode_addrs(msg, "bcc") == b"NIL"
