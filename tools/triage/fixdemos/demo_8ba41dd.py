r"""
Demo for 8ba41dd: one-line NO / BAD responses embedded text the client sent
(a mailbox name given as a literal, a slice of the unparsed command, the junk
sent instead of DONE) verbatim - including CR and LF.  The "one line" response
became several lines (response splitting: the client can make the server emit
a line of the client's choosing, e.g. a forged tagged OK.)

Inputs shown:
  A1 SELECT {4}\r\na\r\nb            -> "A1 NO No such mailbox: 'a\r\nb'\r\n"
  A2 SELECT {22}\r\nx\r\nA2 OK [READ-WRITE] -> forged "A2 OK [READ-WRITE] '" line
  A3 SELECT                          -> "A3 BAD NoMatch: ... started with: '\r\n'\r\n"
  A4 STORE 1 {3}\r\na\r\n \Seen      -> BAD with the literal's line break in it
  IDLE, then "foo"                   -> "* NO Expected 'DONE' not: foo\r\n\r\n"
"""

import asyncio
from collections.abc import Callable
from typing import Any

import pytest

from ..client import Authenticated
from ..mbox import Mailbox
from ..parse import IMAPClientCommand
from ..user_server import IMAPClientProxy, IMAPUserServer
from .conftest import client_push_responses


def _assert_one_line(pushed: str | bytes) -> None:
    raw = pushed.encode("latin-1") if isinstance(pushed, str) else pushed
    assert raw.endswith(b"\r\n"), raw
    body = raw[:-2]
    assert b"\r" not in body and b"\n" not in body, (
        f"response is not a single line: {raw!r}"
    )


@pytest.mark.asyncio
async def test_no_response_with_literal_mailbox_name(
    mailbox_with_bunch_of_email: Mailbox,
    imap_user_server_and_client: tuple[IMAPUserServer, IMAPClientProxy],
) -> None:
    server, imap_client = imap_user_server_and_client
    handler = Authenticated(imap_client, server)

    for line in (
        "A1 SELECT {4}\r\na\r\nb\r\n",
        "A2 SELECT {22}\r\nx\r\nA2 OK [READ-WRITE] \r\n",
    ):
        cmd = IMAPClientCommand(line)
        cmd.parse()
        await handler.command(cmd)
        pushed = client_push_responses(imap_client, strip=False)
        assert len(pushed) == 1
        assert pushed[0].startswith(f"{cmd.tag} NO No such mailbox")
        _assert_one_line(pushed[0])


@pytest.mark.asyncio
async def test_bad_and_idle_responses_from_the_read_loop(
    imap_client_proxy: Callable[..., Any],
) -> None:
    """
    The real IMAPClientProxy.run() loop, fed framed messages the way the main
    server frames them (`{<len>}\n<msg>`.)
    """
    imap_client: IMAPClientProxy = await imap_client_proxy()
    msgs = [
        b"A3 SELECT\r\n",
        b"A4 STORE 1 {3}\r\na\r\n \\Seen\r\n",
        b"A5 IDLE\r\n",
        b"foo\r\n",
        b"DONE\r\n",
    ]
    for msg in msgs:
        imap_client.reader.feed_data(b"{%d}\n" % len(msg) + msg)
    imap_client.reader.feed_eof()
    await asyncio.wait_for(imap_client.run(), timeout=10)

    pushed = client_push_responses(imap_client, strip=False)
    assert len(pushed) == 5
    assert pushed[0].startswith("A3 BAD ")
    assert pushed[1].startswith("A4 BAD ")
    assert pushed[2] == "+ idling\r\n"
    assert pushed[3].startswith("* NO Expected 'DONE' not: foo")
    assert pushed[4] == "A5 OK IDLE terminated\r\n"
    for p in pushed:
        _assert_one_line(p)
