"""Non-UID FETCH queued behind another session's EXPUNGE: the EXPUNGE gate is tested before the wait only."""
import asyncio
import re
from collections.abc import Callable
from pathlib import Path
from typing import Any

import pytest

from ..parse import IMAPClientCommand
from ..user_server import IMAPUserServer
from .conftest import client_push_responses

EXISTS_RE = re.compile(r"^\* (\d+) EXISTS$")
EXPUNGE_RE = re.compile(r"^\* (\d+) EXPUNGE$")


async def run_cmd(proxy: Any, line: str) -> list[str]:
    cmd = IMAPClientCommand(line)
    cmd.parse()
    try:
        await proxy.cmd_processor.command(cmd)
    except Exception:
        pass
    return [x if isinstance(x, str) else str(x, "latin-1") for x in client_push_responses(proxy)]


def replay(view, lines, server_uids):
    for line in lines:
        line = line.strip()
        if m := EXISTS_RE.match(line):
            n = int(m.group(1))
            view.extend(server_uids[len(view): n])
        elif m := EXPUNGE_RE.match(line):
            del view[int(m.group(1)) - 1]


@pytest.mark.asyncio
@pytest.mark.parametrize("cmdline", ["A3 COPY 5 Archive", "A3 MOVE 5 Archive"])
async def test_nonuid_cmd_queued_behind_expunge(cmdline, bunch_of_email_in_folder: Callable[..., Path], imap_user_server: IMAPUserServer, imap_client_proxy: Callable[..., Any]) -> None:
    bunch_of_email_in_folder(num_emails=10)
    bunch_of_email_in_folder(folder="Archive", num_emails=1)
    server = imap_user_server
    mbox = await server.get_mailbox("inbox")
    a = await imap_client_proxy()
    b = await imap_client_proxy()
    view_a: list[int] = []
    replay(view_a, await run_cmd(a, "A1 SELECT inbox"), mbox.uids)
    await run_cmd(b, "B1 SELECT inbox")
    assert view_a == mbox.uids and len(view_a) == 10
    await run_cmd(b, r"B2 STORE 2 +FLAGS (\Deleted)")
    replay(view_a, await run_cmd(a, "A2 NOOP"), mbox.uids)
    uid_of_5_in_a = view_a[4]

    task_b = asyncio.create_task(run_cmd(b, "B3 EXPUNGE"))
    await asyncio.sleep(0)
    task_a = asyncio.create_task(run_cmd(a, cmdline))
    res_b, res_a = await asyncio.gather(task_b, task_a)
    print(res_a)
    assert res_b[-1].startswith("B3 OK")
    # no EXPUNGE may be sent to A while its non-UID command is in progress
    if res_a[-1].startswith("A3 OK"):
        m = [re.search(r"COPYUID \d+ (\d+) ", x) for x in res_a]
        m = [x for x in m if x]
        assert m and int(m[0].group(1)) == uid_of_5_in_a, f"{cmdline.split()[1]} 5 acted on UID {m[0].group(1)}, A's message 5 is UID {uid_of_5_in_a}"
