r"""
Demo for af60c02 "fix: decode backslash escapes in quoted strings".

Parent: the quoted arm of _p_string returned the text between the quotes
verbatim, so `\"` and `\\` (the only two escapes IMAP's quoted strings have)
were delivered to the handlers with their backslashes still in place.
"""

from collections.abc import Callable
from pathlib import Path
from typing import Any

import pytest

from ..auth import PWUser
from ..client import Authenticated, PreAuthenticated
from ..mbox import Mailbox
from ..parse import IMAPClientCommand
from ..user_server import IMAPClientProxy, IMAPUserServer
from .conftest import client_push_responses


def test_login_password_with_escaped_quote() -> None:
    cmd = IMAPClientCommand('A1 LOGIN u "pa\\"ss"\r\n')
    cmd.parse()
    assert cmd.user_name == "u"
    assert cmd.password == 'pa"ss'


def test_login_password_with_escaped_backslash() -> None:
    cmd = IMAPClientCommand('A1 LOGIN "do\\\\main" "a\\\\\\"b"\r\n')
    cmd.parse()
    assert cmd.user_name == "do\\main"
    # wire: a \\ \" b   ->  a \ " b
    assert cmd.password == 'a\\"b'


def test_quoted_and_literal_mailbox_name_agree() -> None:
    """The same name sent as quoted string and as literal must be equal."""
    name = 'we"ird'
    quoted = IMAPClientCommand('A1 SELECT "we\\"ird"\r\n')
    quoted.parse()
    literal = IMAPClientCommand(
        "A1 SELECT {%d+}\r\n%s\r\n" % (len(name), name)
    )
    literal.parse()
    assert literal.mailbox_name == name
    assert quoted.mailbox_name == literal.mailbox_name


@pytest.mark.asyncio
async def test_login_with_quote_in_password(
    user_factory: Callable[..., PWUser],
    password_file_factory: Callable[[list[PWUser]], Path],
    imap_client_proxy: Callable[..., Any],
) -> None:
    """
    A user whose password contains a `"` can only send it quoted as `\"` (or
    as a literal). On the parent the LOGIN is refused: the server checks the
    password `pa\"ss!X9` instead of `pa"ss!X9`.
    """
    password = 'pa"ss!X9'
    user = user_factory(password=password)
    password_file_factory([user])

    imap_client = await imap_client_proxy()
    client_handler = PreAuthenticated(imap_client)

    wire_pw = password.replace("\\", "\\\\").replace('"', '\\"')
    cmd = IMAPClientCommand(f'A001 LOGIN {user.username} "{wire_pw}"\r\n')
    cmd.parse()
    await client_handler.command(cmd)
    results = client_push_responses(imap_client)
    assert results == ["A001 OK LOGIN command completed"]


@pytest.mark.asyncio
async def test_create_quoted_then_select_literal(
    mailbox_with_bunch_of_email: Mailbox,
    imap_user_server_and_client: tuple[IMAPUserServer, IMAPClientProxy],
) -> None:
    r"""
    CREATE "back\\slash" must make the mailbox `back\slash` (one backslash),
    which SELECT with the literal `back\slash` then finds. On the parent the
    directory `back\\slash` (two backslashes) is created and the SELECT by
    literal says no such mailbox.
    """
    server, imap_client = imap_user_server_and_client
    handler = Authenticated(imap_client, server)

    cmd = IMAPClientCommand('A001 CREATE "back\\\\slash"\r\n')
    cmd.parse()
    await handler.command(cmd)
    results = client_push_responses(imap_client)
    assert results == ["A001 OK CREATE command completed"]
    assert (Path(server.maildir) / "back\\slash").is_dir()
    assert not (Path(server.maildir) / "back\\\\slash").exists()

    name = "back\\slash"
    cmd = IMAPClientCommand(
        "A002 SELECT {%d+}\r\n%s\r\n" % (len(name), name)
    )
    cmd.parse()
    await handler.command(cmd)
    results = client_push_responses(imap_client)
    assert results[-1].startswith("A002 OK")
