r"""
Demo for c1f0527: .mh_sequences must forget message numbers that were
expunged (or removed by emptying the mailbox in DELETE).

History 1 (expunge):
  inbox has 20 messages. STORE 20 +FLAGS (\Deleted \Flagged \Seen), EXPUNGE.
  The MDA then delivers one new message: MH gives it the key "highest + 1"
  which is 20 again. The next resync must present it as a new, unflagged
  message.

History 2 (delete + create):
  "Archive" has the child "Archive/sub" and 20 messages, 1-5 are \Flagged.
  DELETE Archive empties it and makes it \Noselect. The MDA delivers a
  message in to the (still existing) directory: key 1. CREATE Archive makes
  the mailbox selectable again; its one message must not be \Flagged.
  (If nothing is delivered before the CREATE, the resync done by CREATE
  rewrites .mh_sequences and the stale entries are gone on the parent too.)
"""

from collections.abc import Callable
from pathlib import Path

import pytest

from ..mbox import Mailbox
from ..parse import StoreAction
from ..user_server import IMAPUserServer
from .conftest import EmailFactoryType


def mh_sequences_file(mbox: Mailbox) -> dict[str, str]:
    """The raw contents of the folder's .mh_sequences file."""
    result = {}
    path = Path(mbox.mailbox._path) / ".mh_sequences"
    for line in path.read_text().splitlines():
        name, _, value = line.partition(":")
        result[name.strip()] = value.strip()
    return result


@pytest.mark.asyncio
async def test_expunged_key_reused_by_delivery_inherits_no_flags(
    mailbox_with_bunch_of_email: Mailbox,
    email_factory: EmailFactoryType,
) -> None:
    mbox = mailbox_with_bunch_of_email
    assert mbox.msg_keys == list(range(1, 21))

    await mbox.store(
        [20], StoreAction.ADD_FLAGS, [r"\Deleted", r"\Flagged", r"\Seen"]
    )
    await mbox.expunge()
    assert mbox.msg_keys == list(range(1, 20))
    assert not (Path(mbox.mailbox._path) / "20").exists()

    # The mail delivery agent drops a new message in to the folder the way
    # procmail does for an MH folder ("folder/."): next free number, file
    # written, .mh_sequences not touched. MH uses the highest key + 1 --
    # which is 20 again.
    #
    # NOTE: mailbox.MH.add() only rewrites .mh_sequences when it is handed an
    #       MHMessage; bytes are stored as they are.
    #
    key = mbox.mailbox.add(email_factory().as_bytes())
    assert int(key) == 20

    await mbox.check_new_msgs_and_flags(optional=False)
    assert mbox.msg_keys == list(range(1, 21))
    assert mbox.uids[-1] == 21  # It is a new message, with a new UID.

    seqs = sorted(mbox.msg_sequences(20))
    assert "Deleted" not in seqs, f"new message 20 is in sequences {seqs}"
    assert "flagged" not in seqs, f"new message 20 is in sequences {seqs}"

    # .. and it must survive the next EXPUNGE.
    #
    await mbox.expunge()
    assert (Path(mbox.mailbox._path) / "20").exists()
    assert mbox.msg_keys == list(range(1, 21))


@pytest.mark.asyncio
async def test_mh_sequences_file_after_expunge(
    mailbox_with_bunch_of_email: Mailbox,
) -> None:
    """
    The same defect observed directly in the file (what MH tools like
    `scan Deleted` / `pick` would read.)
    """
    mbox = mailbox_with_bunch_of_email
    await mbox.store([18, 19, 20], StoreAction.ADD_FLAGS, [r"\Deleted"])
    assert mh_sequences_file(mbox)["Deleted"] == "18-20"
    await mbox.expunge()
    on_disk = mh_sequences_file(mbox)
    assert "Deleted" not in on_disk, on_disk
    assert on_disk.get("unseen") == "1-17", on_disk


@pytest.mark.asyncio
async def test_emptied_mailbox_recreated_inherits_no_flags(
    bunch_of_email_in_folder: Callable[..., Path],
    imap_user_server: IMAPUserServer,
    email_factory: EmailFactoryType,
) -> None:
    server = imap_user_server
    bunch_of_email_in_folder(folder="Archive")
    await Mailbox.create("Archive/sub", server)
    mbox = await server.get_mailbox("Archive")
    await mbox.store([1, 2, 3, 4, 5], StoreAction.ADD_FLAGS, [r"\Flagged"])

    await Mailbox.delete("Archive", server)
    mbox = await server.get_mailbox("Archive")
    assert r"\Noselect" in mbox.attributes
    assert list(mbox.mailbox.keys()) == []

    # While the mailbox is \Noselect its directory still exists and the MDA
    # still delivers in to it: first free number is 1.
    #
    key = mbox.mailbox.add(email_factory().as_bytes())
    assert int(key) == 1

    await Mailbox.create("Archive", server)
    mbox = await server.get_mailbox("Archive")
    assert r"\Noselect" not in mbox.attributes
    await mbox.check_new_msgs_and_flags(optional=False)
    assert mbox.msg_keys == [1]
    seqs = sorted(mbox.msg_sequences(1))
    assert "flagged" not in seqs, f"new message 1 is in sequences {seqs}"
