"""
Demonstration: an EXPUNGE that is interrupted leaves the reverse indexes stale - every UID lookup then hits another message.

expunge() shortens msg_keys / uids message by message, around awaits, and rebuilt `_uid_to_idx` / `_msg_key_to_idx` only after
the loop.  (1) One of the \\Deleted files was removed by an MH tool: aremove() raises KeyError, the loop is left with the
lists already shortened.  (2) The command is cancelled (its 120 s watchdog) while a file is being removed.  Afterwards
`UID FETCH 15` is resolved through the stale index to the message two places further on.

Run: copy to asimap/test/ and run pytest on it.  FAILS before the fix, PASSES after.
"""
import asyncio
import os

import pytest

from ..mbox import Mailbox
from ..parse import StoreAction


def _check_consistent(mbox: Mailbox) -> None:
    assert len(mbox.msg_keys) == len(mbox.uids)
    for i, (k, u) in enumerate(zip(mbox.msg_keys, mbox.uids)):
        assert mbox._msg_key_to_idx.get(k) == i, f"key {k} is at {i}, the index says {mbox._msg_key_to_idx.get(k)}"
        assert mbox._uid_to_idx.get(u) == i, f"uid {u} is at {i}, the index says {mbox._uid_to_idx.get(u)}"
    assert set(mbox._uid_to_idx) == set(mbox.uids)
    known = set(mbox.msg_keys)
    for name, keys in mbox.sequences.items():
        assert set(keys) <= known, f"sequence {name} still mentions removed keys {sorted(set(keys) - known)}"


@pytest.mark.asyncio
async def test_expunge_with_a_file_already_gone(mailbox_with_bunch_of_email: Mailbox) -> None:
    mbox = mailbox_with_bunch_of_email
    assert mbox.uids == list(range(1, 21))
    await mbox.store([3, 10], StoreAction.ADD_FLAGS, [r"\Deleted"])
    os.unlink(os.path.join(mbox.mailbox._path, str(mbox.msg_keys[2])))  # an MH tool removed message 3
    try:
        await mbox.expunge()
    except KeyError:
        pass
    _check_consistent(mbox)
    assert mbox.msg_set_to_msg_seq_set([15], True) == {mbox.uids.index(15) + 1}


@pytest.mark.asyncio
async def test_expunge_cancelled_half_way(mailbox_with_bunch_of_email: Mailbox) -> None:
    mbox = mailbox_with_bunch_of_email
    await mbox.store([3, 10], StoreAction.ADD_FLAGS, [r"\Deleted"])
    real = mbox.mailbox.aremove
    calls = []

    async def aremove(key):
        calls.append(key)
        if len(calls) == 2:
            raise asyncio.CancelledError()
        await real(key)

    mbox.mailbox.aremove = aremove  # type: ignore[method-assign]
    with pytest.raises(asyncio.CancelledError):
        await mbox.expunge()
    mbox.mailbox.aremove = real  # type: ignore[method-assign]
    _check_consistent(mbox)
    assert mbox.msg_set_to_msg_seq_set([15], True) == {mbox.uids.index(15) + 1}
