"""The notification fan-out iterates the mailbox's live client table across awaits."""
import asyncio
import re
from collections.abc import Callable
from pathlib import Path
from typing import Any

import pytest

from ..parse import IMAPClientCommand
from ..user_server import IMAPUserServer
from .conftest import client_push_responses

EXISTS_RE = re.compile(r"^\* (\d+) EXISTS$")
EXPUNGE_RE = re.compile(r"^\* (\d+) EXPUNGE$")


async def run_cmd(proxy: Any, line: str) -> list[str]:
    cmd = IMAPClientCommand(line)
    cmd.parse()
    try:
        await proxy.cmd_processor.command(cmd)
    except Exception:
        pass
    return [x if isinstance(x, str) else str(x, "latin-1") for x in client_push_responses(proxy)]


def replay(view, lines, server_uids):
    for line in lines:
        line = line.strip()
        if m := EXISTS_RE.match(line):
            view.extend(server_uids[len(view): int(m.group(1))])
        elif m := EXPUNGE_RE.match(line):
            del view[int(m.group(1)) - 1]


@pytest.mark.asyncio
async def test_fanout_survives_a_dead_idling_session(bunch_of_email_in_folder: Callable[..., Path], imap_user_server: IMAPUserServer, imap_client_proxy: Callable[..., Any]) -> None:
    bunch_of_email_in_folder(num_emails=10)
    bunch_of_email_in_folder(folder="Archive", num_emails=1)
    server = imap_user_server
    mbox = await server.get_mailbox("inbox")
    a = await imap_client_proxy()
    b = await imap_client_proxy()
    c = await imap_client_proxy()
    d = await imap_client_proxy()
    view_d: list[int] = []
    await run_cmd(a, "A1 SELECT inbox")
    await run_cmd(b, "B1 SELECT inbox")
    await run_cmd(c, "C1 SELECT inbox")
    replay(view_d, await run_cmd(d, "D1 SELECT inbox"), mbox.uids)
    await run_cmd(a, "A2 IDLE")  # A listens: notifications are pushed to it directly
    await run_cmd(c, r"C2 STORE 2 +FLAGS (\Deleted)")
    replay(view_d, await run_cmd(d, "D2 NOOP"), mbox.uids)

    async def dead_push(*data):
        raise ConnectionResetError("Connection lost")

    a.push.side_effect = dead_push  # A's connection has died while it was idling
    res_c = await run_cmd(c, "C3 EXPUNGE")
    a.push.side_effect = None
    assert res_c[-1].startswith("C3 OK"), res_c
    replay(view_d, await run_cmd(d, "D3 NOOP"), mbox.uids)
    assert view_d == mbox.uids, f"session D's view {view_d} differs from the server's {mbox.uids}"
