"""A notification queued while send_pending_notifications() is suspended in push() (slow client) is wiped by the reset
that follows the push."""
import asyncio
import re
from collections.abc import Callable
from pathlib import Path
from typing import Any

import pytest

from ..parse import IMAPClientCommand
from ..user_server import IMAPUserServer
from .conftest import client_push_responses

EXISTS_RE = re.compile(r"^\* (\d+) EXISTS$")
EXPUNGE_RE = re.compile(r"^\* (\d+) EXPUNGE$")


async def run_cmd(proxy: Any, line: str) -> list[str]:
    cmd = IMAPClientCommand(line)
    cmd.parse()
    await proxy.cmd_processor.command(cmd)
    return [x if isinstance(x, str) else str(x, "latin-1") for x in client_push_responses(proxy)]


def replay(view, lines, server_uids):
    for line in lines:
        line = line.strip()
        if m := EXISTS_RE.match(line):
            view.extend(server_uids[len(view): int(m.group(1))])
        elif m := EXPUNGE_RE.match(line):
            del view[int(m.group(1)) - 1]


@pytest.mark.asyncio
async def test_notification_queued_during_slow_flush_is_not_lost(bunch_of_email_in_folder: Callable[..., Path], imap_user_server: IMAPUserServer, imap_client_proxy: Callable[..., Any]) -> None:
    bunch_of_email_in_folder(num_emails=10)
    server = imap_user_server
    mbox = await server.get_mailbox("inbox")
    a = await imap_client_proxy()
    b = await imap_client_proxy()
    view_a: list[int] = []
    replay(view_a, await run_cmd(a, "A1 SELECT inbox"), mbox.uids)
    await run_cmd(b, "B1 SELECT inbox")
    await run_cmd(b, r"B2 STORE 2 +FLAGS (\Deleted)")  # queues a FETCH line for A
    assert a.cmd_processor.pending_notifications

    # A's client is slow: the first push of A's next command does not return until released
    gate = asyncio.Event()
    entered = asyncio.Event()
    state = {"first": True}

    async def slow_push(*data):
        if state["first"]:
            state["first"] = False
            entered.set()
            await gate.wait()

    a.push.side_effect = slow_push
    task_a = asyncio.create_task(run_cmd(a, "A2 UID FETCH 1 (UID)"))  # flushes A's pending lines first
    await entered.wait()
    res_b = await run_cmd(b, "B3 EXPUNGE")  # runs while A's flush is suspended; `* 2 EXPUNGE` is queued for A
    assert res_b[-1].startswith("B3 OK")
    gate.set()
    res_a = await task_a
    a.push.side_effect = None
    replay(view_a, res_a, mbox.uids)
    replay(view_a, await run_cmd(a, "A3 NOOP"), mbox.uids)
    assert len(mbox.uids) == 9
    assert view_a == mbox.uids, f"after NOOP session A's view {view_a} differs from the server's {mbox.uids}: an EXPUNGE was lost"
