"""
Demonstration: the BODY (non-extensible BODYSTRUCTURE) of a multipart message lacks the space before the subtype.

body-type-mpart = 1*body SP media-subtype.  FETCH n BODY of a multipart/mixed message was answered
`BODY (("TEXT" ...)("TEXT" ...)"MIXED")`; BODYSTRUCTURE has the space.

Run: copy to asimap/test/ and run pytest on it.  FAILS before the fix, PASSES after.
"""
from email.message import EmailMessage

from ..fetch import FetchAtt, FetchOp


def test_body_of_multipart_has_space_before_subtype(mocker) -> None:
    msg = EmailMessage()
    msg["From"] = "a@example.com"
    msg["Subject"] = "two parts"
    msg.set_content("plain text\n")
    msg.add_attachment(b"0123456789", maintype="application", subtype="octet-stream", filename="x.bin")
    assert msg.is_multipart()
    body = FetchAtt(FetchOp.BODYSTRUCTURE, ext_data=False, actual_command="BODY")
    bs = FetchAtt(FetchOp.BODYSTRUCTURE)
    for att in (body, bs):
        out = att.bodystructure(msg).decode("latin-1")
        assert ')"MIXED"' not in out, out
        assert ') "MIXED"' in out, out
