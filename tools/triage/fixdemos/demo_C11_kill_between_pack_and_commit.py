"""A kill between MH.pack() (files renumbered) and the commit of the new keys: after the restart the UIDs must not name
other messages (under an unchanged UIDVALIDITY)."""
import asyncio
import time
from email.message import EmailMessage
from pathlib import Path

import pytest

from ..mbox import Mailbox
from ..mh import MH
from ..parse import StoreAction
from ..user_server import IMAPUserServer


class Killed(BaseException):
    pass


def _email(n: int) -> EmailMessage:
    msg = EmailMessage()
    msg["From"] = "alice@example.com"
    msg["To"] = "bob@example.com"
    msg["Subject"] = f"message number {n}"
    msg["Message-ID"] = f"<c11-pack-{n}@example.com>"
    msg["Date"] = "Mon, 02 Feb 2026 10:00:00 +0000"
    msg.set_content(f"This is the body of message {n}\n")
    return msg


async def _hard_kill(server: IMAPUserServer) -> None:
    for mbox in list(server.active_mailboxes.values()):
        task = getattr(mbox, "mgmt_task", None)
        if task is not None and not task.done():
            task.cancel()
            try:
                await task
            except (asyncio.CancelledError, Exception):
                pass
    await server.db.conn.close()


@pytest.mark.asyncio
async def test_kill_between_pack_and_commit(tmp_path: Path) -> None:
    maildir = tmp_path / "Mail"
    MH(maildir).add_folder("inbox")
    server = await IMAPUserServer.new(maildir)
    await server.find_all_folders()
    await Mailbox.create("work", server)
    work = await server.get_mailbox("work")
    for n in range(1, 13):
        assert await work.append(_email(n), [r"\Seen"]) == n
    # acknowledged: messages 1..6 are removed -> keys 7..12, uids 7..12
    await work.store([1, 2, 3, 4, 5, 6], StoreAction.ADD_FLAGS, [r"\Deleted"])
    await work.expunge()
    await work.commit_to_db()
    assert work.msg_keys == [7, 8, 9, 10, 11, 12] and work.uids == [7, 8, 9, 10, 11, 12]
    uid_vv = work.uid_vv
    before = {u: work.get_msg(k)["Subject"] for u, k in zip(work.uids, work.msg_keys)}
    time.sleep(1.2)

    # the idle-time pack of this (small, gappy) folder; the process dies right after MH.pack(), before the commit
    work.folder_size_pack_limit = 5

    async def die() -> None:
        raise Killed()

    work.commit_to_db = die  # type: ignore[method-assign]
    with pytest.raises(Killed):
        async with work.mailbox.lock_folder():
            await work._pack_if_necessary()
    assert sorted(int(k) for k in work.mailbox.keys()) == [1, 2, 3, 4, 5, 6]
    await _hard_kill(server)
    del work, server

    server = await IMAPUserServer.new(maildir)
    try:
        await server.find_all_folders()
        work = await server.get_mailbox("work")
        after = {}
        for u, k in zip(work.uids, work.msg_keys):
            after[u] = work.get_msg(k)["Subject"]  # every UID the mailbox reports can be fetched
        assert len(work.uids) == len(work.msg_keys) == 6
        # nothing acknowledged is lost
        assert sorted(after.values()) == sorted(before.values())
        # and no UID names another message than before (under the same UIDVALIDITY)
        if work.uid_vv == uid_vv:
            rebound = {u: (before[u], after[u]) for u in before if u in after and after[u] != before[u]}
            assert not rebound, f"under the same UIDVALIDITY these UIDs now name other messages: {rebound}"
            assert work.next_uid > max(before)
    finally:
        await server.shutdown()
