r"""
Demo for 2d52d88: \HasChildren in LIST responses.

Mailboxes: inbox, a, a/b, a/b/c, lonely.

    A001 LIST "" "*"   every mailbox: a and a/b \HasChildren
    A002 LIST "" "%"   top level only: a still has the child a/b
    A003 LIST "" "a"   one exact name
    A004 LIST "" "a/%" one level below a: a/b still has the child a/b/c
    A005 LSUB "" "%"   same for LSUB (a and a/b subscribed)
"""

import pytest

from ..client import Authenticated
from ..mbox import Mailbox
from ..parse import IMAPClientCommand
from ..user_server import IMAPClientProxy, IMAPUserServer
from .conftest import client_push_responses


async def run_cmd(
    client_handler: Authenticated, imap_client: IMAPClientProxy, line: str
) -> dict[str, set[str]]:
    r"""
    Run a LIST or LSUB, return {mailbox name: {attributes}} of the untagged
    responses. The tagged response must be OK.
    """
    cmd = IMAPClientCommand(line + "\r\n")
    cmd.parse()
    await client_handler.command(cmd)
    results = client_push_responses(imap_client)
    assert results[-1].startswith(f"{cmd.tag} OK"), results
    listing: dict[str, set[str]] = {}
    for res in results[:-1]:
        # * LIST (\HasNoChildren \Unmarked) "/" "name"
        assert res.startswith("* LIST (") or res.startswith("* LSUB ("), res
        attrs = res[res.index("(") + 1 : res.index(")")]
        name = res.rsplit(' "/" ', 1)[1].strip('"')
        listing[name] = set(attrs.split())
    return listing


@pytest.mark.asyncio
async def test_list_haschildren_does_not_depend_on_the_pattern(
    mailbox_with_bunch_of_email: Mailbox,
    imap_user_server_and_client: tuple[IMAPUserServer, IMAPClientProxy],
) -> None:
    server, imap_client = imap_user_server_and_client
    client_handler = Authenticated(imap_client, server)
    for name in ("a", "a/b", "a/b/c", "lonely"):
        await Mailbox.create(name, server)

    # Everything listed: this was right before too.
    #
    everything = await run_cmd(client_handler, imap_client, 'A001 LIST "" "*"')
    assert sorted(everything) == ["INBOX", "a", "a/b", "a/b/c", "lonely"]
    assert r"\HasChildren" in everything["a"]
    assert r"\HasChildren" in everything["a/b"]
    assert r"\HasNoChildren" in everything["a/b/c"]
    assert r"\HasNoChildren" in everything["lonely"]

    # The way clients walk the hierarchy: one level at a time.
    #
    top = await run_cmd(client_handler, imap_client, 'A002 LIST "" "%"')
    assert sorted(top) == ["INBOX", "a", "lonely"]
    assert r"\HasNoChildren" in top["lonely"]
    assert r"\HasChildren" in top["a"], top
    assert r"\HasNoChildren" not in top["a"], top

    exact = await run_cmd(client_handler, imap_client, 'A003 LIST "" "a"')
    assert sorted(exact) == ["a"]
    assert r"\HasChildren" in exact["a"], exact

    below_a = await run_cmd(client_handler, imap_client, 'A004 LIST "" "a/%"')
    assert sorted(below_a) == ["a/b"]
    assert r"\HasChildren" in below_a["a/b"], below_a

    # The attributes of a mailbox are the same whatever the pattern was.
    #
    for listing in (top, exact, below_a):
        for name, attrs in listing.items():
            assert attrs == everything[name], (name, attrs, everything[name])


@pytest.mark.asyncio
async def test_lsub_haschildren_does_not_depend_on_the_pattern(
    mailbox_with_bunch_of_email: Mailbox,
    imap_user_server_and_client: tuple[IMAPUserServer, IMAPClientProxy],
) -> None:
    server, imap_client = imap_user_server_and_client
    client_handler = Authenticated(imap_client, server)
    for name in ("a", "a/b"):
        await Mailbox.create(name, server)
        cmd = IMAPClientCommand(f"S001 SUBSCRIBE {name}\r\n")
        cmd.parse()
        await client_handler.command(cmd)
        assert client_push_responses(imap_client) == [
            "S001 OK SUBSCRIBE command completed"
        ]

    top = await run_cmd(client_handler, imap_client, 'A005 LSUB "" "%"')
    assert sorted(top) == ["a"]
    assert r"\HasChildren" in top["a"], top
