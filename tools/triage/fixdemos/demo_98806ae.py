"""
Demonstration: an EXPUNGE is admitted beside a running STORE that is about to flag messages \\Deleted.

would_conflict() lets CLOSE / EXPUNGE run beside other commands when no message is \\Deleted *at admission time*.  The
management task admits several queued commands back to back: S1 `FETCH 3:6 (UID)`, S2 `STORE 1 +FLAGS (\\Deleted)`, S3
`EXPUNGE`.  The STORE is admitted (it touches other messages than the FETCH), the EXPUNGE is judged right after it with
\\Deleted still empty and is admitted as well.  The STORE then sets the flag, the EXPUNGE re-reads \\Deleted and removes
message 1 while the FETCH is still walking the list by position: S1 is sent other messages than the ones its numbers
denoted.  No sequential order of the three commands gives that.

Run: copy to asimap/test/ and run pytest on it.  FAILS before the fix, PASSES after.
"""
import asyncio
import re
from collections.abc import Callable
from typing import Any

import pytest

from ..client import Authenticated
from ..mbox import Mailbox
from ..parse import IMAPClientCommand
from ..user_server import IMAPUserServer
from .conftest import client_push_responses


async def run(handler: Authenticated, line: str) -> None:
    cmd = IMAPClientCommand(line)
    cmd.parse()
    await handler.command(cmd)


def test_expunge_conflicts_with_running_store(mailbox_with_bunch_of_email: Mailbox) -> None:
    mbox = mailbox_with_bunch_of_email
    mbox.sequences["Deleted"] = set()
    store = IMAPClientCommand("b1 STORE 1 +FLAGS (\\Deleted)\r\n")
    store.parse()
    fetch = IMAPClientCommand("a1 FETCH 3:6 (UID)\r\n")
    fetch.parse()
    mbox.executing_tasks = [fetch, store]
    for line in ("c1 EXPUNGE\r\n", "c1 CLOSE\r\n"):
        cmd = IMAPClientCommand(line)
        cmd.parse()
        assert mbox.would_conflict(cmd), f"{line.strip()} admitted beside a STORE that can flag messages \\Deleted"
    mbox.executing_tasks = [fetch]
    cmd = IMAPClientCommand("c1 EXPUNGE\r\n")
    cmd.parse()
    assert not mbox.would_conflict(cmd)


@pytest.mark.asyncio
async def test_fetch_store_expunge_admitted_together(
    mailbox_with_bunch_of_email: Mailbox,
    imap_user_server: IMAPUserServer,
    imap_client_proxy: Callable[..., Any],
) -> None:
    server = imap_user_server
    mbox = mailbox_with_bunch_of_email
    assert mbox.uids == list(range(1, 21))
    proxies = [await imap_client_proxy() for _ in range(3)]
    s1, s2, s3 = (Authenticated(p, server) for p in proxies)
    for s, t in ((s1, "A"), (s2, "B"), (s3, "C")):
        await run(s, f"{t}001 SELECT inbox")
    for p in proxies:
        client_push_responses(p)

    # the three commands are already queued when the management task gets round to admitting them: its resync is slow
    real_resync = mbox.check_new_msgs_and_flags

    async def slow_resync(*args: Any, **kwargs: Any) -> Any:
        await asyncio.sleep(0.05)
        return await real_resync(*args, **kwargs)

    mbox.check_new_msgs_and_flags = slow_resync  # type: ignore[method-assign]
    # ... and the client of S1 reads slowly
    real_push = proxies[0].push

    async def slow_push(*args: Any, **kwargs: Any) -> Any:
        await asyncio.sleep(0.02)
        return await real_push(*args, **kwargs)

    proxies[0].push = slow_push  # type: ignore[method-assign]
    t1 = asyncio.create_task(run(s1, "A002 FETCH 3:6 (UID)"))
    t2 = asyncio.create_task(run(s2, r"B002 STORE 1 +FLAGS (\Deleted)"))
    t3 = asyncio.create_task(run(s3, "C002 EXPUNGE"))
    await asyncio.gather(t1, t2, t3)
    proxies[0].push = real_push  # type: ignore[method-assign]
    r1 = [x.decode("latin-1") if isinstance(x, bytes) else x for x in client_push_responses(proxies[0])]
    got = [(int(m.group(1)), int(m.group(2))) for x in r1 if (m := re.match(r"\* (\d+) FETCH \(UID (\d+)\)", x))]
    tagged = [x for x in r1 if x.startswith("A002 ")]
    assert len(tagged) == 1
    if tagged[0].startswith("A002 OK"):
        # whichever order the three commands are taken in, S1 was told of no EXPUNGE before its FETCH: 3:6 are UIDs 3..6
        assert got == [(3, 3), (4, 4), (5, 5), (6, 6)], f"S1 asked for 3:6 and got {got}; all of it: {r1}"
        assert not any("EXPUNGE" in x for x in r1[: r1.index(tagged[0])]), f"EXPUNGE sent during a FETCH by number: {r1}"
