"""
Demo for 395ea13 "fix: POP3 QUIT expunges through the mailbox's command
queue".

Parent: POP3CommandHandler.do_quit() called Mailbox.expunge() directly, i.e.
not through `ready_and_okay()` / the mailbox management task that admits
every IMAP command. So the expunge ran in the middle of an IMAP FETCH.

History used here (deterministic, no timing races):
  1. INBOX has 20 messages, UIDs known.
  2. A POP3 session starts (snapshot of the 20 messages).
  3. An IMAP session SELECTs inbox and issues `FETCH 1:20 (UID)`. Its client
     is slow: the write of the first FETCH response blocks (we block the
     `push` of the client proxy on an event, as a full socket buffer would).
     The FETCH is therefore admitted and executing, holding its place in
     `mbox.executing_tasks`.
  4. POP3: DELE 1, DELE 2, DELE 3, QUIT.
  5. The IMAP client's write unblocks, the FETCH finishes.

Right: the QUIT's expunge waits until the FETCH is done. The FETCH reports
20 messages, each sequence number with its own UID; then the three messages
go away.

Parent: the three messages are removed at step 4 under the running FETCH;
the FETCH then reports the wrong message for sequence numbers 2..17 (the
client was told no EXPUNGE) and dies with BAD on 18..20.
"""

import asyncio
from collections.abc import Callable
from pathlib import Path
from typing import Any
from unittest.mock import AsyncMock

import pytest
import pytest_asyncio
from faker import Faker
from pytest_mock import MockerFixture

from ..client import Authenticated
from ..mbox import Mailbox
from ..parse import IMAPClientCommand
from ..pop3_client import POP3ClientProxy, POP3CommandHandler
from ..pop3_parse import parse_pop3_command
from ..user_server import IMAPClientProxy, IMAPUserServer
from .conftest import client_push_responses


@pytest_asyncio.fixture
async def pop3_proxy(
    faker: Faker, mocker: MockerFixture, imap_user_server: IMAPUserServer
) -> Any:
    """Same construction as the fixture in test_pop3.py"""
    loop = asyncio.get_event_loop()
    devnull_writer = open("/dev/null", "wb")
    transport, protocol = await loop.connect_write_pipe(
        lambda: asyncio.streams.FlowControlMixin(loop=loop), devnull_writer
    )
    writer = asyncio.StreamWriter(transport, protocol, None, loop)
    proxy = POP3ClientProxy(
        imap_user_server,
        "pop3-127.0.0.1:1234",
        imap_user_server.next_client_num,
        "127.0.0.1",
        1234,
        asyncio.StreamReader(),
        writer,
    )
    imap_user_server.next_client_num += 1
    mocker.patch.object(proxy, "push", AsyncMock())
    yield proxy
    writer.close()


def pop3_responses(proxy: POP3ClientProxy) -> list[str]:
    push_mock: AsyncMock = proxy.push  # type: ignore[assignment]
    results = []
    for args, _ in push_mock.call_args_list:
        for d in args:
            results.append(d.decode("latin-1") if isinstance(d, bytes) else d)
    push_mock.reset_mock()
    return results


@pytest.mark.asyncio
async def test_pop3_quit_waits_for_running_imap_fetch(
    mailbox_with_bunch_of_email: Mailbox,
    imap_user_server_and_client: tuple[IMAPUserServer, IMAPClientProxy],
    pop3_proxy: POP3ClientProxy,
) -> None:
    server, imap_client = imap_user_server_and_client
    mbox = mailbox_with_bunch_of_email
    assert mbox.num_msgs == 20
    orig_uids = list(mbox.uids)
    orig_keys = list(mbox.msg_keys)
    inbox_dir = Path(server.maildir) / "inbox"

    # 2. POP3 session starts.
    #
    pop3 = POP3CommandHandler(pop3_proxy, server)
    await pop3.init_session()
    assert pop3.msg_count == 20

    # 3. IMAP session, SELECT, then a FETCH whose first response blocks in
    #    the write to the client.
    #
    imap = Authenticated(imap_client, server)
    cmd = IMAPClientCommand("A001 SELECT inbox\r\n")
    cmd.parse()
    await imap.command(cmd)
    client_push_responses(imap_client)

    first_fetch_written = asyncio.Event()
    client_reads_again = asyncio.Event()

    async def slow_push(*data: Any) -> None:
        if not first_fetch_written.is_set() and b" FETCH " in data[0]:
            first_fetch_written.set()
            await client_reads_again.wait()

    imap_client.push.side_effect = slow_push  # type: ignore[attr-defined]

    cmd = IMAPClientCommand("A002 FETCH 1:20 (UID)\r\n")
    cmd.parse()
    fetch_task = asyncio.create_task(imap.command(cmd))
    async with asyncio.timeout(5):
        await first_fetch_written.wait()
    assert not fetch_task.done()

    # 4. POP3 deletes the first three messages and quits.
    #
    for n in (1, 2, 3):
        assert await pop3.command(parse_pop3_command(f"DELE {n}")) is True
    quit_task = asyncio.create_task(pop3.command(parse_pop3_command("QUIT")))

    # Let everything that can run, run. The FETCH can not: its client does
    # not read.
    #
    await asyncio.sleep(0.5)
    assert not fetch_task.done()

    during_num_msgs = mbox.num_msgs
    during_files = [(inbox_dir / str(k)).exists() for k in orig_keys[:3]]
    during_quit_done = quit_task.done()

    # 5. The client reads again, the FETCH finishes, then the QUIT.
    #
    client_reads_again.set()
    async with asyncio.timeout(10):
        await fetch_task
        assert await quit_task is False  # QUIT ends the session
    fetch_results = client_push_responses(imap_client)
    pop3_results = pop3_responses(pop3_proxy)

    # -- what the IMAP client saw: 20 messages, each with its own UID, OK.
    #
    expected = [
        f"* {seq} FETCH (UID {uid})" for seq, uid in enumerate(orig_uids, 1)
    ]
    fetch_lines = [
        (x.decode("latin-1") if isinstance(x, bytes) else x)
        for x in fetch_results
    ]
    assert fetch_lines[:-1] == expected
    assert fetch_lines[-1] == "A002 OK FETCH command completed"

    # -- while the FETCH was running nothing was removed ..
    #
    assert during_num_msgs == 20
    assert during_files == [True, True, True]
    assert during_quit_done is False

    # -- .. and afterwards the POP3 deletions did happen.
    #
    assert pop3_results[-1] == "+OK Bye\r\n"
    assert list(mbox.uids) == orig_uids[3:]
    assert [(inbox_dir / str(k)).exists() for k in orig_keys[:3]] == [
        False,
        False,
        False,
    ]
