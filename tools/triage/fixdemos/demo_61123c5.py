r"""
Demo for 61123c5: dates that match the date / date-time regexes but do not
exist (`31-Feb-2020`, hour 25, zone +9999, year 0000) made date() /
parsedate() raise ValueError inside IMAPClientCommand.parse().  The callers
of parse() only catch BadCommand, so in the per-user server the ValueError
escaped IMAPClientProxy.run(): the connection was closed and the client got
no reply at all - neither for that command nor for the next one.

Input (per test): `A1 <command with impossible date>`, then `A2 NOOP`.
Parent: run() dies with ValueError, nothing is pushed.
Fixed : "A1 BAD ..." is pushed, the session continues, "A2 OK NOOP ...".
"""

import asyncio
from collections.abc import Callable
from typing import Any

import pytest

from ..parse import BadCommand, IMAPClientCommand
from ..user_server import IMAPClientProxy
from .conftest import client_push_responses

BAD_DATE_COMMANDS = [
    b"A1 SEARCH BEFORE 31-Feb-2020\r\n",
    b"A1 SEARCH SINCE 1-Jan-0000\r\n",
    b'A1 APPEND inbox "31-Feb-2020 25:61:61 +0000" {5}\r\nhello\r\n',
    b'A1 APPEND inbox "28-Feb-2020 25:61:61 +0000" {5}\r\nhello\r\n',
    b'A1 APPEND inbox "28-Feb-2020 10:10:10 +9999" {5}\r\nhello\r\n',
]


@pytest.mark.parametrize("msg", BAD_DATE_COMMANDS)
def test_parse_raises_badcommand_for_impossible_dates(msg: bytes) -> None:
    cmd = IMAPClientCommand(str(msg, "latin-1"))
    with pytest.raises(BadCommand):
        cmd.parse()


@pytest.mark.asyncio
@pytest.mark.parametrize("msg", BAD_DATE_COMMANDS)
async def test_connection_survives_impossible_date(
    imap_client_proxy: Callable[..., Any], msg: bytes
) -> None:
    imap_client: IMAPClientProxy = await imap_client_proxy()
    for m in (msg, b"A2 NOOP\r\n"):
        imap_client.reader.feed_data(b"{%d}\n" % len(m) + m)
    imap_client.reader.feed_eof()

    died_with: Exception | None = None
    try:
        await asyncio.wait_for(imap_client.run(), timeout=10)
    except Exception as exc:  # run() is the root of the connection's task
        died_with = exc

    pushed = client_push_responses(imap_client)
    assert died_with is None, (
        f"connection handler died with {died_with!r}; replies sent: {pushed}"
    )
    assert len(pushed) == 2
    assert pushed[0].startswith("A1 BAD ")
    assert pushed[1] == "A2 OK NOOP command completed"
