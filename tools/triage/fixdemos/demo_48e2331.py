"""
Demo for 48e2331: the per-user process' read loop (`IMAPClientProxy.run()`)
answers BAD to a command it can not parse and then *returns*, which closes the
connection to the client (no BYE). A syntax error is not fatal in IMAP: the
next command on the same connection must still be served.

Input (one connection, framed the way the front-end relays it):
    A1 FETCH 1:x FLAGS      <- unparsable
    A2 NOOP
Expected: `A1 BAD ...`, `A2 OK ...`, connection still open and reading.
"""

import asyncio
from collections.abc import Callable
from typing import Any

import pytest

from ..user_server import IMAPClientProxy, IMAPUserServer
from .conftest import client_push_responses


####################################################################
#
def _frame(line: str) -> bytes:
    data = line.encode("latin-1")
    return b"{%d}\n" % len(data) + data


####################################################################
#
async def _settle(run_task: asyncio.Task, proxy: IMAPClientProxy) -> None:
    """
    Let the read loop consume everything we fed it: either it ends, or it is
    parked waiting for more input with an empty buffer.
    """
    async with asyncio.timeout(5):
        while not run_task.done():
            await asyncio.sleep(0.02)
            if (
                not proxy.reader._buffer  # type: ignore[attr-defined]
                and proxy.reader._waiter is not None  # type: ignore[attr-defined]
                and proxy.server.commands_in_progress == 0
            ):
                break
    await asyncio.sleep(0.05)


####################################################################
#
@pytest.mark.parametrize(
    "bad_line,bad_reply_prefix",
    [
        ("A1 FETCH 1:x FLAGS\r\n", "A1 BAD "),
        ("A1 BOGUS\r\n", "A1 BAD "),
        ("A1 SELECT\r\n", "A1 BAD "),
        ("\r\n", "* BAD "),
    ],
)
@pytest.mark.asyncio
async def test_session_survives_unparsable_command(
    bad_line: str,
    bad_reply_prefix: str,
    imap_user_server: IMAPUserServer,
    imap_client_proxy: Callable[..., Any],
) -> None:
    proxy: IMAPClientProxy = await imap_client_proxy()
    run_task = asyncio.create_task(proxy.run())
    try:
        proxy.reader.feed_data(_frame(bad_line))
        proxy.reader.feed_data(_frame("A2 NOOP\r\n"))
        await _settle(run_task, proxy)

        results = client_push_responses(proxy)
        assert results and results[0].startswith(bad_reply_prefix), results

        # The defect: the read loop is gone and the connection was closed,
        # the NOOP that followed was never looked at.
        #
        assert not run_task.done(), (
            f"read loop ended after the BAD for {bad_line!r}; responses so "
            f"far: {results}"
        )
        assert not proxy.writer.is_closing()
        assert len(results) == 2, results
        assert results[1].startswith("A2 OK"), results

        # And the session keeps going until the client says it is done.
        #
        proxy.reader.feed_data(_frame("A3 LOGOUT\r\n"))
        async with asyncio.timeout(5):
            await run_task
        results = client_push_responses(proxy)
        assert any(x.startswith("* BYE") for x in results), results
        assert results[-1].startswith("A3 OK"), results
    finally:
        if not run_task.done():
            run_task.cancel()
            try:
                await run_task
            except asyncio.CancelledError:
                pass
