"""A message delivered by an MH agent (listed in `unseen`) just before a STORE / APPEND keeps the flags the agent gave it."""
import mailbox
import os
from collections.abc import Callable
from pathlib import Path
from typing import Any

import pytest

from ..parse import IMAPClientCommand
from ..user_server import IMAPUserServer
from .conftest import client_push_responses


async def run_cmd(proxy: Any, line: str) -> list[str]:
    cmd = IMAPClientCommand(line)
    cmd.parse()
    await proxy.cmd_processor.command(cmd)
    return [x if isinstance(x, str) else str(x, "latin-1") for x in client_push_responses(proxy)]


def deliver(mbox, text: str) -> int:
    """What rcvstore / an MDA does: next free number, listed in `unseen`; the folder's mtime stays within the same second
    as the server's last look (forced here, so that the case is deterministic)."""
    mh = mailbox.MH(mbox.mailbox._path, create=False)
    mh.lock()
    try:
        key = int(mh.add(text))
        seqs = mh.get_sequences()
        seqs.setdefault("unseen", []).append(key)
        mh.set_sequences(seqs)
    finally:
        mh.unlock()
    for p in (mbox.mailbox._path, os.path.join(mbox.mailbox._path, ".mh_sequences")):
        os.utime(p, (mbox.mtime, mbox.mtime))
    return key


@pytest.mark.asyncio
@pytest.mark.parametrize("cmdline", [r"A3 STORE 1 +FLAGS (\Flagged)", "A3 APPEND inbox {23}"])
async def test_delivery_keeps_unseen(cmdline, bunch_of_email_in_folder: Callable[..., Path], imap_user_server: IMAPUserServer, imap_client_proxy: Callable[..., Any]) -> None:
    bunch_of_email_in_folder(num_emails=5)
    server = imap_user_server
    mbox = await server.get_mailbox("inbox")
    a = await imap_client_proxy()
    await run_cmd(a, "A1 SELECT inbox")
    await run_cmd(a, "A2 NOOP")
    key = deliver(mbox, "From: a@b\nSubject: delivered\n\nhello\n")
    if "APPEND" in cmdline:
        cmd = IMAPClientCommand(cmdline + "\r\nSubject: x\r\n\r\nbody body\r\n")
        cmd.parse()
        await a.cmd_processor.command(cmd)
        client_push_responses(a)
    else:
        res = await run_cmd(a, cmdline)
        assert res[-1].startswith("A3 OK"), res
    on_disk = mailbox.MH(mbox.mailbox._path, create=False).get_sequences()
    assert key in on_disk.get("unseen", []), f".mh_sequences lost the agent's `unseen` entry for message {key}: {on_disk}"
