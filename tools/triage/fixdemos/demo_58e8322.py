"""
Demo for 58e8322: when the resync finds new messages it pushes `* n EXISTS`
straight to every session that has the mailbox selected - also to a session
that still has `* k EXPUNGE` responses queued in `pending_notifications`
(because it has not issued a command yet during which it may receive them).
The EXISTS overtakes the EXPUNGE: the client applies the EXPUNGE to the newer
count and ends up one message short of what the server has.

History (inbox, 5 messages, sessions A and B have it selected):
  - A: STORE 2 +FLAGS.SILENT (\\Deleted)
  - A: EXPUNGE              -> `* 2 EXPUNGE` is queued for B (B is not idling)
  - a new message is delivered in to the folder
  - A: NOOP                 -> resync finds the new message
  - B: NOOP                 -> B collects what is queued for it
The message count B derives from the responses it was sent, in the order it
was sent them, must be the number of messages in the mailbox: 5.
"""

import asyncio
import re
from collections.abc import Callable
from pathlib import Path
from typing import Any

import pytest

from ..client import Authenticated
from ..parse import IMAPClientCommand
from ..user_server import IMAPUserServer
from .conftest import client_push_responses


####################################################################
#
def _apply(count: int, responses: list[Any]) -> int:
    """
    What an IMAP client does with untagged EXISTS / EXPUNGE responses
    (rfc3501 7.3.1, 7.4.1), in the order they arrive.
    """
    for r in responses:
        r = r.decode("latin-1") if isinstance(r, bytes) else r
        if m := re.fullmatch(r"\* (\d+) EXISTS", r):
            count = int(m.group(1))
        elif m := re.fullmatch(r"\* (\d+) EXPUNGE", r):
            assert 1 <= int(m.group(1)) <= count, (r, count)
            count -= 1
    return count


####################################################################
#
@pytest.mark.asyncio
async def test_exists_does_not_overtake_queued_expunge(
    bunch_of_email_in_folder: Callable[..., Path],
    imap_user_server: IMAPUserServer,
    imap_client_proxy: Callable[..., Any],
) -> None:
    server = imap_user_server
    bunch_of_email_in_folder(num_emails=5, folder="inbox")
    mbox = await server.get_mailbox("inbox")

    proxy_a = await imap_client_proxy()
    proxy_b = await imap_client_proxy()
    sess_a = Authenticated(proxy_a, server)
    sess_b = Authenticated(proxy_b, server)

    async def run(sess: Authenticated, line: str) -> None:
        async with asyncio.timeout(10):
            await sess.command(IMAPClientCommand(line).parse())

    await run(sess_a, "A1 SELECT INBOX")
    await run(sess_b, "B1 SELECT INBOX")
    a_count = _apply(0, client_push_responses(proxy_a))
    b_count = _apply(0, client_push_responses(proxy_b))
    assert a_count == b_count == mbox.num_msgs == 5

    await run(sess_a, r"A2 STORE 2 +FLAGS.SILENT (\Deleted)")
    await run(sess_a, "A3 EXPUNGE")
    a_count = _apply(a_count, client_push_responses(proxy_a))
    assert a_count == mbox.num_msgs == 4

    # B has not been told yet (it is neither idling nor running a command).
    #
    b_count = _apply(b_count, client_push_responses(proxy_b))
    assert b_count == 5
    assert "* 2 EXPUNGE\r\n" in sess_b.pending_notifications

    # A new message arrives; A's next command makes the server notice it.
    #
    bunch_of_email_in_folder(num_emails=1, folder="inbox")
    await run(sess_a, "A4 NOOP")
    a_count = _apply(a_count, client_push_responses(proxy_a))
    assert a_count == mbox.num_msgs == 5

    # B now asks. After this it has been sent everything.
    #
    await run(sess_b, "B2 NOOP")
    b_responses = client_push_responses(proxy_b)
    assert b_responses[-1].startswith("B2 OK")
    assert not sess_b.pending_notifications
    b_count = _apply(b_count, b_responses)
    assert b_count == mbox.num_msgs, (
        f"server has {mbox.num_msgs} messages, session B was led to believe "
        f"{b_count}; it was sent, in this order: {b_responses}"
    )
