r"""
Demo for 5692d9a "fix: UID EXPUNGE restricts the expunge to the UIDs given".

Parent: do_expunge passed `cmd.msg_set_as_set` (message *sequence numbers*
of the UIDs named) to Mailbox.expunge(uid_msg_set=...), which expects *UIDs*.
As soon as UIDs and sequence numbers differ (i.e. after any earlier expunge)
`UID EXPUNGE <uid>` removes the wrong message (or none), and a UID set that
names no existing message turned into "no restriction" and expunged every
\Deleted message.
"""

import pytest

from ..client import Authenticated
from ..mbox import Mailbox
from ..parse import IMAPClientCommand
from ..user_server import IMAPClientProxy, IMAPUserServer
from .conftest import client_push_responses


async def _run(
    handler: Authenticated, imap_client: IMAPClientProxy, line: str
) -> list[str]:
    cmd = IMAPClientCommand(line + "\r\n")
    cmd.parse()
    await handler.command(cmd)
    return client_push_responses(imap_client)


async def _setup(
    handler: Authenticated, imap_client: IMAPClientProxy, mbox: Mailbox
) -> list[int]:
    """
    SELECT inbox and expunge the first three messages so that sequence
    numbers and UIDs no longer coincide. Returns the remaining UIDs.
    """
    r = await _run(handler, imap_client, "A001 SELECT inbox")
    assert r[-1].startswith("A001 OK")
    assert mbox.num_msgs == 20
    r = await _run(handler, imap_client, r"A002 STORE 1:3 +FLAGS.SILENT (\Deleted)")
    assert r[-1].startswith("A002 OK")
    r = await _run(handler, imap_client, "A003 EXPUNGE")
    assert r == [
        "* 3 EXPUNGE",
        "* 2 EXPUNGE",
        "* 1 EXPUNGE",
        "A003 OK EXPUNGE command completed",
    ]
    uids = list(mbox.uids)
    assert len(uids) == 17
    # seq n is now UID uids[n-1] != n
    assert all(uid != seq for seq, uid in enumerate(uids, 1))
    return uids


@pytest.mark.asyncio
async def test_uid_expunge_removes_the_uid_named(
    mailbox_with_bunch_of_email: Mailbox,
    imap_user_server_and_client: tuple[IMAPUserServer, IMAPClientProxy],
) -> None:
    server, imap_client = imap_user_server_and_client
    mbox = mailbox_with_bunch_of_email
    handler = Authenticated(imap_client, server)
    uids = await _setup(handler, imap_client, mbox)

    # `victim` is the message at sequence number 4. `bystander` is the message
    # whose UID happens to equal 4, victim's sequence number. Both (and a
    # third one) are flagged \Deleted, only `victim` is named in UID EXPUNGE.
    #
    victim = uids[3]
    bystander = 4
    third = uids[9]
    assert bystander in uids and bystander != victim
    r = await _run(
        handler,
        imap_client,
        rf"A004 UID STORE {bystander},{victim},{third} +FLAGS.SILENT (\Deleted)",
    )
    assert r[-1].startswith("A004 OK")

    r = await _run(handler, imap_client, f"A005 UID EXPUNGE {victim}")
    assert r == ["* 4 EXPUNGE", "A005 OK EXPUNGE command completed"]
    assert victim not in mbox.uids
    assert bystander in mbox.uids
    assert third in mbox.uids
    assert mbox.num_msgs == 16


@pytest.mark.asyncio
async def test_uid_expunge_of_nonexistent_uids_expunges_nothing(
    mailbox_with_bunch_of_email: Mailbox,
    imap_user_server_and_client: tuple[IMAPUserServer, IMAPClientProxy],
) -> None:
    server, imap_client = imap_user_server_and_client
    mbox = mailbox_with_bunch_of_email
    handler = Authenticated(imap_client, server)
    uids = await _setup(handler, imap_client, mbox)

    r = await _run(
        handler,
        imap_client,
        rf"A004 UID STORE {uids[0]},{uids[5]} +FLAGS.SILENT (\Deleted)",
    )
    assert r[-1].startswith("A004 OK")

    # UIDs 1:3 were expunged above, 500:600 never existed.
    #
    r = await _run(handler, imap_client, "A005 UID EXPUNGE 1:3,500:600")
    assert r == ["A005 OK EXPUNGE command completed"]
    assert list(mbox.uids) == uids
    assert mbox.num_msgs == 17

    # And the plain EXPUNGE still takes them both.
    #
    r = await _run(handler, imap_client, "A006 EXPUNGE")
    assert r == [
        "* 6 EXPUNGE",
        "* 1 EXPUNGE",
        "A006 OK EXPUNGE command completed",
    ]


@pytest.mark.asyncio
async def test_uid_expunge_when_seq_num_is_no_deleted_uid(
    mailbox_with_bunch_of_email: Mailbox,
    imap_user_server_and_client: tuple[IMAPUserServer, IMAPClientProxy],
) -> None:
    r"""
    The "or nothing" variant: the message is \Deleted and named, but its
    sequence number is not the UID of a \Deleted message, so on the parent
    nothing is expunged although the server says OK.
    """
    server, imap_client = imap_user_server_and_client
    mbox = mailbox_with_bunch_of_email
    handler = Authenticated(imap_client, server)
    uids = await _setup(handler, imap_client, mbox)

    victim = uids[-1]  # seq 17, UID 20
    r = await _run(
        handler, imap_client, rf"A004 UID STORE {victim} +FLAGS.SILENT (\Deleted)"
    )
    assert r[-1].startswith("A004 OK")
    r = await _run(handler, imap_client, f"A005 UID EXPUNGE {victim}")
    assert r == ["* 17 EXPUNGE", "A005 OK EXPUNGE command completed"]
    assert victim not in mbox.uids
