"""
Demonstration: an untagged/tagged status line whose text ends in `{<digits>}` announces a literal that never follows.

While a session is idling, anything but DONE is answered with `* NO Expected 'DONE' not: <what the client sent>`.  The
client's text ends the line.  If it sent `x {3}` CRLF `{7}` (a three-octet literal whose content is `{7}`), the front end
hands `x {3}\\r\\n{7}` to the user process and the reply line ends in `{7}` CRLF: a client that frames the stream
swallows the next 7 octets of whatever follows as literal data.

Run: copy to asimap/test/ and run pytest on it.  FAILS before the fix, PASSES after.
"""
import re

import pytest

from ..utils import oneline


@pytest.mark.asyncio
async def test_idle_refusal_line_does_not_announce_a_literal(imap_client_proxy):
    proxy = await imap_client_proxy()
    proxy.cmd_processor.idling = True
    msg = b"x {3}\r\n{7}"
    proxy.reader.feed_data(b"{%d}\n" % len(msg) + msg)
    proxy.reader.feed_eof()
    await proxy.run()
    pushed = "".join(str(c.args[0]) for c in proxy.push.call_args_list)
    assert "Expected 'DONE'" in pushed
    for line in pushed.split("\r\n"):
        assert not re.search(r"\{\d+\+?\}$", line), f"line announces a literal: {line!r}"


def test_oneline_keeps_ordinary_text():
    assert oneline("No such mailbox: 'foo'") == "No such mailbox: 'foo'"
    assert oneline("a\r\nb") == "a  b"
