"""
Demo for 84e0f81: LIST / LSUB must return the inbox for a pattern that
denotes the name INBOX in any case (RFC 3501 5.1: "INBOX is case-insensitive").

The inbox is stored as `inbox` and LIST patterns are matched case
sensitively, so on the parent revision the most common way of writing it,
`LIST "" "INBOX"`, returns nothing at all, as do `LIST "" InBox` and
`LIST "" "IN%"`. Only a lower case pattern finds it.
"""

from typing import Any

import pytest

from ..client import Authenticated
from ..mbox import Mailbox
from ..parse import IMAPClientCommand
from ..user_server import IMAPClientProxy, IMAPUserServer
from .conftest import client_push_responses


async def _run(
    handler: Authenticated, client: IMAPClientProxy, line: str
) -> list[Any]:
    cmd = IMAPClientCommand(line)
    cmd.parse()
    await handler.command(cmd)
    return client_push_responses(client)


def _names(results: list[str], what: str = "LIST") -> list[str]:
    return [
        r.rsplit(' "/" ', 1)[1].strip('"')
        for r in results
        if r.startswith(f"* {what} (")
    ]


@pytest.mark.asyncio
@pytest.mark.parametrize(
    "pattern",
    [
        "inbox",  # control: found on both revisions
        "INBOX",
        '"INBOX"',
        "InBox",
        '"IN%"',
        "IN*",
        "%BOX",
        "I*X",
    ],
)
async def test_list_finds_inbox_in_any_case(
    pattern: str,
    mailbox_with_bunch_of_email: Mailbox,
    imap_user_server_and_client: tuple[IMAPUserServer, IMAPClientProxy],
) -> None:
    server, client = imap_user_server_and_client
    _ = mailbox_with_bunch_of_email
    await Mailbox.create("inboxes", server)  # some other mailbox
    await Mailbox.create("other", server)
    handler = Authenticated(client, server)

    results = await _run(handler, client, f'A1 LIST "" {pattern}')
    assert results[-1] == "A1 OK LIST command completed"
    assert "INBOX" in _names(results), results
    assert "other" not in _names(results)

    # LSUB goes through the same matching
    #
    await _run(handler, client, "A2 SUBSCRIBE INBOX")
    results = await _run(handler, client, f'A3 LSUB "" {pattern}')
    assert "INBOX" in _names(results, "LSUB"), results


@pytest.mark.asyncio
async def test_list_inbox_pattern_is_not_loosened_for_other_names(
    mailbox_with_bunch_of_email: Mailbox,
    imap_user_server_and_client: tuple[IMAPUserServer, IMAPClientProxy],
) -> None:
    """
    Control (passes before and after): only the name INBOX is
    case-insensitive.
    """
    server, client = imap_user_server_and_client
    _ = mailbox_with_bunch_of_email
    await Mailbox.create("inboxes", server)
    await Mailbox.create("Other", server)
    handler = Authenticated(client, server)

    results = await _run(handler, client, 'A1 LIST "" "INBOXES"')
    assert _names(results) == []
    results = await _run(handler, client, 'A2 LIST "" "other"')
    assert _names(results) == []
    results = await _run(handler, client, 'A3 LIST "" "Other"')
    assert _names(results) == ["Other"]
    results = await _run(handler, client, 'A4 LIST "" "inboxe%"')
    assert _names(results) == ["inboxes"]
