r"""
Demo for bbc27aa: a session that opened the mailbox read-only (EXAMINE) could
still change flags.

History A: EXAMINE inbox; STORE 1 +FLAGS (\Deleted)
  parent: "OK STORE completed", message 1 is in the Deleted sequence on disk.
  fixed : "NO Mailbox is read-only", nothing changed.
History B: EXAMINE inbox; FETCH 2 (FLAGS BODY[])      (non-PEEK body fetch)
  parent: message 2 leaves `unseen`/`Recent`, enters `Seen` (in memory and in
          .mh_sequences).
  fixed : sequences are unchanged.
"""

import pytest

from ..client import Authenticated
from ..mbox import Mailbox
from ..parse import IMAPClientCommand
from ..user_server import IMAPClientProxy, IMAPUserServer
from .conftest import client_push_responses


async def _run(handler: Authenticated, line: str) -> None:
    cmd = IMAPClientCommand(line + "\r\n")
    cmd.parse()
    await handler.command(cmd)


def _disk_seqs(mbox: Mailbox) -> dict[str, list[int]]:
    return {
        k: sorted(v) for k, v in mbox.mailbox.get_sequences().items() if v
    }


def _mem_seqs(mbox: Mailbox) -> dict[str, list[int]]:
    return {k: sorted(v) for k, v in mbox.sequences.items() if v}


@pytest.mark.asyncio
async def test_examine_session_store_changes_nothing(
    mailbox_with_bunch_of_email: Mailbox,
    imap_user_server_and_client: tuple[IMAPUserServer, IMAPClientProxy],
) -> None:
    server, imap_client = imap_user_server_and_client
    mbox = mailbox_with_bunch_of_email
    handler = Authenticated(imap_client, server)

    await _run(handler, "A001 EXAMINE inbox")
    results = client_push_responses(imap_client)
    assert results[-1] == "A001 OK [READ-ONLY] EXAMINE command completed"

    disk_before = _disk_seqs(mbox)
    mem_before = _mem_seqs(mbox)

    await _run(handler, r"A002 STORE 1 +FLAGS (\Deleted)")
    results = client_push_responses(imap_client)

    assert _disk_seqs(mbox) == disk_before, results
    assert _mem_seqs(mbox) == mem_before, results
    assert results == ["A002 NO Mailbox is read-only"]


@pytest.mark.asyncio
async def test_examine_session_body_fetch_changes_nothing(
    mailbox_with_bunch_of_email: Mailbox,
    imap_user_server_and_client: tuple[IMAPUserServer, IMAPClientProxy],
) -> None:
    server, imap_client = imap_user_server_and_client
    mbox = mailbox_with_bunch_of_email
    handler = Authenticated(imap_client, server)

    await _run(handler, "A001 EXAMINE inbox")
    client_push_responses(imap_client)

    key2 = mbox.msg_keys[1]
    assert key2 in mbox.sequences["unseen"]
    assert key2 in mbox.sequences["Recent"]
    disk_before = _disk_seqs(mbox)
    mem_before = _mem_seqs(mbox)

    await _run(handler, "A002 FETCH 2 (FLAGS BODY[])")
    results = client_push_responses(imap_client)
    assert results[-1] == "A002 OK FETCH command completed"

    assert _mem_seqs(mbox) == mem_before
    assert _disk_seqs(mbox) == disk_before
