"""
Demonstration: IMAPUserServer.shutdown() aborts when its management task is still running.

shutdown() cancels the management task and awaits it.  The task handles its cancellation with `raise`, so the await raises
CancelledError in shutdown() itself and everything after it is skipped: clients are not closed, no mailbox is shut down
(nothing committed), the database is neither committed nor closed.  This is the shutdown run() performs in its `finally`
when the server is cancelled (SIGINT, the parent, a test harness) - any shutdown other than the idle expiry, where the task
has already returned.

Run: copy to asimap/test/ and run pytest on it.  FAILS before the fix, PASSES after.
"""
import asyncio
from pathlib import Path

import pytest

from ..mbox import Mailbox
from ..mh import MH
from ..user_server import IMAPUserServer


@pytest.mark.asyncio
async def test_shutdown_with_running_management_task(tmp_path: Path, mocker) -> None:
    maildir = tmp_path / "Mail"
    MH(maildir).add_folder("inbox")
    server = await IMAPUserServer.new(maildir)
    await server.find_all_folders()
    await Mailbox.create("work", server)
    work = await server.get_mailbox("work")
    server.asyncio_server = mocker.MagicMock()
    server.asyncio_server.is_serving.return_value = False
    server.management_task = asyncio.create_task(server.user_server_management_task())
    await asyncio.sleep(0.2)  # the task is in its loop, sleeping
    assert not server.management_task.done()
    spy = mocker.spy(work, "commit_to_db")
    closed = mocker.spy(server.db, "close")
    try:
        await server.shutdown()
    except asyncio.CancelledError:
        pytest.fail("shutdown() was aborted by the CancelledError of the task it cancelled")
    assert spy.call_count >= 1, "the active mailbox was not shut down (nothing committed)"
    assert closed.call_count == 1, "the database was not closed"
