"""
Demo for 0c3d83f "fix: refuse mailbox names that reach outside the mail
directory".

Parent: _p_mailbox only ran os.path.normpath() over the name. That keeps a
leading `..` and a doubled leading slash, so CREATE / SELECT / DELETE / RENAME
operated on directories outside the user's mail directory.

The test mail dir is `<tmp_path>/Mail`; everything else under `<tmp_path>`
is "somebody else's" file system.
"""

from mailbox import MH
from pathlib import Path

import pytest

from ..client import Authenticated
from ..mbox import Mailbox
from ..parse import BadCommand, IMAPClientCommand
from ..user_server import IMAPClientProxy, IMAPUserServer
from .conftest import client_push_responses

SECRET = (
    "From: a@example.com\nTo: b@example.com\nSubject: top secret\n"
    "Message-ID: <s1@example.com>\nDate: Mon, 01 Jan 2024 00:00:00 +0000\n"
    "\nthe launch code is 0000\n"
)


async def _run(
    handler: Authenticated, imap_client: IMAPClientProxy, line: str
) -> list[str]:
    """
    Do what the server's read loop does with a line: parse it, answer BAD if
    it does not parse, otherwise hand it to the handler.
    """
    cmd = IMAPClientCommand(line + "\r\n")
    try:
        cmd.parse()
    except BadCommand as e:
        return [f"{cmd.tag} BAD {e}"]
    await handler.command(cmd)
    return client_push_responses(imap_client)


def _outside_folder(maildir: Path, name: str) -> Path:
    outside = maildir.parent / name
    mh = MH(str(outside), create=True)
    mh.add(SECRET)
    return outside


@pytest.mark.parametrize(
    "line",
    [
        "A1 CREATE ../evil",
        'A1 CREATE "../evil"',
        "A1 CREATE foo/../../evil",
        "A1 SELECT ..",
        "A1 DELETE ../other",
        "A1 RENAME foo ../bar",
        "A1 RENAME ../bar foo",
        "A1 STATUS ../other (MESSAGES)",
        "A1 COPY 1 ../other",
        'A1 APPEND ../other {3+}\r\nabc',
    ],
)
def test_parser_refuses_climbing_names(line: str) -> None:
    cmd = IMAPClientCommand(line + "\r\n")
    with pytest.raises(BadCommand):
        cmd.parse()


def test_parser_strips_doubled_leading_slash() -> None:
    cmd = IMAPClientCommand("A1 SELECT //etc/x\r\n")
    cmd.parse()
    assert not cmd.mailbox_name.startswith("/")
    # ..and names that merely pass through `..` but stay inside are fine.
    cmd = IMAPClientCommand("A1 SELECT foo/../bar\r\n")
    cmd.parse()
    assert cmd.mailbox_name == "bar"


@pytest.mark.asyncio
async def test_create_outside_maildir(
    mailbox_with_bunch_of_email: Mailbox,
    imap_user_server_and_client: tuple[IMAPUserServer, IMAPClientProxy],
) -> None:
    server, imap_client = imap_user_server_and_client
    maildir = Path(server.maildir)
    handler = Authenticated(imap_client, server)

    results = await _run(handler, imap_client, "A001 CREATE ../evil")
    assert not (maildir.parent / "evil").exists(), results
    assert results[-1].startswith("A001 BAD")

    # The same with an absolute path smuggled in behind a doubled slash.
    target = maildir.parent / "absevil"
    results = await _run(handler, imap_client, f"A002 CREATE /{target}")
    assert not target.exists(), results


@pytest.mark.asyncio
async def test_read_and_destroy_folder_outside_maildir(
    mailbox_with_bunch_of_email: Mailbox,
    imap_user_server_and_client: tuple[IMAPUserServer, IMAPClientProxy],
) -> None:
    """
    `<tmp>/other` is an MH folder next to (not in) the mail dir. On the
    parent `SELECT ../other` selects it, FETCH reads its message, and
    `DELETE ../other` removes the message file.
    """
    server, imap_client = imap_user_server_and_client
    maildir = Path(server.maildir)
    outside = _outside_folder(maildir, "other")
    assert (outside / "1").is_file()
    handler = Authenticated(imap_client, server)

    results = await _run(handler, imap_client, "A001 SELECT ../other")
    assert handler.mbox is None, results
    assert "* 1 EXISTS" not in results
    assert results[-1].startswith("A001 BAD")

    results = await _run(handler, imap_client, "A002 DELETE ../other")
    assert (outside / "1").is_file(), results
    assert outside.is_dir()


@pytest.mark.asyncio
async def test_rename_out_of_maildir(
    mailbox_with_bunch_of_email: Mailbox,
    imap_user_server_and_client: tuple[IMAPUserServer, IMAPClientProxy],
) -> None:
    server, imap_client = imap_user_server_and_client
    maildir = Path(server.maildir)
    handler = Authenticated(imap_client, server)

    results = await _run(handler, imap_client, "A001 CREATE keepme")
    assert results == ["A001 OK CREATE command completed"]
    results = await _run(handler, imap_client, "A002 RENAME keepme ../gone")
    assert not (maildir.parent / "gone").exists(), results
    assert (maildir / "keepme").is_dir()
    assert results[-1].startswith("A002 BAD")
