"""
Demonstration: a flag keyword with an 8-bit character wedges the mailbox.

The atom pattern of the parser admits characters above 0x7f (the command is decoded as latin-1), so `STORE 2 +FLAGS (caf\\xe9)`
parses.  Mailbox.store() puts the keyword into its in-memory sequences and then writes `.mh_sequences` - which the MH
library opens as ASCII: UnicodeEncodeError, the client gets BAD, and the keyword stays in memory.  From then on every
command that rewrites the folder's sequences (STORE, a non-PEEK FETCH, APPEND, EXPUNGE, the resync) fails the same way,
for every session, and neither the file nor the database follows the flags the sessions are shown.

Run: copy to asimap/test/ and run pytest on it.  FAILS before the fix, PASSES after.
"""
import pytest

from ..exceptions import Bad
from ..mbox import Mailbox
from ..parse import BadCommand, IMAPClientCommand, StoreAction


@pytest.mark.asyncio
async def test_8bit_keyword_is_refused_by_the_parser(mailbox_with_bunch_of_email: Mailbox) -> None:
    mbox = mailbox_with_bunch_of_email
    cmd = IMAPClientCommand("a1 STORE 2 +FLAGS (caf\xe9)\r\n")
    try:
        cmd.parse()
    except BadCommand:
        return  # refused: nothing reaches the mailbox
    # accepted by the parser: then it must work, and keep working
    try:
        await mbox.store([2], cmd.store_action, cmd.flag_list)
    except Exception:
        pass
    # an ordinary STORE by anybody afterwards
    await mbox.store([3], StoreAction.ADD_FLAGS, [r"\Flagged"])
    assert 3 in mbox.mailbox.get_sequences().get("flagged", [])
