"""
Demonstration: the hierarchy-delimiter probe of LSUB is answered with an untagged LIST.

`LSUB "" ""` goes through do_list(lsub=True); the probe branch pushed `* LIST (\\Noselect) "/" ""` whatever the command was.

Run: copy to asimap/test/ and run pytest on it.  FAILS before the fix, PASSES after.
"""
from collections.abc import Callable
from typing import Any

import pytest

from ..client import Authenticated
from ..parse import IMAPClientCommand
from ..user_server import IMAPUserServer


@pytest.mark.asyncio
async def test_lsub_probe_is_answered_with_lsub(imap_user_server: IMAPUserServer, imap_client_proxy: Callable[..., Any]) -> None:
    proxy = await imap_client_proxy()
    sess = Authenticated(proxy, imap_user_server)
    for line in ('A001 LSUB "" ""', 'A002 LIST "" ""'):
        cmd = IMAPClientCommand(line)
        cmd.parse()
        await sess.command(cmd)
    sent = [c.args[0] for c in proxy.push.call_args_list]
    sent = [x.decode("latin-1") if isinstance(x, bytes) else x for x in sent]
    untagged = [x for x in sent if x.startswith("* ")]
    assert untagged == ['* LSUB (\\Noselect) "/" ""\r\n', '* LIST (\\Noselect) "/" ""\r\n'], untagged
