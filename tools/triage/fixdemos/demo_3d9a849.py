"""
Demonstration: a SEARCH that finds nothing is answered `* SEARCH ` CRLF - with a blank at the end of the line.

mailbox-data = "SEARCH" *(SP nz-number).

Run: copy to asimap/test/ and run pytest on it.  FAILS before the fix, PASSES after.
"""
from collections.abc import Callable
from typing import Any

import pytest

from ..client import Authenticated
from ..mbox import Mailbox
from ..parse import IMAPClientCommand
from ..user_server import IMAPUserServer


@pytest.mark.asyncio
async def test_empty_search_result_line(
    mailbox_with_bunch_of_email: Mailbox, imap_user_server: IMAPUserServer, imap_client_proxy: Callable[..., Any]
) -> None:
    proxy = await imap_client_proxy()
    sess = Authenticated(proxy, imap_user_server)
    for line in ("A001 SELECT inbox", "A002 SEARCH SUBJECT no-such-subject-anywhere", "A003 SEARCH 1:2"):
        cmd = IMAPClientCommand(line)
        cmd.parse()
        await sess.command(cmd)
    sent = [c.args[0] for c in proxy.push.call_args_list]
    sent = [x.decode("latin-1") if isinstance(x, bytes) else x for x in sent]
    lines = [x for x in sent if x.startswith("* SEARCH")]
    assert lines == ["* SEARCH\r\n", "* SEARCH 1 2\r\n"], lines
