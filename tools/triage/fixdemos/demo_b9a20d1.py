r"""
Demo for b9a20d1: message sets in SEARCH.

inbox has 20 messages (UIDs 1..20). Message 1 is expunged first so that
sequence numbers and UIDs differ: 19 messages, message n has UID n+1.

  SEARCH 5:2        -> RFC 3501: "5:2" is the same set as "2:5"
  SEARCH UID 5:2    -> UIDs 2..5 are messages 1..4
  SEARCH *:17       -> 17, 18, 19
  UID SEARCH UID *:19 -> UIDs 19, 20

All commands go through IMAPClientProxy.run() (the user server's client loop)
and are followed by a NOOP, which is only answered if the connection survived.
"""

import asyncio

import pytest

from ..mbox import Mailbox
from ..user_server import IMAPClientProxy, IMAPUserServer
from .conftest import client_push_responses


def frame(line: str) -> bytes:
    """How asimapd hands a complete IMAP command to the user server."""
    data = line.encode("latin-1")
    return b"{%d}\n" % len(data) + data


async def converse(
    imap_client: IMAPClientProxy, *lines: str
) -> tuple[list[str], BaseException | None]:
    """
    Run the client loop over the given commands (after a SELECT and the
    expunge of message 1.) Returns the `* SEARCH` and tagged responses of the
    commands, and the exception that ended the client loop if any.
    """
    reader = imap_client.reader
    preamble = (
        "P001 SELECT INBOX\r\n",
        "P002 STORE 1 +FLAGS.SILENT (\\Deleted)\r\n",
        "P003 EXPUNGE\r\n",
    )
    for line in preamble + lines:
        reader.feed_data(frame(line))
    reader.feed_eof()
    failure: BaseException | None = None
    try:
        async with asyncio.timeout(10):
            await imap_client.run()
    except Exception as exc:
        failure = exc
    pushed = [
        x.decode("latin-1") if isinstance(x, bytes) else x
        for x in client_push_responses(imap_client)
    ]
    results = [
        x for x in pushed if x.startswith("* SEARCH") or x.startswith("A00")
    ]
    return results, failure


@pytest.mark.asyncio
async def test_search_range_written_high_to_low(
    mailbox_with_bunch_of_email: Mailbox,
    imap_user_server_and_client: tuple[IMAPUserServer, IMAPClientProxy],
) -> None:
    _, imap_client = imap_user_server_and_client
    assert mailbox_with_bunch_of_email.num_msgs == 20
    results, failure = await converse(
        imap_client,
        "A001 SEARCH 2:5\r\n",
        "A002 SEARCH 5:2\r\n",
        "A003 SEARCH UID 2:5\r\n",
        "A004 SEARCH UID 5:2\r\n",
        # FETCH has always taken it this way:
        "A005 FETCH 5:2 UID\r\n",
    )
    assert failure is None
    assert results == [
        "* SEARCH 2 3 4 5",
        "A001 OK SEARCH command completed",
        "* SEARCH 2 3 4 5",
        "A002 OK SEARCH command completed",
        "* SEARCH 1 2 3 4",
        "A003 OK SEARCH command completed",
        "* SEARCH 1 2 3 4",
        "A004 OK SEARCH command completed",
        "A005 OK FETCH command completed",
    ]


@pytest.mark.asyncio
async def test_search_range_starting_with_star(
    mailbox_with_bunch_of_email: Mailbox,
    imap_user_server_and_client: tuple[IMAPUserServer, IMAPClientProxy],
) -> None:
    _, imap_client = imap_user_server_and_client
    results, failure = await converse(
        imap_client,
        "A001 SEARCH *:17\r\n",
        "A002 NOOP\r\n",
    )
    assert failure is None, f"client loop died with {failure!r}: {results}"
    assert results == [
        "* SEARCH 17 18 19",
        "A001 OK SEARCH command completed",
        "A002 OK NOOP command completed",
    ]


@pytest.mark.asyncio
async def test_uid_search_uid_range_starting_with_star(
    mailbox_with_bunch_of_email: Mailbox,
    imap_user_server_and_client: tuple[IMAPUserServer, IMAPClientProxy],
) -> None:
    _, imap_client = imap_user_server_and_client
    results, failure = await converse(
        imap_client,
        "A001 UID SEARCH UID *:19\r\n",
        "A002 NOOP\r\n",
    )
    assert failure is None, f"client loop died with {failure!r}: {results}"
    assert results == [
        "* SEARCH 19 20",
        "A001 OK SEARCH command completed",
        "A002 OK NOOP command completed",
    ]
