"""
Demonstration: the field names of `BODY[HEADER.FIELDS (...)]` are echoed raw in the FETCH response.

The names are astrings, so a client may send them as quoted strings or literals.  `FETCH 1 BODY.PEEK[HEADER.FIELDS ("X (Y"
{4}CRLF A CRLF B)]` is accepted; the response item was named `BODY[HEADER.FIELDS (X (Y A CRLF B)]`: unbalanced parentheses and
a raw line break in the middle of the response.

Run: copy to asimap/test/ and run pytest on it.  FAILS before the fix, PASSES after.
"""
from ..parse import IMAPClientCommand


def test_header_fields_echo_is_well_formed() -> None:
    cmd = IMAPClientCommand('a FETCH 1 (BODY.PEEK[HEADER.FIELDS ("X (Y" {4}\r\nA\r\nB Subject)])\r\n')
    cmd.parse()
    att = cmd.fetch_atts[0]
    name = att.dbg()
    assert "\r" not in name and "\n" not in name, repr(name)
    depth = 0
    in_q = False
    prev = ""
    for ch in name:
        if ch == '"' and prev != "\\":
            in_q = not in_q
        elif not in_q and ch == "(":
            depth += 1
        elif not in_q and ch == ")":
            depth -= 1
        prev = ch
    assert depth == 0 and not in_q, repr(name)
    assert "Subject" in name

    plain = IMAPClientCommand("a FETCH 1 (BODY[HEADER.FIELDS (From Message-ID X-Foo_bar)])\r\n")
    plain.parse()
    assert plain.fetch_atts[0].dbg() == "BODY[HEADER.FIELDS (From Message-ID X-Foo_bar)]"
