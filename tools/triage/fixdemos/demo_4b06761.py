"""
Demonstration: a command refused for its size is answered with an untagged BAD although its tag is known.

`A001 APPEND INBOX {10485761}` (a synchronising literal over the limit): the front end answered `* BAD literal size exceeds
maximum allowed size`.  The client sent a tagged command, is waiting for `+` or for a response tagged A001, and gets
neither.  The same for a command whose accumulated size goes over the limit.

Run: copy to asimap/test/ and run pytest on it.  FAILS before the fix, PASSES after.
"""
import asyncio

import pytest

from ..server import MAX_INPUT_SIZE
from .test_server import _get_push_messages, _make_imap_client


@pytest.mark.asyncio
async def test_refused_commands_are_answered_with_their_tag() -> None:
    reader = asyncio.StreamReader()
    client, push_mock = _make_imap_client(reader)
    reader.feed_data(f"A001 APPEND INBOX {{{MAX_INPUT_SIZE + 1}}}\r\n".encode())
    reader.feed_data(b"A002 LOGOUT\r\n")
    reader.feed_eof()
    await client.start()
    msgs = _get_push_messages(push_mock)
    bad = [m for m in msgs if b" BAD " in m and b"literal size" in m]
    assert len(bad) == 1
    assert bad[0].startswith(b"A001 BAD "), bad[0]

    # no usable tag: still a BAD, untagged
    reader = asyncio.StreamReader()
    client, push_mock = _make_imap_client(reader)
    reader.feed_data(f"{{{MAX_INPUT_SIZE + 1}}}\r\n".encode())
    reader.feed_data(b"A002 LOGOUT\r\n")
    reader.feed_eof()
    await client.start()
    bad = [m for m in _get_push_messages(push_mock) if b" BAD " in m and b"literal size" in m]
    assert len(bad) == 1 and bad[0].startswith(b"* BAD "), bad
