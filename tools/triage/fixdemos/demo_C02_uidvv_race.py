"""
NOT a seeded defect: this test FAILS ON THE PRISTINE TREE. It shows a race that is already in
IMAPUserServer.get_next_uid_vv() (it returns self.uid_vv after an await, so concurrent
callers all get the last value): mailboxes created at the same moment share a UIDVALIDITY.
Run as asimap/test/test_seed_C02_X.py.

How to run (from the repo root):

    cp SEED_OUT/demo_J.py asimap/test/test_seed_C02_J.py
    /venv/bin/python -m pytest -q -p no:cacheprovider asimap/test/test_seed_C02_J.py

Several sessions of the same user each CREATE a mailbox at the same moment.
Later one of those mailboxes is deleted and another one is renamed to the
name that became free. A client that knew the deleted mailbox has cached
`(name, UIDVALIDITY, UID) -> message`. The mailbox that now answers to that
name is a different incarnation (other messages, UIDs starting at 1 again), so
it must not present the UIDVALIDITY the deleted one had: otherwise the client
keeps showing the cached message for UID 1 and never learns it is another one.
"""

import asyncio
import re
from collections.abc import Callable
from typing import Any

import pytest

from ..client import Authenticated
from ..parse import IMAPClientCommand
from ..user_server import IMAPUserServer
from .conftest import EmailFactoryType, client_push_responses

STATUS_RE = re.compile(r"UIDVALIDITY (\d+)")
APPENDUID_RE = re.compile(r"\[APPENDUID (\d+) (\d+)\]")


####################################################################
#
async def run(handler: Authenticated, proxy: Any, line: str) -> list[str]:
    """Run one IMAP command, return what was sent to the client."""
    cmd = IMAPClientCommand(line)
    cmd.parse()
    await handler.command(cmd)
    results = client_push_responses(proxy)
    results = [
        x.decode("latin-1") if isinstance(x, bytes) else x for x in results
    ]
    tag = line.split(" ", 1)[0]
    assert results[-1].startswith(f"{tag} OK"), results
    return results


####################################################################
#
async def uidvalidity(handler: Authenticated, proxy: Any, name: str) -> int:
    results = await run(handler, proxy, f"S001 STATUS {name} (UIDVALIDITY)")
    m = STATUS_RE.search(results[0])
    assert m, results
    return int(m.group(1))


####################################################################
#
async def append(
    handler: Authenticated, proxy: Any, name: str, msg: str
) -> tuple[int, int]:
    results = await run(
        handler, proxy, f"P001 APPEND {name} {{{len(msg)}+}}\r\n{msg}"
    )
    m = APPENDUID_RE.search(results[-1])
    assert m, results
    return int(m.group(1)), int(m.group(2))


####################################################################
#
@pytest.mark.asyncio
async def test_name_and_uidvalidity_identify_one_incarnation(
    email_factory: EmailFactoryType,
    imap_user_server: IMAPUserServer,
    imap_client_proxy: Callable[..., Any],
) -> None:
    server = imap_user_server
    names = ["work", "lists", "family", "todo"]

    sessions = []
    for _ in names:
        proxy = await imap_client_proxy()
        sessions.append((Authenticated(proxy, server), proxy))

    # Every session creates its mailbox, all at the same time.
    #
    await asyncio.gather(
        *(
            run(handler, proxy, f"C001 CREATE {name}")
            for (handler, proxy), name in zip(sessions, names)
        )
    )

    handler, proxy = sessions[0]
    uid_vvs = {name: await uidvalidity(handler, proxy, name) for name in names}

    # The mailbox that goes away and the one that takes over its name. (If two
    # of the mailboxes were handed the same UIDVALIDITY, those two.)
    #
    gone, keep = names[0], names[1]
    for a in names:
        for b in names:
            if a < b and uid_vvs[a] == uid_vvs[b]:
                gone, keep = a, b

    # Each of them gets one message: UID 1 in both.
    #
    old_vv, old_uid = await append(
        handler, proxy, gone, email_factory().as_string()
    )
    new_vv, new_uid = await append(
        handler, proxy, keep, email_factory().as_string()
    )
    assert old_vv == uid_vvs[gone]
    assert new_vv == uid_vvs[keep]
    assert old_uid == 1 and new_uid == 1

    await run(handler, proxy, f"D001 DELETE {gone}")
    await run(handler, proxy, f"R001 RENAME {keep} {gone}")

    # `gone` exists again. It is another mailbox than the one that was
    # deleted, with another message as its UID 1.
    #
    now_vv = await uidvalidity(handler, proxy, gone)
    assert now_vv != old_vv, (
        f"mailbox '{gone}' was deleted and the name is in use again, still "
        f"with UIDVALIDITY {old_vv}: UID {old_uid} names two different "
        f"messages (UIDVALIDITY handed out at CREATE: {uid_vvs})"
    )
