"""
Demonstration: UID COPY / UID MOVE in an empty selected mailbox is answered `BAD Unhandled exception: list index out of range`.

A UID set silently skips UIDs that do not exist: `UID FETCH 1:*`, `UID STORE 1:*` and `UID SEARCH UID 1:*` in an empty
mailbox answer OK with nothing.  Mailbox.copy() read `self.msg_keys[-1]` first thing: IndexError.

Run: copy to asimap/test/ and run pytest on it.  FAILS before the fix, PASSES after.
"""
from collections.abc import Callable
from typing import Any

import pytest

from ..client import Authenticated
from ..mbox import Mailbox
from ..parse import IMAPClientCommand
from ..user_server import IMAPUserServer
from .conftest import client_push_responses


async def run(handler: Authenticated, line: str) -> None:
    cmd = IMAPClientCommand(line)
    cmd.parse()
    await handler.command(cmd)


@pytest.mark.asyncio
async def test_uid_copy_and_move_in_an_empty_mailbox(
    imap_user_server: IMAPUserServer, imap_client_proxy: Callable[..., Any]
) -> None:
    server = imap_user_server
    await Mailbox.create("empty", server)
    await Mailbox.create("other", server)
    proxy = await imap_client_proxy()
    sess = Authenticated(proxy, server)
    await run(sess, "A001 SELECT empty")
    client_push_responses(proxy)
    for n, line in enumerate(("UID FETCH 1:* (FLAGS)", "UID COPY 1:* other", "UID MOVE 1:* other", "UID COPY 5,7 other"), 2):
        await run(sess, f"A{n:03d} {line}")
        got = [x.decode("latin-1") if isinstance(x, bytes) else x for x in client_push_responses(proxy)]
        assert got[-1].startswith(f"A{n:03d} OK"), f"{line} -> {got}"
    other = await server.get_mailbox("other")
    assert other.num_msgs == 0
