"""
Demo for 7cd2793: RENAME INBOX moved the messages to the new mailbox but left
the inbox's (and the new mailbox's) reverse indexes _uid_to_idx /
_msg_key_to_idx untouched.

History: SELECT inbox; RENAME inbox newbox; UID STORE 1 +FLAGS (\\Seen)
The inbox is now empty, so `UID STORE 1` names no message: the command must
complete (OK, nothing stored).  With the stale index UID 1 still resolves to
sequence number 1 and Mailbox.store indexes the empty msg_keys list, the
IndexError escapes Authenticated.command() (which in the real server closes
the connection).
"""

import pytest

from ..client import Authenticated
from ..mbox import Mailbox
from ..parse import IMAPClientCommand
from ..user_server import IMAPClientProxy, IMAPUserServer
from .conftest import client_push_responses


async def _run(handler: Authenticated, line: str) -> None:
    cmd = IMAPClientCommand(line + "\r\n")
    cmd.parse()
    await handler.command(cmd)


@pytest.mark.asyncio
async def test_uid_store_on_inbox_after_rename_inbox(
    mailbox_with_bunch_of_email: Mailbox,
    imap_user_server_and_client: tuple[IMAPUserServer, IMAPClientProxy],
) -> None:
    server, imap_client = imap_user_server_and_client
    inbox = mailbox_with_bunch_of_email
    assert inbox.num_msgs > 0
    assert 1 in inbox.uids
    handler = Authenticated(imap_client, server)

    await _run(handler, "A001 SELECT inbox")
    client_push_responses(imap_client)

    await _run(handler, "A002 RENAME inbox newbox")
    results = client_push_responses(imap_client)
    assert results[-1] == "A002 OK RENAME command completed"

    # The inbox is empty now.
    #
    assert inbox.msg_keys == []
    assert inbox.uids == []

    # A UID STORE of a UID that is no longer in the inbox is a no-op
    # that completes OK, not an IndexError that kills the connection.
    #
    await _run(handler, r"A003 UID STORE 1 +FLAGS (\Seen)")
    results = client_push_responses(imap_client)
    assert results == ["A003 OK STORE command completed"]


@pytest.mark.asyncio
async def test_reverse_indexes_after_rename_inbox(
    mailbox_with_bunch_of_email: Mailbox,
    imap_user_server: IMAPUserServer,
) -> None:
    """The same defect seen at the Mailbox level (both mailboxes.)"""
    server = imap_user_server
    inbox = mailbox_with_bunch_of_email
    await Mailbox.rename("inbox", "newbox", server)
    new_mbox = await server.get_mailbox("newbox")
    assert inbox.msg_keys == [] and new_mbox.msg_keys
    for mbox in (inbox, new_mbox):
        assert mbox._uid_to_idx == {u: i for i, u in enumerate(mbox.uids)}
        assert mbox._msg_key_to_idx == {
            k: i for i, k in enumerate(mbox.msg_keys)
        }
    # public consequence: UID 1 is not in the (empty) inbox any more
    assert inbox.msg_set_to_msg_seq_set((1,), True) == set()
