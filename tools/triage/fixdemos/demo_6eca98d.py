"""
Demonstration: a malformed command before LOGIN is answered with an untagged BAD only.

`a1 LOGIN onlyoneargument` - the parser gets as far as the tag and the command word, then fails.  The front end answered
`* BAD ...`: no response carries the tag `a1`, the client waits for it for ever.  After authentication the same input is
answered `a1 BAD ...` (user_server.py keeps the command object for that).

Run: copy to asimap/test/ and run pytest on it.  FAILS before the fix, PASSES after.
"""
from unittest.mock import AsyncMock, MagicMock

import pytest

from ..server import IMAPSubprocessInterface


@pytest.mark.asyncio
async def test_preauth_parse_error_is_answered_with_the_tag() -> None:
    imap_client = MagicMock()
    imap_client.push = AsyncMock()
    intf = IMAPSubprocessInterface(imap_client)
    for line, tag in ((b"a1 LOGIN onlyoneargument", "a1"), (b"b2 FROBNICATE", "b2"), (b"c3 LOGIN \"unterminated", "c3")):
        imap_client.push.reset_mock()
        assert await intf.unauthenticated(line) is True
        sent = [a.decode("latin-1") if isinstance(a, bytes) else a for c in imap_client.push.call_args_list for a in c.args]
        tagged = [x for x in sent if x.startswith(tag + " ")]
        assert len(tagged) == 1 and tagged[0].startswith(f"{tag} BAD"), f"{line!r} -> {sent}"
