"""
Demo for 59d8ece "fix: relay responses from the user process in chunks, not
CRLF by CRLF".

Runs the real relay coroutines IMAPSubprocessInterface.msgs_to_client() and
POP3SubprocessInterface.msgs_to_client() with the "connection from the user
subprocess" replaced by a fed asyncio.StreamReader that has the same limit the
production code passes to asyncio.open_connection (131072 for IMAP, the asyncio
default 65536 for POP3).
"""

import asyncio
from unittest.mock import AsyncMock, MagicMock

import pytest

from ..pop3_server import POP3Client
from ..server import IMAPClient


def _writer():
    writer = MagicMock(spec=asyncio.StreamWriter)
    writer.write = MagicMock()
    writer.drain = AsyncMock()
    writer.wait_closed = AsyncMock()
    writer.is_closing = MagicMock(return_value=False)
    writer.get_extra_info = MagicMock(return_value=("127.0.0.1", 1234))
    return writer


def _output(writer) -> bytes:
    return b"".join(c.args[0] for c in writer.write.call_args_list)


@pytest.mark.asyncio
async def test_imap_fetch_literal_without_crlf_is_relayed_whole() -> None:
    """
    The user process answers a FETCH with a 200,000 octet literal that has no
    CRLF in it (an unwrapped base64 / binary body), then the tagged OK.
    """
    client_writer = _writer()
    server = MagicMock()
    server.debug = False
    client = IMAPClient(
        server, "t:1", "127.0.0.1", 1234, asyncio.StreamReader(), client_writer
    )
    intf = client.subprocess_intf

    body = b"QUJD" * 50_000  # 200,000 octets, no CRLF
    response = (
        b"* 1 FETCH (BODY[1] {%d}\r\n" % len(body)
        + body
        + b")\r\nA001 OK FETCH command completed\r\n"
    )
    from_subprocess = asyncio.StreamReader(limit=131_072)  # as in server.py
    from_subprocess.feed_data(response)
    from_subprocess.feed_eof()
    intf.reader = from_subprocess
    intf.writer = None

    await asyncio.wait_for(intf.msgs_to_client(), timeout=10)

    out = _output(client_writer)
    assert len(out) == len(response), (len(out), len(response), out[:80])
    assert out == response


@pytest.mark.asyncio
async def test_pop3_long_message_line_is_relayed_whole() -> None:
    """
    The user process answers RETR with a message that has one line of 100,000
    octets (longer than the default stream limit of 65536.)
    """
    client_writer = _writer()
    server = MagicMock()
    server.debug = False
    client = POP3Client(
        server, "t:1", "127.0.0.1", 1234, asyncio.StreamReader(), client_writer
    )
    intf = client.subprocess_intf

    line = b"x" * 100_000
    response = (
        b"+OK 100020 octets\r\nSubject: hi\r\n\r\n" + line + b"\r\n.\r\n"
    )
    from_subprocess = asyncio.StreamReader()  # default limit, as in the code
    from_subprocess.feed_data(response)
    from_subprocess.feed_eof()
    intf.reader = from_subprocess
    intf.writer = None

    await asyncio.wait_for(intf.msgs_to_client(), timeout=10)

    out = _output(client_writer)
    assert len(out) == len(response), (len(out), len(response), out[:80])
    assert out == response
