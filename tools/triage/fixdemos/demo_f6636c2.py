"""
Demo for f6636c2 "fix: POP3 reaches the messages of its snapshot by UID".

Uses the real POP3CommandHandler on a real Mailbox (INBOX in a temp MH dir).
"""

import asyncio
from collections.abc import AsyncGenerator, Callable
from mailbox import MHMessage
from pathlib import Path
from typing import Any
from unittest.mock import AsyncMock

import pytest
import pytest_asyncio
from faker import Faker
from pytest_mock import MockerFixture

from asimap.generator import msg_as_bytes
from asimap.parse import IMAPClientCommand, IMAPCommand
from asimap.pop3_client import POP3ClientProxy, POP3CommandHandler
from asimap.pop3_parse import parse_pop3_command
from asimap.user_server import IMAPUserServer


@pytest_asyncio.fixture
async def pop3_client_proxy(
    faker: Faker, mocker: MockerFixture, imap_user_server: IMAPUserServer
) -> AsyncGenerator[Callable[..., Any]]:
    """Same as the fixture in test_pop3.py."""
    writers: list[asyncio.StreamWriter] = []

    async def _make() -> POP3ClientProxy:
        server = imap_user_server
        loop = asyncio.get_event_loop()
        devnull_writer = open("/dev/null", "wb")
        transport, protocol = await loop.connect_write_pipe(
            lambda: asyncio.streams.FlowControlMixin(loop=loop),
            devnull_writer,
        )
        writer = asyncio.StreamWriter(transport, protocol, None, loop)
        proxy = POP3ClientProxy(
            server,
            "pop3-127.0.0.1:2000",
            server.next_client_num,
            "127.0.0.1",
            2000,
            asyncio.StreamReader(),
            writer,
        )
        server.next_client_num += 1
        mocker.patch.object(proxy, "push", AsyncMock())
        writers.append(writer)
        return proxy

    yield _make
    for writer in writers:
        writer.close()


async def _pop3(handler: POP3CommandHandler, proxy: Any, line: str) -> bytes:
    proxy.push.reset_mock()
    await handler.command(parse_pop3_command(line))
    out = b""
    for args, _ in proxy.push.call_args_list:
        for d in args:
            out += d if isinstance(d, bytes) else d.encode("latin-1")
    return out


def _msg_id(mbox: Any, key: int) -> str:
    return str(mbox.get_msg(key)["Message-ID"])


@pytest.mark.asyncio
async def test_reused_msg_key_is_not_served_as_snapshot_message(
    bunch_of_email_in_folder: Callable[..., Path],
    imap_user_server: IMAPUserServer,
    pop3_client_proxy: Callable[..., Any],
    email_factory: Callable[..., Any],
    mh_folder: Callable[..., Any],
) -> None:
    """
    History: INBOX has 3 messages (keys 1,2,3 / UIDs 1,2,3). A POP3 session
    starts. Another (IMAP) session expunges the last message. A new message is
    delivered: MH gives it the freed number 3 (and it gets UID 4.) POP3 "3"
    (UIDL says UID 3) must not turn in to the new message.
    """
    bunch_of_email_in_folder(num_emails=3, folder="inbox")
    proxy = await pop3_client_proxy()
    handler = POP3CommandHandler(proxy, imap_user_server)
    await handler.init_session()
    mbox = handler.mbox
    assert mbox is not None
    assert handler.snapshot_uids == [1, 2, 3]
    old_id = _msg_id(mbox, 3)

    assert (await _pop3(handler, proxy, "UIDL 3")).startswith(b"+OK 3 3")

    # Another session expunges UID 3 (taking its turn in the command queue,
    # the same way POP3 QUIT / IMAP MOVE do.)
    #
    cmd = IMAPClientCommand("A001 MOVE")
    cmd.command = IMAPCommand.MOVE
    async with cmd.ready_and_okay(mbox):
        await mbox.expunge(uid_msg_set=[3], check_deleted=False)
    assert mbox.msg_keys == [1, 2]

    # A delivery in to the MH folder. The freed number is reused.
    #
    _, _, m_folder = mh_folder("inbox", None)
    new_msg = MHMessage(email_factory(subject="DELIVERED LATER"))
    new_msg.add_sequence("unseen")
    new_key = m_folder.add(new_msg)
    assert int(new_key) == 3
    await mbox.check_new_msgs_and_flags(optional=False)
    assert mbox.msg_keys == [1, 2, 3]
    assert mbox.uids == [1, 2, 4]
    new_id = _msg_id(mbox, 3)
    assert new_id != old_id

    # POP3 message 3 still is UID 3 as far as the POP3 client is concerned..
    #
    assert (await _pop3(handler, proxy, "UIDL 3")).startswith(b"+OK 3 3")

    retr = await _pop3(handler, proxy, "RETR 3")
    assert b"DELIVERED LATER" not in retr, retr[:300]
    assert new_id.encode() not in retr
    assert retr.startswith(b"-ERR"), retr[:100]

    top = await _pop3(handler, proxy, "TOP 3 0")
    assert b"DELIVERED LATER" not in top, top[:300]

    # ..and its size is not the size of the new message.
    #
    lst = await _pop3(handler, proxy, "LIST 3")
    new_size = len(msg_as_bytes(mbox.get_msg(3)))
    assert lst != f"+OK 3 {new_size}\r\n".encode(), lst


@pytest.mark.asyncio
async def test_snapshot_messages_after_folder_pack(
    bunch_of_email_in_folder: Callable[..., Path],
    imap_user_server: IMAPUserServer,
    pop3_client_proxy: Callable[..., Any],
) -> None:
    """
    History: INBOX has 20 messages in the files 2,4,..40. A POP3 session
    starts. The folder gets packed (the management task does this when the
    folder is gappy enough): files are now 1..20. Every POP3 message number
    must still produce the message it stood for when the session began.
    """
    bunch_of_email_in_folder(
        num_emails=20, folder="inbox", sequence=range(2, 41, 2)
    )
    proxy = await pop3_client_proxy()
    handler = POP3CommandHandler(proxy, imap_user_server)
    await handler.init_session()
    mbox = handler.mbox
    assert mbox is not None
    assert mbox.msg_keys == list(range(2, 41, 2))
    ids_at_start = [_msg_id(mbox, k) for k in mbox.msg_keys]
    uids_at_start = list(mbox.uids)

    mbox.folder_size_pack_limit = 20
    assert await mbox._pack_if_necessary() is True
    assert mbox.msg_keys == list(range(1, 21))
    assert mbox.uids == uids_at_start

    for n in (1, 2, 10, 20):
        retr = await _pop3(handler, proxy, f"RETR {n}")
        assert retr.startswith(b"+OK"), (n, retr[:100])
        assert ids_at_start[n - 1].encode() in retr, (
            f"POP3 message {n} is not the message it was when the "
            "session started"
        )
