"""
Demonstration: the `more than 10 seconds since the last resync` safeguard of Mailbox.command_can_proceed() never fires.

`last_resync` is a wall-clock reading (time.time(), it is also stored in the db); command_can_proceed() subtracted it from
time.monotonic().  The difference is about minus 1.7e9, never >= 10: a command that does not conflict with the running ones is
admitted at once however long ago the folder was last looked at.  While two sessions keep a mailbox busy with overlapping
FETCHes the management task never finds `executing_tasks` empty, never resyncs, and mail delivered meanwhile is not announced.

Run: copy to asimap/test/ and run pytest on it.  FAILS before the fix, PASSES after.
"""
import asyncio
import time

import pytest

from ..parse import IMAPClientCommand


@pytest.mark.asyncio
async def test_stale_mailbox_makes_next_command_wait_for_running_ones(mailbox_with_bunch_of_email):
    mbox = mailbox_with_bunch_of_email
    running = IMAPClientCommand("a1 FETCH 1:* (FLAGS)\r\n")
    running.parse()
    running.completed = False
    mbox.executing_tasks.append(running)
    nxt = IMAPClientCommand("b1 FETCH 1 (FLAGS)\r\n")
    nxt.parse()
    assert not mbox.would_conflict(nxt)

    # looked at the folder a moment ago: admitted beside the running FETCH
    mbox.last_resync = time.time()
    await asyncio.wait_for(mbox.command_can_proceed(nxt), 1)

    # last looked at it a minute ago: must wait until the running commands are done (so that a resync can happen)
    mbox.last_resync = time.time() - 60
    with pytest.raises(asyncio.TimeoutError):
        await asyncio.wait_for(mbox.command_can_proceed(nxt), 0.5)
    running.completed = True
    await asyncio.wait_for(mbox.command_can_proceed(nxt), 1)
