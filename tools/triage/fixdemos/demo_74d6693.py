r"""
Demo for 74d6693: a `\Noselect` placeholder mailbox that is instantiated after
a restart of the user server has no management task. Commands that name it
queue themselves on `mbox.task_queue` and wait for a task that does not exist.

History:
  - CREATE foo/bar           (creates `foo` and `foo/bar`)
  - DELETE foo               (has an inferior -> emptied, gets `\Noselect`)
  - user server restarts     (shutdown, new IMAPUserServer on the same maildir)
  - SELECT foo               -> must be answered `NO ... \Noselect` right away
  - STATUS foo (MESSAGES)    -> must be answered right away
  - DELETE foo/bar, DELETE foo -> must be answered right away
"""

import asyncio
from collections.abc import Callable
from mailbox import MH
from pathlib import Path
from unittest.mock import AsyncMock

import pytest

from ..client import Authenticated
from ..mbox import Mailbox
from ..parse import IMAPClientCommand
from ..user_server import IMAPClientProxy, IMAPUserServer
from .conftest import client_push_responses

# Way below the 120s command watchdog, way above what is needed (ms).
#
PATIENCE = 3.0


####################################################################
#
async def _make_proxy(server: IMAPUserServer, port: int) -> IMAPClientProxy:
    """
    Same thing the `imap_client_proxy` fixture does, but for a server we made
    ourselves (the fixture is tied to the `imap_user_server` fixture.)
    """
    loop = asyncio.get_event_loop()
    devnull = open("/dev/null", "wb")
    transport, protocol = await loop.connect_write_pipe(
        lambda: asyncio.streams.FlowControlMixin(loop=loop), devnull
    )
    writer = asyncio.StreamWriter(transport, protocol, None, loop)
    reader = asyncio.StreamReader()
    proxy = IMAPClientProxy(
        server,
        f"127.0.0.1:{port}",
        server.next_client_num,
        "127.0.0.1",
        port,
        reader,
        writer,
    )
    server.next_client_num += 1
    proxy.push = AsyncMock()  # type: ignore[method-assign]
    return proxy


####################################################################
#
async def _command(
    handler: Authenticated, proxy: IMAPClientProxy, line: str
) -> list[str]:
    """
    Run one IMAP command through the handler. Fail the test if no tagged
    response shows up within PATIENCE seconds.
    """
    task = asyncio.create_task(
        handler.command(IMAPClientCommand(line).parse())
    )
    done, _ = await asyncio.wait([task], timeout=PATIENCE)
    if not done:
        task.cancel()
        try:
            await task
        except asyncio.CancelledError:
            pass
        pytest.fail(
            f"`{line}` got no tagged response within {PATIENCE}s: it is "
            "queued on a mailbox that has no management task"
        )
    await task
    return [str(x) for x in client_push_responses(proxy)]


####################################################################
#
@pytest.mark.asyncio
async def test_noselect_mailbox_is_served_after_restart(
    mh_folder: Callable[..., tuple[Path, MH, MH]],
) -> None:
    (mh_dir, _, _) = mh_folder()

    # First life of the user server: make `foo` a `\Noselect` placeholder.
    #
    server = await IMAPUserServer.new(mh_dir)
    try:
        await Mailbox.create("foo/bar", server)
        await Mailbox.delete("foo", server)
        foo = await server.get_mailbox("foo")
        assert r"\Noselect" in foo.attributes
    finally:
        await server.shutdown()

    # Restart.
    #
    server = await IMAPUserServer.new(mh_dir)
    try:
        proxy = await _make_proxy(server, 40001)
        handler = Authenticated(proxy, server)

        foo = await server.get_mailbox("foo")
        assert r"\Noselect" in foo.attributes

        res = await _command(handler, proxy, "A1 SELECT foo")
        assert len(res) == 1 and res[0].startswith("A1 NO "), res

        res = await _command(handler, proxy, "A2 STATUS foo (MESSAGES)")
        assert res[-1].startswith("A2 OK"), res

        # .. and the placeholder can be got rid of once its child is gone.
        #
        res = await _command(handler, proxy, "A3 DELETE foo/bar")
        assert res[-1].startswith("A3 OK"), res
        res = await _command(handler, proxy, "A4 DELETE foo")
        assert res[-1].startswith("A4 OK"), res
        assert not (mh_dir / "foo").exists()
    finally:
        await server.shutdown()


####################################################################
#
@pytest.mark.asyncio
async def test_recreated_noselect_mailbox_has_one_mgmt_task(
    mh_folder: Callable[..., tuple[Path, MH, MH]],
) -> None:
    r"""
    Second half of the commit: CREATE of a name that is a `\Noselect`
    placeholder turns it back in to a normal mailbox. That must leave exactly
    one management task serving the mailbox's command queue, with or without a
    restart in between.
    """
    (mh_dir, _, _) = mh_folder()

    def mgmt_tasks() -> list[asyncio.Task]:
        return [
            t
            for t in asyncio.all_tasks()
            if t.get_name() == "mbox 'foo' mgmt task" and not t.done()
        ]

    for restart in (False, True):
        server = await IMAPUserServer.new(mh_dir)
        try:
            await Mailbox.create("foo/bar", server)
            await Mailbox.delete("foo", server)
            if restart:
                await server.shutdown()
                server = await IMAPUserServer.new(mh_dir)
            await Mailbox.create("foo", server)
            foo = await server.get_mailbox("foo")
            assert r"\Noselect" not in foo.attributes
            await asyncio.sleep(0.05)
            tasks = mgmt_tasks()
            assert len(tasks) == 1, (
                f"restart={restart}: {len(tasks)} management tasks are "
                "pulling commands off the queue of mailbox 'foo'"
            )
            assert tasks[0] is foo.mgmt_task

            # and it serves commands.
            #
            cmd = IMAPClientCommand("A1 STATUS foo (MESSAGES)").parse()
            async with asyncio.timeout(PATIENCE):
                async with cmd.ready_and_okay(foo):
                    pass

            # clean up for the next round
            #
            await Mailbox.delete("foo/bar", server)
            await Mailbox.delete("foo", server)
        finally:
            await server.shutdown()
        await asyncio.sleep(0.05)
        assert mgmt_tasks() == []
