"""
Demo for 2965dcb "fix: stay in sync after refusing an over-limit literal".

Drives the real front-end loop `IMAPClient.start()` with a fed
asyncio.StreamReader; the un-authenticated commands are answered by the real
PreAuthenticated handler.
"""

import asyncio
from unittest.mock import AsyncMock, MagicMock

import pytest

from ..constants import MAX_INPUT_SIZE
from ..server import IMAPClient


def _make_client(reader):
    writer = MagicMock(spec=asyncio.StreamWriter)
    writer.write = MagicMock()
    writer.drain = AsyncMock()
    writer.get_extra_info = MagicMock(return_value=("127.0.0.1", 1234))
    imap_server = MagicMock()
    imap_server.debug = False
    client = IMAPClient(
        imap_server, "test:1234", "127.0.0.1", 1234, reader, writer
    )
    return client, writer


def _output(writer) -> bytes:
    out = b""
    for call in writer.write.call_args_list:
        out += call.args[0]
    return out


@pytest.mark.asyncio
async def test_command_after_refused_sync_literal_is_answered() -> None:
    """
    A001 announces a synchronizing literal over the limit -> BAD. The client
    (which got no go-ahead) sends its next command A002 NOOP. It must be
    answered. The parent threw that line away "to drain the terminator".
    """
    reader = asyncio.StreamReader()
    client, writer = _make_client(reader)
    big = MAX_INPUT_SIZE + 1
    reader.feed_data(f"A001 APPEND INBOX {{{big}}}\r\n".encode())
    reader.feed_data(b"A002 NOOP\r\n")
    reader.feed_data(b"A003 LOGOUT\r\n")
    reader.feed_eof()

    await asyncio.wait_for(client.start(), timeout=15)
    out = _output(writer)
    assert out.count(b"BAD literal size exceeds") == 1
    assert b"A002 OK" in out, out
    assert b"A003 OK" in out, out


@pytest.mark.asyncio
async def test_octets_of_refused_nonsync_literal_are_not_commands() -> None:
    """
    A001 announces a NON-synchronizing literal over the limit, so the octets
    follow regardless. The octets contain CRLFs and something that looks like
    a LOGOUT command. They must be skipped (exactly `big` of them) and the
    command A002 that follows them must be answered. The parent dropped the
    first line of the literal and executed the second ("X001 LOGOUT").
    """
    reader = asyncio.StreamReader()
    client, writer = _make_client(reader)
    big = MAX_INPUT_SIZE + 1
    head = b"junk\r\nX001 LOGOUT\r\n"
    payload = head + b"x" * (big - len(head))
    assert len(payload) == big
    reader.feed_data(f"A001 APPEND INBOX {{{big}+}}\r\n".encode())
    reader.feed_data(payload)
    reader.feed_data(b"A002 NOOP\r\n")
    reader.feed_data(b"A003 LOGOUT\r\n")
    reader.feed_eof()

    await asyncio.wait_for(client.start(), timeout=15)
    out = _output(writer)
    assert out.count(b"BAD literal size exceeds") == 1
    assert b"X001" not in out, out[:400]
    assert b"A002 OK" in out, out[:400]
    assert b"A003 OK" in out, out[:400]
