"""
Demonstration: a UID COPY / UID MOVE that copies nothing is answered with an empty COPYUID.

`UID COPY 999 other` (no such UID: the set names no message, which is fine) was answered
`A OK [COPYUID 7  ] COPY command completed`, and UID MOVE pushed `* OK [COPYUID 7  ]`: the uid-sets of a COPYUID response
code can not be empty (RFC 4315: no COPYUID when nothing was copied).

Run: copy to asimap/test/ and run pytest on it.  FAILS before the fix, PASSES after.
"""
import re
from collections.abc import Callable
from typing import Any

import pytest

from ..client import Authenticated
from ..mbox import Mailbox
from ..parse import IMAPClientCommand
from ..user_server import IMAPUserServer


@pytest.mark.asyncio
async def test_no_copyuid_when_nothing_was_copied(
    mailbox_with_bunch_of_email: Mailbox, imap_user_server: IMAPUserServer, imap_client_proxy: Callable[..., Any]
) -> None:
    await Mailbox.create("other", imap_user_server)
    proxy = await imap_client_proxy()
    sess = Authenticated(proxy, imap_user_server)
    for line in ("A001 SELECT inbox", "A002 UID COPY 999 other", "A003 UID MOVE 998:999 other", "A004 UID COPY 1:2 other"):
        cmd = IMAPClientCommand(line)
        cmd.parse()
        await sess.command(cmd)
    sent = [a.decode("latin-1") if isinstance(a, bytes) else a for c in proxy.push.call_args_list for a in c.args]
    for line in sent:
        m = re.search(r"\[COPYUID ([^\]]*)\]", line)
        if m:
            assert re.fullmatch(r"\d+ [\d:,]+ [\d:,]+", m.group(1)), f"ill-formed COPYUID: {line!r}"
    assert any(x.startswith("A002 OK") for x in sent) and any(x.startswith("A003 OK") for x in sent)
    assert any("COPYUID" in x for x in sent if x.startswith("A004 OK"))
