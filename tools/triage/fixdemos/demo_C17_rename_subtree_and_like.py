"""RENAME into the mailbox's own subtree, and RENAME of a name containing `_` (a LIKE wildcard)."""
import os
from collections.abc import Callable
from typing import Any

import pytest

from ..mbox import Mailbox
from ..parse import IMAPClientCommand
from ..user_server import IMAPUserServer
from .conftest import client_push_responses


async def run_cmd(proxy: Any, line: str) -> list[str]:
    cmd = IMAPClientCommand(line)
    cmd.parse()
    try:
        await proxy.cmd_processor.command(cmd)
    except Exception:
        pass
    return [x if isinstance(x, str) else str(x, "latin-1") for x in client_push_responses(proxy)]


async def listing(proxy) -> list[str]:
    return sorted(x.strip() for x in await run_cmd(proxy, 'L LIST "" "*"') if x.startswith("* LIST"))


@pytest.mark.asyncio
async def test_rename_into_own_subtree_is_refused_cleanly(imap_user_server: IMAPUserServer, imap_client_proxy: Callable[..., Any]) -> None:
    a = await imap_client_proxy()
    await run_cmd(a, "A1 CREATE top")
    await run_cmd(a, "A2 CREATE top/kid")
    before = await listing(a)
    res = await run_cmd(a, "A3 RENAME top top/inside")
    assert not res[-1].startswith("A3 OK"), res
    assert await listing(a) == before, "a refused RENAME changed the mailbox list"


@pytest.mark.asyncio
async def test_rename_does_not_drag_other_mailboxes(imap_user_server: IMAPUserServer, imap_client_proxy: Callable[..., Any]) -> None:
    a = await imap_client_proxy()
    for n, name in enumerate(("a_b", "axb", "axb/c")):
        await run_cmd(a, f"C{n} CREATE {name}")
    res = await run_cmd(a, "A3 RENAME a_b q")
    assert res[-1].startswith("A3 OK"), res
    names = [x.split(' "/" ')[1].strip('"') for x in await listing(a)]
    assert "axb/c" in names and "q/c" not in names, names
