"""MOVE pushes its own EXPUNGEs directly (idling trick) while older EXPUNGEs of another session are still queued."""
import asyncio
import re
from collections.abc import Callable
from pathlib import Path
from typing import Any

import pytest

from ..parse import IMAPClientCommand
from ..user_server import IMAPUserServer
from .conftest import client_push_responses

EXISTS_RE = re.compile(r"^\* (\d+) EXISTS$")
EXPUNGE_RE = re.compile(r"^\* (\d+) EXPUNGE$")


async def run_cmd(proxy: Any, line: str) -> list[str]:
    cmd = IMAPClientCommand(line)
    cmd.parse()
    await proxy.cmd_processor.command(cmd)
    return [x if isinstance(x, str) else str(x, "latin-1") for x in client_push_responses(proxy)]


def replay(view, lines, server_uids):
    for line in lines:
        line = line.strip()
        if m := EXISTS_RE.match(line):
            view.extend(server_uids[len(view): int(m.group(1))])
        elif m := EXPUNGE_RE.match(line):
            n = int(m.group(1))
            assert 1 <= n <= len(view), f"EXPUNGE {n} outside view {view}"
            del view[n - 1]


@pytest.mark.asyncio
async def test_move_keeps_expunge_order(bunch_of_email_in_folder: Callable[..., Path], imap_user_server: IMAPUserServer, imap_client_proxy: Callable[..., Any]) -> None:
    bunch_of_email_in_folder(num_emails=10)
    bunch_of_email_in_folder(folder="Archive", num_emails=1)
    server = imap_user_server
    mbox = await server.get_mailbox("inbox")
    a = await imap_client_proxy()
    b = await imap_client_proxy()
    view_a: list[int] = []
    replay(view_a, await run_cmd(a, "A1 SELECT inbox"), mbox.uids)
    await run_cmd(b, "B1 SELECT inbox")
    await run_cmd(b, r"B2 STORE 2 +FLAGS (\Deleted)")
    replay(view_a, await run_cmd(a, "A2 NOOP"), mbox.uids)
    assert view_a == mbox.uids

    gate = asyncio.Event()
    entered = asyncio.Event()

    async def slow_push(*data):
        if any("COPYUID" in (d if isinstance(d, str) else "") for d in data) and not entered.is_set():
            entered.set()
            await gate.wait()

    a.push.side_effect = slow_push
    task_a = asyncio.create_task(run_cmd(a, "A3 MOVE 5 Archive"))
    await entered.wait()  # copy phase done, removal phase not begun
    res_b = await run_cmd(b, "B3 EXPUNGE")
    assert res_b[-1].startswith("B3 OK")
    gate.set()
    res_a = await task_a
    a.push.side_effect = None
    print(res_a)
    replay(view_a, res_a, mbox.uids)
    replay(view_a, await run_cmd(a, "A4 NOOP"), mbox.uids)
    assert len(mbox.uids) == 8
    assert view_a == mbox.uids, f"session A's view {view_a} differs from the server's {mbox.uids}"
