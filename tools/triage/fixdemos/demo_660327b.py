"""
Demo for 660327b: the management task resolves a command's message set to
message sequence numbers *before* the command waits behind a conflicting
command. If that conflicting command is another session's EXPUNGE the numbers
are stale when the command finally runs: `UID FETCH 5` returns the data of a
different UID.

History:
  - inbox has 6 messages, UIDs 1..6; sessions A and B both SELECT it.
  - A: STORE 2 +FLAGS.SILENT (\\Deleted)
  - A: EXPUNGE            (held open while executing - it is slow disk I/O)
  - B: UID FETCH 5 (UID)  (queued while A's EXPUNGE is executing)
  - A's EXPUNGE finishes, B's UID FETCH runs.
B must be told about UID 5 and nothing else.
"""

import asyncio
import re
from collections.abc import Callable
from pathlib import Path
from typing import Any

import pytest

from ..client import Authenticated
from ..parse import IMAPClientCommand
from ..user_server import IMAPUserServer
from .conftest import client_push_responses


####################################################################
#
async def _wait_for(pred: Callable[[], bool], what: str) -> None:
    async with asyncio.timeout(5):
        while not pred():
            await asyncio.sleep(0.005)
    assert pred(), what


####################################################################
#
@pytest.mark.asyncio
async def test_uid_fetch_queued_behind_expunge_fetches_the_right_uid(
    bunch_of_email_in_folder: Callable[..., Path],
    imap_user_server: IMAPUserServer,
    imap_client_proxy: Callable[..., Any],
) -> None:
    server = imap_user_server
    bunch_of_email_in_folder(num_emails=6, folder="inbox")
    mbox = await server.get_mailbox("inbox")
    assert mbox.uids == [1, 2, 3, 4, 5, 6]

    proxy_a = await imap_client_proxy()
    proxy_b = await imap_client_proxy()
    sess_a = Authenticated(proxy_a, server)
    sess_b = Authenticated(proxy_b, server)

    async def run(sess: Authenticated, line: str) -> IMAPClientCommand:
        cmd = IMAPClientCommand(line).parse()
        await sess.command(cmd)
        return cmd

    await run(sess_a, "A1 SELECT INBOX")
    await run(sess_b, "B1 SELECT INBOX")
    await run(sess_a, r"A2 STORE 2 +FLAGS.SILENT (\Deleted)")
    # B picks up the flag change notification with a NOOP so nothing is
    # pending for it.
    await run(sess_b, "B2 NOOP")
    client_push_responses(proxy_a)
    client_push_responses(proxy_b)

    # What UID 5 looks like while nothing else is going on.
    #
    await run(sess_b, "B2a UID FETCH 5 (UID RFC822.SIZE)")
    quiet = [str(x) for x in client_push_responses(proxy_b)]
    m = re.search(r"\* 5 FETCH \(UID 5 RFC822\.SIZE (\d+)\)", quiet[0])
    assert m, quiet
    size_of_uid_5 = int(m.group(1))

    # Hold A's EXPUNGE open while it is the executing command of the mailbox
    # (the real expunge awaits file removal per message, so it really does
    # stay "executing" across event loop iterations.)
    #
    expunge_running = asyncio.Event()
    let_expunge_go = asyncio.Event()
    real_expunge = mbox.expunge

    async def slow_expunge(*args: Any, **kwargs: Any) -> None:
        expunge_running.set()
        await let_expunge_go.wait()
        await real_expunge(*args, **kwargs)

    mbox.expunge = slow_expunge  # type: ignore[method-assign]
    try:
        a_expunge = asyncio.create_task(run(sess_a, "A3 EXPUNGE"))
        async with asyncio.timeout(5):
            await expunge_running.wait()

        # B's UID FETCH arrives now. The management task takes it off the
        # queue and then has it wait for the EXPUNGE to finish.
        #
        b_cmd = IMAPClientCommand("B3 UID FETCH 5 (UID RFC822.SIZE)").parse()
        b_fetch = asyncio.create_task(sess_b.command(b_cmd))
        await _wait_for(
            lambda: mbox.task_queue.empty() and not b_cmd.ready.is_set(),
            "mgmt task is holding B's UID FETCH behind the EXPUNGE",
        )
        await asyncio.sleep(0.05)
        assert not b_cmd.ready.is_set()
        assert not b_fetch.done()

        let_expunge_go.set()
        async with asyncio.timeout(10):
            await a_expunge
            await b_fetch
    finally:
        mbox.expunge = real_expunge  # type: ignore[method-assign]

    assert mbox.uids == [1, 3, 4, 5, 6]
    a_results = client_push_responses(proxy_a)
    assert "* 2 EXPUNGE" in a_results
    assert a_results[-1].startswith("A3 OK")

    b_results = [
        x.decode("latin-1") if isinstance(x, bytes) else x
        for x in client_push_responses(proxy_b)
    ]
    assert b_results[-1].startswith("B3 OK"), b_results
    fetches = [x for x in b_results if " FETCH (" in x]
    assert len(fetches) == 1, b_results
    m = re.search(r"\bUID (\d+)", fetches[0])
    assert m, fetches
    # The one thing asked for was UID 5.
    #
    assert int(m.group(1)) == 5, (
        f"asked for `UID FETCH 5`, got the data of UID {m.group(1)}: "
        f"{fetches[0]!r}"
    )
    m = re.search(r"RFC822\.SIZE (\d+)", fetches[0])
    assert m and int(m.group(1)) == size_of_uid_5
    # After the expunge of seq 2, UID 5 is message sequence number 4.
    #
    assert fetches[0].startswith("* 4 FETCH ")
