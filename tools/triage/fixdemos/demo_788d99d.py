"""
Demo for 788d99d: `IMAPUserServer.get_mailbox()` parks an asyncio.Event in
`activating_mailboxes[name]` while it instantiates the mailbox. If
`Mailbox.new()` raises, the event is neither set nor removed, so every later
command that names this mailbox waits on it (until the 120s command watchdog).

History:
  - folder `broken` has 2 messages and a malformed `.mh_sequences`
  - A1 STATUS broken (MESSAGES)   -> activation fails, command is refused
  - (someone repairs `.mh_sequences`)
  - A2 STATUS broken (MESSAGES)   -> must be answered, with 2 messages
"""

import asyncio
from collections.abc import Callable
from pathlib import Path

import pytest

from ..client import Authenticated
from ..exceptions import MailboxInconsistency
from ..parse import IMAPClientCommand
from ..user_server import IMAPClientProxy, IMAPUserServer
from .conftest import client_push_responses

PATIENCE = 5.0


####################################################################
#
async def _command(
    handler: Authenticated, proxy: IMAPClientProxy, line: str
) -> list[str]:
    task = asyncio.create_task(
        handler.command(IMAPClientCommand(line).parse())
    )
    done, _ = await asyncio.wait([task], timeout=PATIENCE)
    if not done:
        task.cancel()
        try:
            await task
        except asyncio.CancelledError:
            pass
        pytest.fail(
            f"`{line}` got no tagged response within {PATIENCE}s: it waits on "
            "the activation event of an activation that failed long ago"
        )
    # NOTE: `command()` answers BAD for an unexpected exception and then
    #       re-raises it. We only care about what the client was told.
    #
    try:
        await task
    except MailboxInconsistency:
        pass
    return [str(x) for x in client_push_responses(proxy)]


####################################################################
#
@pytest.mark.asyncio
async def test_failed_activation_does_not_wedge_the_mailbox(
    bunch_of_email_in_folder: Callable[..., Path],
    imap_user_server_and_client: tuple[IMAPUserServer, IMAPClientProxy],
) -> None:
    server, proxy = imap_user_server_and_client
    handler = Authenticated(proxy, server)

    mh_dir = bunch_of_email_in_folder(num_emails=2, folder="broken")
    mh_seq = mh_dir / "broken" / ".mh_sequences"
    mh_seq.write_text("unseen: 1-x\n")

    # First command: the activation of `broken` fails. Whatever the exact
    # wording, the command is refused (and promptly.)
    #
    res = await _command(handler, proxy, "A1 STATUS broken (MESSAGES)")
    assert len(res) == 1, res
    assert res[0].startswith(("A1 NO", "A1 BAD")), res
    assert "broken" not in server.active_mailboxes

    # The file is repaired. The mailbox must be usable now.
    #
    mh_seq.write_text("unseen: 1-2\n")
    res = await _command(handler, proxy, "A2 STATUS broken (MESSAGES)")
    assert res == [
        '* STATUS "broken" (MESSAGES 2)',
        "A2 OK STATUS command completed",
    ], res
    assert "broken" not in server.activating_mailboxes


####################################################################
#
@pytest.mark.asyncio
async def test_failed_activation_releases_concurrent_waiters(
    bunch_of_email_in_folder: Callable[..., Path],
    imap_user_server: IMAPUserServer,
) -> None:
    """
    Two requests for the mailbox at the same time: one does the activation,
    the other waits on the event. When the activation fails both must get an
    exception, neither may hang.
    """
    server = imap_user_server
    mh_dir = bunch_of_email_in_folder(num_emails=2, folder="broken")
    (mh_dir / "broken" / ".mh_sequences").write_text("unseen: 1-x\n")

    first = asyncio.create_task(server.get_mailbox("broken"))
    second = asyncio.create_task(server.get_mailbox("broken"))
    done, pending = await asyncio.wait([first, second], timeout=PATIENCE)
    for t in pending:
        t.cancel()
    await asyncio.gather(*pending, return_exceptions=True)
    assert not pending, "a get_mailbox('broken') is still waiting"
    assert first.exception() is not None
    assert second.exception() is not None
