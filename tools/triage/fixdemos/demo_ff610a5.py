"""
Demo for ff610a5: the expansion of a UID range must be bounded by the size
of the mailbox, not by the numbers the client chose to write.

`UID FETCH 1:4294967295 FLAGS` is a perfectly legal way of writing
`UID FETCH 1:* FLAGS` (RFC 3501: a UID range names whatever messages exist in
it). On the parent revision `sequence_set_to_list()` is handed the raw range and
builds a python list with one element per *number* of the range, synchronously,
in the mailbox's management task. We do not allocate gigabytes here: we use
moderately large ranges (a few million) and observe

  * the length of the lists `sequence_set_to_list()` returns to mbox.py /
    search.py while real commands are being handled (must be bounded by the
    number of messages in the mailbox: 20) and
  * the CPU time the range -> message set conversion takes.
"""

import time
from typing import Any

import pytest

from .. import mbox as mbox_module
from .. import search as search_module
from ..client import Authenticated
from ..mbox import Mailbox
from ..parse import IMAPClientCommand
from ..user_server import IMAPClientProxy, IMAPUserServer
from .conftest import client_push_responses

BIG = 3_000_000


def _instrument(monkeypatch: pytest.MonkeyPatch) -> list[int]:
    """
    Wrap the `sequence_set_to_list` that mbox.py and search.py call so that
    we can see how long the lists are that it produces for them.
    """
    lengths: list[int] = []

    def wrap(module: Any) -> None:
        real = module.sequence_set_to_list

        def spy(*args: Any, **kwargs: Any) -> list[int]:
            result = real(*args, **kwargs)
            lengths.append(len(result))
            return result

        monkeypatch.setattr(module, "sequence_set_to_list", spy)

    wrap(mbox_module)
    wrap(search_module)
    return lengths


def _b(x: Any) -> bytes:
    return x if isinstance(x, bytes) else str(x).encode()


async def _run(
    handler: Authenticated, client: IMAPClientProxy, line: str
) -> list[Any]:
    cmd = IMAPClientCommand(line)
    cmd.parse()
    await handler.command(cmd)
    return client_push_responses(client)


@pytest.mark.asyncio
async def test_uid_fetch_huge_range_work_is_bounded_by_mailbox(
    monkeypatch: pytest.MonkeyPatch,
    mailbox_with_bunch_of_email: Mailbox,
    imap_user_server_and_client: tuple[IMAPUserServer, IMAPClientProxy],
) -> None:
    server, client = imap_user_server_and_client
    mbox = mailbox_with_bunch_of_email
    handler = Authenticated(client, server)
    await _run(handler, client, "A000 SELECT INBOX")
    num_msgs = len(mbox.uids)
    assert num_msgs == 20

    lengths = _instrument(monkeypatch)

    # UID FETCH
    #
    results = await _run(handler, client, f"A001 UID FETCH 1:{BIG} FLAGS")
    assert results[-1] == "A001 OK FETCH command completed"
    fetches = [r for r in results if b" UID " in _b(r)]
    assert len(fetches) == num_msgs  # the answer itself is right
    assert lengths, "sequence_set_to_list was not reached"
    assert max(lengths) <= num_msgs, (
        f"UID FETCH 1:{BIG} built a list of {max(lengths)} numbers for a "
        f"mailbox of {num_msgs} messages"
    )

    # `n:*` with n above the largest uid still names the last message
    #
    results = await _run(handler, client, f"A002 UID FETCH {BIG}:* FLAGS")
    assert results[-1] == "A002 OK FETCH command completed"
    fetches = [r for r in results if b" UID " in _b(r)]
    assert len(fetches) == 1
    assert f"UID {mbox.uids[-1]})".encode() in _b(fetches[0])
    assert max(lengths) <= num_msgs

    # A range entirely above the uids names nothing
    #
    results = await _run(
        handler, client, f"A003 UID FETCH {BIG}:{2 * BIG} FLAGS"
    )
    assert [r for r in results if r] == ["A003 OK FETCH command completed"]
    assert max(lengths) <= num_msgs


@pytest.mark.asyncio
async def test_uid_search_and_copy_huge_range_bounded(
    monkeypatch: pytest.MonkeyPatch,
    mailbox_with_bunch_of_email: Mailbox,
    imap_user_server_and_client: tuple[IMAPUserServer, IMAPClientProxy],
) -> None:
    server, client = imap_user_server_and_client
    mbox = mailbox_with_bunch_of_email
    handler = Authenticated(client, server)
    await Mailbox.create("dest", server)
    await _run(handler, client, "A000 SELECT INBOX")
    num_msgs = len(mbox.uids)

    lengths = _instrument(monkeypatch)

    # SEARCH with a UID set as search key
    #
    results = await _run(handler, client, f"A001 UID SEARCH UID 1:{BIG}")
    assert results[-1] == "A001 OK SEARCH command completed"
    assert results[0] == "* SEARCH " + " ".join(str(u) for u in mbox.uids)
    assert max(lengths) <= num_msgs, (
        f"UID SEARCH UID 1:{BIG} built a list of {max(lengths)} numbers"
    )

    # UID COPY
    #
    del lengths[:]
    results = await _run(handler, client, f"A002 UID COPY 1:{BIG} dest")
    assert results[-1].startswith("A002 OK")
    assert max(lengths) <= num_msgs, (
        f"UID COPY 1:{BIG} built a list of {max(lengths)} numbers"
    )
    dest = await server.get_mailbox("dest")
    assert len(dest.uids) == num_msgs


@pytest.mark.asyncio
async def test_uid_range_conversion_time_does_not_grow_with_range(
    mailbox_with_bunch_of_email: Mailbox,
) -> None:
    """
    The time bound: resolving `1:3000000` and `1:*` against 20 messages must
    both be quick. (CPU time of this process so that load from other
    processes does not disturb the measurement.)
    """
    mbox = mailbox_with_bunch_of_email
    expected = set(range(1, len(mbox.uids) + 1))

    start = time.process_time()
    result = mbox.msg_set_to_msg_seq_set(((1, "*"),), from_uids=True)
    small = time.process_time() - start
    assert result == expected

    start = time.process_time()
    result = mbox.msg_set_to_msg_seq_set(((1, BIG),), from_uids=True)
    big = time.process_time() - start
    assert result == expected

    assert big < 0.05 + 20 * small, (
        f"resolving 1:{BIG} took {big:.3f}s of cpu, 1:* took {small:.6f}s"
    )
