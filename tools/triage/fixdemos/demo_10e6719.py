r"""
Demo for 10e6719: the names of the system flags are case-insensitive
(RFC 3501 section 9: "all alphabetic characters are case-insensitive" and
`flag = "\Answered" / "\Flagged" / "\Deleted" / "\Seen" / "\Draft" / ...`).

On the parent revision `STORE 1 +FLAGS (\seen)` does not mark the message as
seen: it makes up a new flag called `\seen` (an MH sequence of that name) and
the message is still reported without `\Seen` and still found by
`SEARCH UNSEEN`. `STORE 1 +FLAGS (\RECENT)` is accepted although `\Recent`
can not be changed by a client.
"""

from typing import Any

import pytest

from ..client import Authenticated
from ..mbox import Mailbox
from ..parse import IMAPClientCommand
from ..user_server import IMAPClientProxy, IMAPUserServer
from .conftest import client_push_responses


@pytest.mark.parametrize(
    "spelling,canonical",
    [
        (r"\seen", r"\Seen"),
        (r"\SEEN", r"\Seen"),
        (r"\aNsWeReD", r"\Answered"),
        (r"\deleted", r"\Deleted"),
        (r"\DRAFT", r"\Draft"),
        (r"\flagged", r"\Flagged"),
        (r"\Seen", r"\Seen"),
    ],
)
def test_parser_hands_on_canonical_system_flag(
    spelling: str, canonical: str
) -> None:
    cmd = IMAPClientCommand(f"A1 STORE 1 +FLAGS ({spelling} foo)\r\n").parse()
    assert cmd.flag_list == [canonical, "foo"]
    cmd = IMAPClientCommand(f"A1 STORE 1 FLAGS {spelling}\r\n").parse()
    assert cmd.flag_list == [canonical]
    cmd = IMAPClientCommand(
        f"A1 APPEND inbox ({spelling}) {{3}}\r\nabc\r\n"
    ).parse()
    assert cmd.flag_list == [canonical]


async def _run(
    handler: Authenticated, client: IMAPClientProxy, line: str
) -> list[Any]:
    cmd = IMAPClientCommand(line)
    cmd.parse()
    await handler.command(cmd)
    return [
        r.decode("latin-1") if isinstance(r, bytes) else r
        for r in client_push_responses(client)
    ]


@pytest.mark.asyncio
async def test_store_lower_case_seen_marks_message_seen(
    mailbox_with_bunch_of_email: Mailbox,
    imap_user_server_and_client: tuple[IMAPUserServer, IMAPClientProxy],
) -> None:
    server, client = imap_user_server_and_client
    mbox = mailbox_with_bunch_of_email
    handler = Authenticated(client, server)
    await _run(handler, client, "A0 SELECT INBOX")

    results = await _run(handler, client, r"A1 STORE 1 +FLAGS (\seen)")
    assert results[-1] == "A1 OK STORE command completed"
    assert results[0] == r"* 1 FETCH (FLAGS (\Recent \Seen))", results

    # The message is seen as far as the rest of the server is concerned
    #
    results = await _run(handler, client, "A2 SEARCH SEEN")
    assert results[0] == "* SEARCH 1", results
    results = await _run(handler, client, "A3 FETCH 1 FLAGS")
    assert r"\Seen" in results[0] and r"\seen" not in results[0], results

    # No MH sequence with a backslash in its name was made up
    #
    assert not [s for s in mbox.sequences if s.startswith("\\")], (
        mbox.sequences.keys()
    )
    assert r"\seen" not in mbox.mailbox.get_sequences()

    # .. and `-FLAGS (\SEEN)` undoes it.
    #
    results = await _run(handler, client, r"A4 STORE 1 -FLAGS.SILENT (\SEEN)")
    assert results == ["A4 OK STORE command completed"]
    results = await _run(handler, client, "A5 SEARCH SEEN")
    assert results[0] == "* SEARCH", results


@pytest.mark.asyncio
async def test_store_upper_case_recent_is_refused(
    mailbox_with_bunch_of_email: Mailbox,
    imap_user_server_and_client: tuple[IMAPUserServer, IMAPClientProxy],
) -> None:
    server, client = imap_user_server_and_client
    _ = mailbox_with_bunch_of_email
    handler = Authenticated(client, server)
    await _run(handler, client, "A0 SELECT INBOX")

    # Control: the canonical spelling is refused on both revisions
    #
    results = await _run(handler, client, r"A1 STORE 1 +FLAGS (\Recent)")
    assert results[-1].startswith("A1 NO"), results

    results = await _run(handler, client, r"A2 STORE 1 +FLAGS (\RECENT)")
    assert results[-1].startswith("A2 NO"), results
