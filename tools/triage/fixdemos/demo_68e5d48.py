"""
Demo for 68e5d48: a literal whose octet count has more digits than `int()`
converts (> 4300) must be refused like any other over-limit literal (`BAD`),
not end the connection without a reply.

We run the real front-end read loop, `IMAPClient.start()`, over a
StreamReader we feed ourselves (same technique as
test_server.py::TestIMAPClientInputLimits).
"""

import asyncio
from unittest.mock import AsyncMock, MagicMock

import pytest

from ..server import IMAPClient


def _make_imap_client(
    reader: asyncio.StreamReader,
) -> tuple[IMAPClient, AsyncMock]:
    writer = MagicMock(spec=asyncio.StreamWriter)
    writer.write = MagicMock()
    writer.drain = AsyncMock()

    imap_server = MagicMock()
    imap_server.debug = False

    client = IMAPClient(
        imap_server, "test:1234", "127.0.0.1", 1234, reader, writer
    )
    push_mock = AsyncMock()
    client.push = push_mock  # type: ignore[method-assign]
    return client, push_mock


def _pushed(push_mock: AsyncMock) -> list[bytes]:
    messages: list[bytes] = []
    for call in push_mock.call_args_list:
        for arg in call.args:
            messages.append(
                arg if isinstance(arg, bytes) else arg.encode("latin-1")
            )
    return messages


@pytest.mark.asyncio
@pytest.mark.parametrize("digits", [4301, 5000, 20000])
async def test_literal_count_with_too_many_digits_gets_bad(digits: int) -> None:
    reader = asyncio.StreamReader(limit=131_072)  # as the real server
    client, push_mock = _make_imap_client(reader)

    count = "9" * digits
    reader.feed_data(f"A001 LOGIN {{{count}}}\r\n".encode())
    # The client got BAD instead of a go-ahead: it carries on with another
    # command. The connection must still be there to take it.
    #
    reader.feed_data(b"A002 LOGOUT\r\n")
    reader.feed_eof()

    await asyncio.wait_for(client.start(), timeout=30)

    messages = [m for m in _pushed(push_mock) if not m.startswith(b"* OK")]

    # No go-ahead for the literal, a BAD for it.
    #
    assert messages, "connection was ended without any reply"
    assert not any(m.startswith(b"+") for m in messages), messages
    assert b"BAD" in messages[0] and b"literal size" in messages[0], messages

    # .. and the next command was read and handled.
    #
    rest = b"".join(messages[1:])
    assert b"BYE" in rest and b"A002 OK" in rest, messages


@pytest.mark.asyncio
async def test_ordinary_oversized_literal_unchanged() -> None:
    """
    Control: what an over-limit count that int() can convert gets. Passes
    before and after; the case above must look the same to the client.
    """
    reader = asyncio.StreamReader()
    client, push_mock = _make_imap_client(reader)
    reader.feed_data(b"A001 LOGIN {99999999999}\r\n")
    reader.feed_data(b"A002 LOGOUT\r\n")
    reader.feed_eof()
    await asyncio.wait_for(client.start(), timeout=30)
    messages = [m for m in _pushed(push_mock) if not m.startswith(b"* OK")]
    assert b"BAD" in messages[0] and b"literal size" in messages[0]
    rest = b"".join(messages[1:])
    assert b"BYE" in rest and b"A002 OK" in rest, messages
