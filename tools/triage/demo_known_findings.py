#!/venv/bin/python
"""Triage aid (never part of a registered check): shows the two recorded known findings against the real code.
run:  cd /repo && /venv/bin/python /verif/tools/triage/demo_known_findings.py
"""
import sys, time
sys.path.insert(0, "/repo")
from asimap.parse import IMAPClientCommand
from asimap.utils import sequence_set_to_list

# C08 R8.2: trailing text after a complete command is accepted
c = IMAPClientCommand("a NOOP garbage")
c.parse()
print("R8.2: 'a NOOP garbage' parsed as", c.command, "- unparsed remainder:", repr(c.input))
assert c.input == " garbage"

# C06/C15 R6.6: UID ranges expand without bound (mailbox with 3 messages, last UID 3)
t = time.time()
l = sequence_set_to_list(((1, 20_000_000),), 3, uid_cmd=True)
print(f"R6.6: UID set 1:20000000 on a mailbox whose last UID is 3 -> list of {len(l)} elements in {time.time()-t:.1f}s")
assert len(l) == 20_000_000
