#!/usr/bin/env python
#
"""
Demo: a POP3 reader that is not queued behind an expunge sees the stale
`Mailbox._uid_to_idx` reverse index while `Mailbox.expunge()` is suspended in
its removal loop, and is handed ANOTHER message (or an IndexError).

Copy into asimap/test/ and run:

  /venv/bin/python -m pytest -q -p no:cacheprovider asimap/test/demo_pop3_race.py

The only thing that is patched is `mbox.mailbox.aremove`: the real one is
still called, the wrapper only decides *when* the other task gets to run (the
real `aremove` goes through aiofiles' thread pool so the expunge really is
suspended there, the wrapper just makes the interleaving deterministic).
"""

# system imports
#
import asyncio
from collections.abc import Callable
from pathlib import Path
from typing import Any
from unittest.mock import AsyncMock

# 3rd party imports
#
import pytest

# Project imports
#
from ..generator import get_msg_size, msg_as_bytes
from ..mbox import Mailbox
from ..pop3_client import POP3CommandHandler
from ..pop3_parse import parse_pop3_command
from ..user_server import IMAPUserServer

NUM_EMAILS = 6


########################################################################
#
class StubPOP3Proxy:
    """`POP3CommandHandler` only ever calls `client.push()`."""

    def __init__(self) -> None:
        self.push = AsyncMock()

    def responses(self) -> list[bytes]:
        res: list[bytes] = []
        for args, _ in self.push.call_args_list:
            for d in args:
                res.append(d if isinstance(d, bytes) else d.encode("latin-1"))
        self.push.reset_mock()
        return res


########################################################################
#
def truth(mbox: Mailbox) -> dict[int, bytes]:
    """uid -> the message that uid really names (taken while quiescent)."""
    return {uid: msg_as_bytes(mbox.get_msg_by_uid(uid)) for uid in mbox.uids}


########################################################################
#
def probe(
    mbox: Mailbox, uids: list[int], expected: dict[int, bytes]
) -> dict[int, str]:
    """Look up every uid like POP3 does and say what came back."""
    report: dict[int, str] = {}
    for pos, uid in enumerate(uids):
        try:
            got = msg_as_bytes(mbox.get_msg_by_uid(uid))
        except (KeyError, FileNotFoundError) as exc:
            report[uid] = f"gone ({type(exc).__name__})"
        except IndexError:
            report[uid] = "IndexError"
        else:
            if got == expected[uid]:
                report[uid] = "ok"
            else:
                other = [u for u, m in expected.items() if m == got]
                report[uid] = f"WRONG: got the message of uid {other}"
        print(f"pos {pos} uid {uid}: {report[uid]}")
    return report


########################################################################
#
def suspend_expunge_after_first_remove(
    mbox: Mailbox,
) -> tuple[asyncio.Event, asyncio.Event]:
    """
    Wrap the real `aremove`: after the FIRST message file has been removed
    the expunge stays suspended (exactly where it awaits anyway) until the
    `resume` event is set. `suspended` tells the other task it may go.
    """
    suspended = asyncio.Event()
    resume = asyncio.Event()
    orig_aremove = mbox.mailbox.aremove
    calls = 0

    async def aremove(key: int) -> None:
        nonlocal calls
        calls += 1
        await orig_aremove(key)
        if calls == 1:
            suspended.set()
            await resume.wait()

    mbox.mailbox.aremove = aremove  # type: ignore[method-assign]
    return suspended, resume


########################################################################
#
@pytest.mark.asyncio
async def test_get_msg_by_uid_during_expunge(
    bunch_of_email_in_folder: Callable[..., Path],
    imap_user_server: IMAPUserServer,
) -> None:
    """
    GIVEN: an inbox with 6 messages
    WHEN:  the 2nd one is being expunged and the expunge is suspended in
           `aremove` (its index dicts are not rebuilt yet)
    THEN:  every surviving UID must still name its own message
    """
    bunch_of_email_in_folder(num_emails=NUM_EMAILS, folder="inbox")
    mbox = await imap_user_server.get_mailbox("inbox")
    expected = truth(mbox)
    uids = list(mbox.uids)
    victim = uids[1]

    suspended, resume = suspend_expunge_after_first_remove(mbox)
    expunge = asyncio.create_task(
        mbox.expunge(uid_msg_set=[victim], check_deleted=False)
    )
    await suspended.wait()

    # The expunge is suspended. Look up every uid like POP3 does.
    #
    report = probe(mbox, uids, expected)
    print("report:", report)

    resume.set()
    await expunge

    # Once the expunge is done everything is consistent again.
    #
    for uid in uids:
        if uid != victim:
            assert msg_as_bytes(mbox.get_msg_by_uid(uid)) == expected[uid]

    # The expunged message is gone, every other uid names its own message.
    #
    want = {u: "ok" for u in uids}
    want[victim] = "gone (KeyError)"
    assert report == want


########################################################################
#
@pytest.mark.asyncio
async def test_get_msg_by_uid_during_expunge_nothing_patched(
    bunch_of_email_in_folder: Callable[..., Path],
    imap_user_server: IMAPUserServer,
) -> None:
    """
    Same as above with NOTHING patched: the real `aremove` hands the work to
    aiofiles' thread pool, so the expunge task really is suspended with its
    lists shortened and its index dicts stale, and any other task runs.
    """
    bunch_of_email_in_folder(num_emails=NUM_EMAILS, folder="inbox")
    mbox = await imap_user_server.get_mailbox("inbox")
    expected = truth(mbox)
    uids = list(mbox.uids)
    victim = uids[1]

    expunge = asyncio.create_task(
        mbox.expunge(uid_msg_set=[victim], check_deleted=False)
    )
    report = None
    while not expunge.done():
        await asyncio.sleep(0)
        if len(mbox.uids) < NUM_EMAILS and not expunge.done():
            report = probe(mbox, uids, expected)
            break
    await expunge
    assert report is not None, "never saw the expunge suspended mid-loop"
    print("report:", report)
    want = {u: "ok" for u in uids}
    # NOTE: whether the file is already gone or not when we look, the
    #       expunged uid must not name somebody else's message.
    #
    assert not report.pop(victim).startswith("WRONG")
    del want[victim]
    assert report == want


########################################################################
#
@pytest.mark.asyncio
async def test_pop3_retr_while_other_pop3_session_quits(
    bunch_of_email_in_folder: Callable[..., Path],
    imap_user_server: IMAPUserServer,
) -> None:
    """
    GIVEN: two POP3 sessions on the same inbox; session B did `DELE 2`
    WHEN:  session B's QUIT (which waits its turn in the mailbox's command
           queue, like IMAP EXPUNGE/MOVE) is suspended in `aremove` and
           session A does RETR 4 / TOP 3 0 / LIST 5 / RETR 6 (last message)
    THEN:  session A gets message 4, the headers of 3, the size of 5 and
           message 6 - not their neighbours, and no exception
    """
    bunch_of_email_in_folder(num_emails=NUM_EMAILS, folder="inbox")
    proxy_a, proxy_b = StubPOP3Proxy(), StubPOP3Proxy()
    sess_a = POP3CommandHandler(proxy_a, imap_user_server)  # type: ignore
    sess_b = POP3CommandHandler(proxy_b, imap_user_server)  # type: ignore
    await sess_a.init_session()
    await sess_b.init_session()
    mbox = sess_a.mbox
    assert mbox is not None and mbox is sess_b.mbox
    expected = truth(mbox)
    sizes = {
        uid: get_msg_size(mbox.get_msg_by_uid(uid)) for uid in mbox.uids
    }
    # All messages are different, and so are (we check) the sizes of 5 & 6.
    #
    assert len(set(expected.values())) == NUM_EMAILS

    suspended, resume = suspend_expunge_after_first_remove(mbox)

    await sess_b.command(parse_pop3_command("DELE 2"))
    quit_b = asyncio.create_task(sess_b.command(parse_pop3_command("QUIT")))
    await suspended.wait()

    # Session B's expunge is now suspended inside the mailbox. Session A is
    # not queued behind it..
    #
    failures: list[str] = []
    results: dict[str, Any] = {}
    try:
        await sess_a.command(parse_pop3_command("RETR 4"))
        (resp,) = proxy_a.responses()
        body = resp.split(b"\r\n", 1)[1]
        uid4 = sess_a.snapshot_uids[3]
        # (no dots at the start of lines in the factory's messages that we
        # would have to unstuff.. compare on the Message-ID anyway)
        #
        want_mid = mbox_msg_id(expected[uid4])
        got_mid = mbox_msg_id(body)
        results["RETR 4"] = (want_mid, got_mid)
        if want_mid != got_mid:
            whose = [
                n + 1
                for n, u in enumerate(sess_a.snapshot_uids)
                if mbox_msg_id(expected[u]) == got_mid
            ]
            failures.append(
                f"RETR 4 delivered Message-ID {got_mid!r} which is message "
                f"{whose}, wanted {want_mid!r}"
            )

        await sess_a.command(parse_pop3_command("TOP 3 0"))
        (resp,) = proxy_a.responses()
        uid3 = sess_a.snapshot_uids[2]
        want_mid = mbox_msg_id(expected[uid3])
        got_mid = mbox_msg_id(resp)
        if want_mid != got_mid:
            failures.append(
                f"TOP 3 0 delivered Message-ID {got_mid!r}, wanted {want_mid!r}"
            )

        await sess_a.command(parse_pop3_command("LIST 5"))
        (resp,) = proxy_a.responses()
        uid5 = sess_a.snapshot_uids[4]
        uid6 = sess_a.snapshot_uids[5]
        got_size = int(resp.split()[2])
        if got_size != sizes[uid5]:
            failures.append(
                f"LIST 5 said {got_size} octets, message 5 is {sizes[uid5]} "
                f"(message 6 is {sizes[uid6]})"
            )

        try:
            await sess_a.command(parse_pop3_command("RETR 6"))
            (resp,) = proxy_a.responses()
            if mbox_msg_id(resp) != mbox_msg_id(expected[uid6]):
                failures.append(f"RETR 6 delivered {resp[:40]!r}")
        except Exception as exc:
            # `POP3ClientProxy.run()` logs this and drops the connection.
            #
            failures.append(
                f"RETR 6 (last message) raised {type(exc).__name__}: {exc}"
            )
    finally:
        resume.set()
        assert await quit_b is False
    assert proxy_b.responses()[-1].startswith(b"+OK")
    assert mbox.num_msgs == NUM_EMAILS - 1

    # The wrong size stays cached for the rest of session A (the mailbox is
    # consistent again by now).
    #
    await sess_a.command(parse_pop3_command("LIST 5"))
    (resp,) = proxy_a.responses()
    if int(resp.split()[2]) != sizes[uid5]:
        failures.append(
            f"after the expunge LIST 5 still says {int(resp.split()[2])}, "
            f"message 5 is {sizes[uid5]}"
        )

    print("\n".join(failures))
    assert not failures, "\n".join(failures)


########################################################################
#
def mbox_msg_id(data: bytes) -> bytes:
    """The value of the Message-ID header in the rendered message."""
    for line in data.split(b"\r\n"):
        if line.lower().startswith(b"message-id:"):
            return line.split(b":", 1)[1].strip()
        if not line:
            break
    raise AssertionError(f"no Message-ID in {data[:200]!r}")
