#!/bin/bash
# Round 4: sequentially confirm every seed delivered under /tmp/seed4_*/SEED_OUT (letters G, H) against the repaired base commit.
# Stops when /tmp/confirm_daemon4.stop exists.  Triage aid only.
export SEEDROOT=/tmp/seed4
export BASE=${BASE:-c7cdc74}
cd /verif
while [ ! -f /tmp/confirm_daemon4.stop ]; do
  did=0
  for j in /tmp/seed4_C*/SEED_OUT/[G-H].json; do
    [ -f "$j" ] || continue
    P=$(echo $j | sed -E 's#/tmp/seed4_(C[0-9]+)/.*#\1#'); L=$(basename $j .json)
    [ -f /tmp/seed4_$P/SEED_OUT/$L.diff ] || continue
    [ -f /tmp/seed4_$P/SEED_OUT/demo_$L.py ] || continue
    if [ -f seeded/$P-$L/meta.json ] && grep -q '"confirmed": true' seeded/$P-$L/meta.json; then continue; fi
    n=$(cat /tmp/confirm4_tries_${P}_$L 2>/dev/null || echo 0)
    [ "$n" -ge 2 ] && continue
    echo $((n+1)) > /tmp/confirm4_tries_${P}_$L
    tools/confirm_seed.sh $P $L >> /tmp/confirm_daemon4.log 2>&1
    did=1
  done
  [ $did = 0 ] && sleep 30
done
