#!/venv/bin/python
"""Regenerates the machine-made tables of DESIGN.md section 8 (between the AUTOGEN markers) from
known_findings.json, seeded/*/meta.json, seeded/MATRIX.json and selftest/variants/INDEX.json."""
import json
import os
import re

V = "/verif"


def main():
    k = json.load(open(f"{V}/known_findings.json"))
    out = []
    out.append("#### 8.3.1 Repaired defects (`fix:` commits in /repo, oldest first)\n")
    out.append("| commit | property / rule that reports it | what failed |")
    out.append("|---|---|---|")
    for e in k["fixed"]:
        out.append(f"| `{e['commit']}` | {e['property']} {e['rule']} | {e['what_failed'].replace('|', '/')} |")
    out.append("")
    out.append("#### 8.3.2 Known findings (genuine, recorded, not repaired)\n")
    out.append("| property / rule | construct | what fails | why not repaired |")
    out.append("|---|---|---|---|")
    for e in k["known"]:
        out.append(f"| {e['property']} {e['rule']} | `{e['module']}:{e['function']}` — {e['construct']} | {e['what_fails'].replace('|', '/')} | {e.get('why_not_fixed', '').replace('|', '/')} |")
    out.append("")
    m = json.load(open(f"{V}/seeded/MATRIX.json")) if os.path.exists(f"{V}/seeded/MATRIX.json") else {}
    out.append("#### 8.5.1 Seeded defects and the checks that catch them (all applied to the repaired tree)\n")
    out.append("| seed | change (one line) | caught by (quick checks that report a new violation) | first report |")
    out.append("|---|---|---|---|")
    for sid in sorted(m):
        meta = json.load(open(f"{V}/seeded/{sid}/meta.json"))
        summ = re.sub(r"\s+", " ", meta.get("summary", ""))[:170].replace("|", "/")
        r = m[sid]
        det = ", ".join(r.get("detected_by", [])) or "—"
        if not r.get("detected_by"):
            det = "none — " + ("neutralised on the repaired tree (see meta.json)" if meta.get("on_repaired_tree") else "MISSED")
        own = sid.split("-")[0]
        rep = ""
        reps = r.get("reports", {})
        if own in reps and reps[own]:
            mm = re.search(r" (R\d+\.\d+\w?): ", reps[own][0])
            rep = (mm.group(1) if mm else "") + " " + reps[own][0].split(" ")[1] if mm else reps[own][0][:60]
        port = " (hand-ported: `patch_fixed_tree.diff`)" if os.path.exists(f"{V}/seeded/{sid}/patch_fixed_tree.diff") else ""
        out.append(f"| {sid}{port} | {summ} | {det} | {rep} |")
    out.append("")
    text = "\n".join(out)
    d = open(f"{V}/DESIGN.md").read()
    a, b = "<!-- AUTOGEN:BEGIN -->", "<!-- AUTOGEN:END -->"
    if a in d and b in d:
        d = d[: d.index(a) + len(a)] + "\n" + text + "\n" + d[d.index(b):]
        open(f"{V}/DESIGN.md", "w").write(d)
        print("tables updated")
    else:
        print(text)


if __name__ == "__main__":
    main()
