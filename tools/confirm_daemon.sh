#!/bin/bash
# Sequentially confirm every seed delivered under /tmp/seed_*/SEED_OUT that is not yet confirmed in /verif/seeded.
# Stops when /tmp/confirm_daemon.stop exists.  Triage aid only.
cd /verif
while [ ! -f /tmp/confirm_daemon.stop ]; do
  did=0
  for j in /tmp/seed_C*/SEED_OUT/[AB].json; do
    [ -f "$j" ] || continue
    P=$(echo $j | sed -E 's#/tmp/seed_(C[0-9]+)/.*#\1#'); L=$(basename $j .json)
    [ -f /tmp/seed_$P/SEED_OUT/$L.diff ] || continue
    [ -f /tmp/seed_$P/SEED_OUT/demo_$L.py ] || continue
    if [ -f seeded/$P-$L/meta.json ] && grep -q '"confirmed": true' seeded/$P-$L/meta.json; then continue; fi
    n=$(cat /tmp/confirm_tries_${P}_$L 2>/dev/null || echo 0)
    [ "$n" -ge 2 ] && continue
    echo $((n+1)) > /tmp/confirm_tries_${P}_$L
    tools/confirm_seed.sh $P $L >> /tmp/confirm_daemon.log 2>&1
    did=1
  done
  [ $did = 0 ] && sleep 30
done
