#!/venv/bin/python
"""Triage aid: apply each round-7 seed delivered under /tmp/seed7_Cxx/SEED_OUT/<L>.diff to a scratch copy of /repo and print
which quick checks report a new violation (first contact: run it before touching a rule).  usage: tools/seed3_quick.py [Cxx-L ...]"""
import glob, os, sys
from concurrent.futures import ProcessPoolExecutor
sys.path.insert(0, "/verif")
sys.path.insert(0, "/verif/tools")
os.environ.setdefault("PYTHONDONTWRITEBYTECODE", "1")
import seed_matrix as sm

want = set(sys.argv[1:])
base = sm.run_all("/repo")
work = []
for d in sorted(glob.glob("/tmp/seed7_C*/SEED_OUT/[A-Z].diff")):
    sid = d.split("/")[2].split("_")[1] + "-" + os.path.basename(d)[0]
    if want and sid not in want:
        continue
    work.append((sid, d, base))
tally = {"DETECTED": 0, "detected-by-others": 0, "MISSED": 0}
with ProcessPoolExecutor(max_workers=12) as pool:
    for sid, m in pool.map(sm.judge_patch, work):
        res = m.get("reports", {})
        own = sid.split("-")[0]
        tag = "DETECTED" if own in res else ("detected-by-others" if res else ("MISSED" if m["applied"] in ("clean", "fuzzy") else m["applied"]))
        tally[tag] = tally.get(tag, 0) + 1
        first = (res.get(own) or next(iter(res.values()), [""]))[0][:150]
        print(f"{sid:8s} {tag:20s} {','.join(sorted(res))}  {first}")
print(tally)
