#!/venv/bin/python
"""usage: [PATCH=file.diff] tools/show_canon.py mod.Qual.name [grep]  - print the canonical form of a function as the rules
see it (optionally on a scratch copy of /repo with PATCH applied)"""
import ast, os, subprocess, sys
sys.path.insert(0, "/verif"); sys.path.insert(0, "/verif/tools")
from asv.loader import Program
wt = None
if os.environ.get("PATCH"):
    import seed_matrix as sm
    wt, applied, note = sm.scratch_tree(os.environ["PATCH"])
    print("# patch", applied, note if applied == "FAILED" else "")
try:
    p = Program(wt) if wt else Program()
    fi = p.func(sys.argv[1])
    src = ast.unparse(fi.node)
    if len(sys.argv) > 2:
        lines = src.splitlines()
        for i, l in enumerate(lines):
            if sys.argv[2] in l:
                print("\n".join(lines[max(0, i - 3): i + 12])); print("-----")
    else:
        print(src)
finally:
    if wt:
        subprocess.run(["rm", "-rf", wt])
