#!/venv/bin/python
"""usage: tools/show_canon.py mod.Qual.name [grep]  - print the canonical form of a function as the rules see it"""
import sys, ast
sys.path.insert(0, "/verif")
from asv.loader import Program
p = Program()
fi = p.func(sys.argv[1])
src = ast.unparse(fi.node)
if len(sys.argv) > 2:
    lines = src.splitlines()
    for i, l in enumerate(lines):
        if sys.argv[2] in l:
            print("\n".join(lines[max(0, i - 3): i + 12])); print("-----")
else:
    print(src)
