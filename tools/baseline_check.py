#!/venv/bin/python
"""Run the pinned baseline test command in a repo dir and compare with BASELINE.json.

usage: baseline_check.py [repo_dir]   (default /repo)
exit 0 iff every stable_pass test passed.
Triage / fix-validation aid only; never part of a registered check.
"""
import json, subprocess, sys, tempfile, os, xml.etree.ElementTree as ET

repo = sys.argv[1] if len(sys.argv) > 1 else "/repo"
base = json.load(open("/root/.vp/BASELINE.json"))
want = set(base["stable_pass"])
with tempfile.TemporaryDirectory() as td:
    xml = os.path.join(td, "j.xml")
    cmd = ["/venv/bin/python", "-m", "pytest", "-ra", "-q", "-p", "no:cacheprovider",
           "--timeout=900", "--continue-on-collection-errors", f"--junitxml={xml}"] + sys.argv[2:]
    p = subprocess.run(cmd, cwd=repo, stdout=subprocess.PIPE, stderr=subprocess.STDOUT, text=True)
    passed = set()
    for tc in ET.parse(xml).getroot().iter("testcase"):
        if not any(c.tag in ("failure", "error", "skipped") for c in tc):
            passed.add(f"{tc.get('classname')}::{tc.get('name')}")
missing = sorted(want - passed)
# known-flaky under concurrent runs (ssl cert / port races in test_server.py): retry the few missing ones alone
if 0 < len(missing) <= 5:
    import time
    for attempt in range(2):
        still = []
        for m in missing:
            cls, name = m.split("::", 1)
            path = cls.replace(".", "/") + ".py::" + name
            time.sleep(1)
            r = subprocess.run(["/venv/bin/python", "-m", "pytest", "-q", "-p", "no:cacheprovider", "--timeout=900", path],
                               cwd=repo, stdout=subprocess.PIPE, stderr=subprocess.STDOUT, text=True)
            if r.returncode != 0:
                still.append(m)
        missing = still
        if not missing:
            break
print(f"baseline stable_pass={len(want)} passed_now={len(passed)} missing={len(missing)}")
for m in missing[:40]:
    print("  MISSING", m)
sys.exit(1 if missing else 0)
