#!/bin/bash
# Round 6: sequentially confirm every seed delivered under /tmp/seed6_*/SEED_OUT (letters K, L) against the repaired base commit.
# Stops when /tmp/confirm_daemon6.stop exists.  Triage aid only.
export SEEDROOT=/tmp/seed6
export BASE=${BASE:-9b0e4e2}
cd /verif
while [ ! -f /tmp/confirm_daemon6.stop ]; do
  did=0
  for j in /tmp/seed6_C*/SEED_OUT/[K-L].json; do
    [ -f "$j" ] || continue
    P=$(echo $j | sed -E 's#/tmp/seed6_(C[0-9]+)/.*#\1#'); L=$(basename $j .json)
    [ -f /tmp/seed6_$P/SEED_OUT/$L.diff ] || continue
    [ -f /tmp/seed6_$P/SEED_OUT/demo_$L.py ] || continue
    if [ -f seeded/$P-$L/meta.json ] && grep -q '"confirmed": true' seeded/$P-$L/meta.json; then continue; fi
    n=$(cat /tmp/confirm6_tries_${P}_$L 2>/dev/null || echo 0)
    [ "$n" -ge 2 ] && continue
    echo $((n+1)) > /tmp/confirm6_tries_${P}_$L
    tools/confirm_seed.sh $P $L >> /tmp/confirm_daemon6.log 2>&1
    did=1
  done
  [ $did = 0 ] && sleep 30
done
