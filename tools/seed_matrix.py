#!/venv/bin/python
"""Apply every seeded defect (/verif/seeded/<id>/patch.diff) to a scratch worktree of /repo HEAD and run all
quick checks on it (ASV analysing that tree, no evidence written).  Prints / writes the detection matrix.

usage: tools/seed_matrix.py [id ...]        -> /verif/seeded/MATRIX.json
Scratch worktrees live under /tmp and are removed as soon as a seed is judged.  Not part of any registered check.
"""
import json
import os
import subprocess
import sys
import tempfile

V = "/verif"
sys.path.insert(0, V)
os.environ.setdefault("PYTHONDONTWRITEBYTECODE", "1")

from asv.__main__ import PROPS, load_rule_module  # noqa: E402
from asv.loader import AnalysisError, Program  # noqa: E402
from asv.report import Ctx, Undischarged, load_known, match_known  # noqa: E402


def run_all(repo):
    """{prop: [new finding humans]} ; analysis errors as 'ANALYSIS-ERROR ...'."""
    out = {}
    import asv.rules.common as common

    common._TYPER.clear(); common._PARENTS.clear(); common._ENVS.clear()
    try:
        prog = Program(repo)
    except AnalysisError as e:
        return {"*": [f"ANALYSIS-ERROR {e}"]}
    known = load_known()
    for p in PROPS:
        mod = load_rule_module(p)
        ctx = Ctx(p, prog, "quick")
        try:
            try:
                mod.run(ctx)
            except Undischarged:
                pass
        except AnalysisError as e:
            out[p] = [f"ANALYSIS-ERROR {e}"]
            continue
        except Exception as e:  # noqa: BLE001
            out[p] = [f"ANALYSIS-ERROR internal {type(e).__name__}: {e}"]
            continue
        new = [f.human() for f in ctx.findings if match_known(f, known) is None]
        if new:
            out[p] = new
    return out


def scratch_tree(patch):
    """-> (dir, applied): a scratch copy of /repo's package under /tmp with `patch` applied (no git worktree: safe to do in
    parallel).  The caller removes it."""
    wt = tempfile.mkdtemp(prefix="seedrun_", dir="/tmp")
    subprocess.run(["cp", "-r", "/repo/asimap", os.path.join(wt, "asimap")], check=True)
    r = subprocess.run(["git", "apply", "--include=asimap/*", patch], cwd=wt, capture_output=True, text=True)
    applied = "clean"
    if r.returncode != 0:
        r = subprocess.run(["patch", "-p1", "-f", "--fuzz=3", "--no-backup-if-mismatch", "-r", "-", "-i", patch], cwd=wt, capture_output=True, text=True)
        applied = "fuzzy" if r.returncode == 0 else "FAILED"
    return wt, applied, (r.stdout + r.stderr)[-300:]


def judge_patch(args):
    sid, patch, base = args
    wt, applied, note = scratch_tree(patch)
    try:
        if applied == "FAILED":
            return sid, {"applied": applied, "note": note}
        for f in os.listdir(os.path.join(wt, "asimap")):
            if f.endswith(".py"):
                try:
                    compile(open(os.path.join(wt, "asimap", f)).read(), f, "exec")
                except SyntaxError as e:
                    return sid, {"applied": "NO-COMPILE", "note": str(e)}
        res = run_all(wt)
        res = {k: v for k, v in res.items() if v != base.get(k)}
        return sid, {"applied": applied, "detected_by": sorted(res), "own_property_detects": sid.split("-")[0] in res, "reports": {k: [x[:260] for x in v[:3]] for k, v in res.items()}}
    finally:
        subprocess.run(["rm", "-rf", wt])


def main_parallel(ids, jobs):
    from concurrent.futures import ProcessPoolExecutor

    base = run_all("/repo")
    if base:
        print("WARNING: unchanged tree is not clean:", {k: len(v) for k, v in base.items()})
    work = []
    for sid in ids:
        patch = f"{V}/seeded/{sid}/patch.diff"
        if not os.path.exists(patch):
            continue
        ported = f"{V}/seeded/{sid}/patch_fixed_tree.diff"
        work.append((sid, ported if os.path.exists(ported) else patch, base))
    matrix = {}
    with ProcessPoolExecutor(max_workers=jobs) as pool:
        for sid, m in pool.map(judge_patch, work):
            matrix[sid] = m
            res = m.get("detected_by")
            print(sid, m["applied"], ("DETECTED by " + ",".join(res)) if res else "MISSED")
    return matrix


def main():
    if "--jobs" in sys.argv:
        i = sys.argv.index("--jobs")
        jobs = int(sys.argv[i + 1])
        del sys.argv[i:i + 2]
        ids = sys.argv[1:] or sorted(d for d in os.listdir(f"{V}/seeded") if os.path.isdir(f"{V}/seeded/{d}"))
        matrix = main_parallel(ids, jobs)
        if not sys.argv[1:]:
            json.dump(matrix, open(f"{V}/seeded/MATRIX.json", "w"), indent=1)
        det = sum(1 for v in matrix.values() if v.get("detected_by"))
        print(f"{det}/{len(matrix)} seeded defects detected")
        return
    ids = sys.argv[1:] or sorted(d for d in os.listdir(f"{V}/seeded") if os.path.isdir(f"{V}/seeded/{d}"))
    base = run_all("/repo")
    if base:
        print("WARNING: unchanged tree is not clean:", {k: len(v) for k, v in base.items()})
    matrix = {}
    for sid in ids:
        patch = f"{V}/seeded/{sid}/patch.diff"
        if not os.path.exists(patch):
            continue
        ported = f"{V}/seeded/{sid}/patch_fixed_tree.diff"  # hand port where a fix: commit rewrote the seeded lines
        if os.path.exists(ported):
            patch = ported
        wt = tempfile.mkdtemp(prefix=f"seedrun_{sid}_", dir="/tmp")
        os.rmdir(wt)
        subprocess.run(["git", "-C", "/repo", "worktree", "add", "--detach", wt, "HEAD"], capture_output=True)
        try:
            r = subprocess.run(["git", "apply", "--3way", patch], cwd=wt, capture_output=True, text=True)
            applied = "clean"
            if r.returncode != 0:
                subprocess.run(["git", "checkout", "-q", "--", "."], cwd=wt)
                r = subprocess.run(["patch", "-p1", "--fuzz=3", "-i", patch], cwd=wt, capture_output=True, text=True)
                applied = "fuzzy" if r.returncode == 0 else "FAILED"
            if "<<<<<<<" in "".join(open(os.path.join(wt, "asimap", f), errors="ignore").read() for f in os.listdir(os.path.join(wt, "asimap")) if f.endswith(".py")):
                applied = "CONFLICT"
            if applied in ("FAILED", "CONFLICT"):
                matrix[sid] = {"applied": applied, "note": (r.stdout + r.stderr)[-300:]}
                print(sid, applied)
                continue
            c = subprocess.run(["/venv/bin/python", "-m", "compileall", "-q", "asimap"], cwd=wt, capture_output=True, text=True)
            res = run_all(wt)
            res = {k: v for k, v in res.items() if v != base.get(k)}
            own = sid.split("-")[0]
            matrix[sid] = {
                "applied": applied,
                "detected_by": sorted(res),
                "own_property_detects": own in res,
                "reports": {k: [x[:260] for x in v[:3]] for k, v in res.items()},
            }
            print(sid, applied, "DETECTED by " + ",".join(sorted(res)) if res else "MISSED")
        finally:
            subprocess.run(["git", "-C", "/repo", "worktree", "remove", "--force", wt], capture_output=True)
            subprocess.run(["rm", "-rf", wt])
    if not sys.argv[1:]:
        json.dump(matrix, open(f"{V}/seeded/MATRIX.json", "w"), indent=1)
    det = sum(1 for v in matrix.values() if v.get("detected_by"))
    print(f"{det}/{len(matrix)} seeded defects detected")


if __name__ == "__main__":
    main()
