#!/venv/bin/python
"""usage: tools/twin.py <twin-name|all> [Cxx ...]  - run the rules on a neutral twin of /repo (triage aid)."""
import sys
sys.path.insert(0, "/verif")
from asv import mutants
from asv.__main__ import PROPS, load_rule_module
from asv.loader import AnalysisError, Program
from asv.report import Ctx, Undischarged, load_known, match_known
import asv.rules.common as common

ALL = dict(mutants.TWINS); ALL.update(getattr(mutants, "EXTRA_TWINS", {}))
names = list(mutants.TWINS) if sys.argv[1] == "all" else (list(ALL) if sys.argv[1] == "extra" else [sys.argv[1]])
props = sys.argv[2:] or PROPS
bad = 0
for name in names:
    tmp = mutants.copy_pkg()
    try:
        ALL[name](tmp)
        common._TYPER.clear(); common._PARENTS.clear(); common._ENVS.clear()
        prog = Program(tmp)
        known = load_known()
        for p in props:
            ctx = Ctx(p, prog, "quick")
            try:
                load_rule_module(p).run(ctx)
            except Undischarged:
                pass
            except AnalysisError as e:
                print(name, p, "ANALYSIS-ERROR", str(e)[:200]); bad += 1; continue
            except Exception as e:
                import traceback; traceback.print_exc(limit=4)
                print(name, p, "INTERNAL", type(e).__name__, str(e)[:200]); bad += 1; continue
            for f in ctx.findings:
                if match_known(f, known) is None:
                    print(name, p, f.human()[:230]); bad += 1
    finally:
        mutants.drop(tmp)
print("twin alarms:", bad)
sys.exit(1 if bad else 0)
