#!/venv/bin/python
"""Regenerate /verif/MANIFEST.json from the rule modules' own metadata."""
import importlib, json, os, sys
sys.path.insert(0, os.path.dirname(os.path.dirname(os.path.abspath(__file__))))
V = "/verif"
props = [json.loads(l) for l in open(f"{V}/properties.jsonl")]
NA_FILE = f"{V}/tools/not_applicable.json"
na_reasons = json.load(open(NA_FILE)) if os.path.exists(NA_FILE) else {}
checks, na = [], []
for p in props:
    pid = p["id"]
    try:
        m = importlib.import_module(f"asv.rules.{pid.lower()}")
    except ModuleNotFoundError:
        na.append({"property_id": pid, "reason": na_reasons.get(pid, "no static clause armed yet for this property (see DESIGN.md)")})
        continue
    checks.append({
        "property_id": pid,
        "quick_cmd": f"cd /verif && /venv/bin/python -m asv {pid} --tier quick",
        "thorough_cmd": f"cd /verif && /venv/bin/python -m asv {pid} --tier thorough",
        "evidence_file": f"/verif/evidence/{pid}.json",
        "replay_cmd_template": f"cd /verif && /venv/bin/python -m asv {pid} --replay {{path}}",
        "engine": "asv",
        "level_claimed": {"category": "other", "text": m.LEVEL_TEXT, "design_ref": m.DESIGN_REF},
        "level_note": m.LEVEL_NOTE,
        "technique": "static analysis: " + m.TECHNIQUE,
    })
man = {
    "version": 1,
    "setup_cmd": "cd /verif && /venv/bin/python -m asv --selfcheck",
    "hooks": {
        "guard": "ASIMAP_VERIF",
        "enable": "none needed: the checks parse /repo/asimap/*.py and execute nothing, so /repo carries no instrumentation",
        "baseline_off_cmd": "cd /repo && /venv/bin/python -m pytest -ra -q -p no:cacheprovider --timeout=900 --continue-on-collection-errors",
        "source_commits": [],
        "add_only": True,
    },
    "engines": [{
        "name": "asv",
        "path": "/verif/asv",
        "serves_properties": [c["property_id"] for c in checks],
        "kind_free_text": "repository-specific static analyser (Python ast, hand-built CFG with exception edges, path/dataflow/taint/table rules); nothing is executed",
    }],
    "checks": checks,
    "not_applicable": na,
    "notes": "Technique family: static analysis only. Every check decides named structural clauses (necessary conditions) of its property on the current /repo tree and says so; value-level parts are listed as not decided in DESIGN.md and in each level_note. Exit 2 = ANALYSIS-ERROR (a function or table the rules are anchored on no longer exists, or an internal error), never used to hide a violation; a missing construct that carries a clause (a guard, a call, a statement) and an instance count below the hand-confirmed floor are findings, not analysis errors. Thorough = quick + self-test of the checker on the current tree (neutral twins, breaking variants, mypy cross-check of call edges), reported in the evidence, never a VIOLATION.",
}
json.dump(man, open(f"{V}/MANIFEST.json", "w"), indent=1)
print("checks:", [c["property_id"] for c in checks], "n/a:", [x["property_id"] for x in na])
