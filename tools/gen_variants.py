#!/venv/bin/python
"""Regenerate /verif/selftest/variants/: one *breaking variant* per repaired defect (the reverse of each `fix:` commit
of /repo, restricted to asimap/*.py outside asimap/test) and one per confirmed seeded defect (/verif/seeded/<id>/).
The thorough tier applies each to a scratch copy of the *current* tree (GNU patch, fuzz 2) and requires the rules of
the property it belongs to to fire; a patch that no longer applies is skipped and reported as such.

Run by hand after a new fix: commit or a new seed; the output is committed.  Never run by a check.
"""
import json
import os
import subprocess
import sys

V = "/verif"
OUT = f"{V}/selftest/variants"


def _reverse_on_head(h):
    """The reverse of fix `h` as a diff against the *current* HEAD (three-way: later fixes may have touched the same lines);
    None if it does not revert cleanly.  Uses a scratch worktree under /tmp, removed at once."""
    import tempfile

    wt = tempfile.mkdtemp(prefix="genvar_", dir="/tmp")
    os.rmdir(wt)
    try:
        if subprocess.run(["git", "-C", "/repo", "worktree", "add", "--detach", wt, "HEAD"], capture_output=True).returncode != 0:
            return None
        r = subprocess.run(["git", "-c", "user.email=x@x", "-c", "user.name=x", "revert", "--no-commit", h], cwd=wt, capture_output=True, text=True)
        if r.returncode != 0:
            return None
        d = subprocess.run(["git", "diff", "HEAD", "--", "asimap", ":(exclude)asimap/test"], cwd=wt, capture_output=True, text=True).stdout
        return d if d.strip() else None
    finally:
        subprocess.run(["git", "-C", "/repo", "worktree", "remove", "--force", wt], capture_output=True)
        subprocess.run(["rm", "-rf", wt])
        subprocess.run(["git", "-C", "/repo", "worktree", "prune"], capture_output=True)


def main():
    os.makedirs(OUT, exist_ok=True)
    for f in os.listdir(OUT):
        os.remove(os.path.join(OUT, f))
    known = json.load(open(f"{V}/known_findings.json"))
    index = []
    for e in known["fixed"]:
        h = e["commit"]
        d = _reverse_on_head(h) or subprocess.run(["git", "-C", "/repo", "diff", h, f"{h}~1", "--", "asimap", ":(exclude)asimap/test"], capture_output=True, text=True).stdout
        if not d.strip():
            print("empty reverse diff for", h, file=sys.stderr)
            continue
        name = f"revert_{h}"
        open(f"{OUT}/{name}.diff", "w").write(d)
        others = [x.strip().rstrip(")") for x in e["what_failed"].split("(also ")[-1].split(",")] if "(also C" in e["what_failed"] else []
        index.append({"name": name, "kind": "revert-of-fix", "property": e["property"], "rule": e["rule"], "what": e["what_failed"][:200]})
    for sid in sorted(os.listdir(f"{V}/seeded")):
        d = f"{V}/seeded/{sid}"
        if not os.path.isdir(d):
            continue
        meta = json.load(open(f"{d}/meta.json")) if os.path.exists(f"{d}/meta.json") else {}
        if not meta.get("confirmed"):
            continue
        src = f"{d}/patch_fixed_tree.diff" if os.path.exists(f"{d}/patch_fixed_tree.diff") else f"{d}/patch.diff"
        name = f"seed_{sid}"
        open(f"{OUT}/{name}.diff", "w").write(open(src).read())
        index.append({"name": name, "kind": "seeded-defect", "property": sid.split("-")[0], "what": (meta.get("summary") or "")[:200], "neutralised": bool(meta.get("on_repaired_tree"))})
    json.dump(index, open(f"{OUT}/INDEX.json", "w"), indent=1)
    print(len(index), "variants")


if __name__ == "__main__":
    main()
