#!/venv/bin/python
"""Mutation sweep (triage aid, not a registered check): generic AST mutants of the functions the rules examine, each written
to a scratch copy under /tmp (removed at once), parsed - never run - and judged by the quick rules of the properties that
examine the mutated function.

Outcome classes per mutant:  detected (new finding) | silent | analysis-error | internal-error | no-compile.
`analysis-error` and `internal-error` are robustness bugs of the checker (a realistic edit must give a verdict, not a crash);
`silent` mutants are sampled by hand to look for missed defects (many are equivalent or outside every claimed clause).

usage: tools/mutation_sweep.py [--props C06,C10] [--ops del,neg,...] [--limit N] [--jobs 16] [--out file.json] [--show silent|error]
"""
from __future__ import annotations

import argparse
import ast
import copy
import json
import os
import random
import sys
import traceback
from concurrent.futures import ProcessPoolExecutor

V = "/verif"
sys.path.insert(0, V)
os.environ.setdefault("PYTHONDONTWRITEBYTECODE", "1")

from asv import mutants  # noqa: E402
from asv.__main__ import PROPS, load_rule_module  # noqa: E402
from asv.loader import PKG, AnalysisError, Program  # noqa: E402
from asv.report import Ctx, Undischarged, load_known, match_known  # noqa: E402


def examined() -> dict[str, set[str]]:
    """function key -> properties whose rules examine it (from a fresh run on the current tree)."""
    prog = Program()
    out: dict[str, set[str]] = {}
    base = {}
    for p in PROPS:
        ctx = Ctx(p, prog, "quick")
        try:
            load_rule_module(p).run(ctx)
        except Undischarged:
            pass
        for k in ctx.functions_analysed:
            out.setdefault(k, set()).add(p)
        base[p] = {f.key() for f in ctx.findings}
    return out, base, prog


class Mut:
    def __init__(self, module, func, op, lineno, desc):
        self.module, self.func, self.op, self.lineno, self.desc = module, func, op, lineno, desc


def _is_docstring(s):
    return isinstance(s, ast.Expr) and isinstance(s.value, ast.Constant) and isinstance(s.value.value, str)


def gen_mutants(prog, fkeys, ops):
    """Yields (Mut, mutated module source)."""
    by_mod: dict[str, list] = {}
    for k in fkeys:
        fi = prog.functions.get(k)
        if fi is not None:
            by_mod.setdefault(fi.module, []).append(fi)
    for mod, fis in sorted(by_mod.items()):
        src = prog.modules[mod].source if hasattr(prog.modules[mod], "source") else open(os.path.join(prog.repo, PKG, mod + ".py")).read()
        tree = ast.parse(src)
        # index function nodes of the fresh tree by (name, lineno)
        index = {(n.name, n.lineno): n for n in ast.walk(tree) if isinstance(n, (ast.FunctionDef, ast.AsyncFunctionDef))}
        for fi in sorted(fis, key=lambda f: f.node.lineno):
            fn = index.get((fi.node.name, fi.node.lineno))
            if fn is None:
                continue
            sites = []
            for n in ast.walk(fn):
                for fld in ("body", "orelse", "finalbody"):
                    lst = getattr(n, fld, None)
                    if isinstance(lst, list) and lst and isinstance(lst[0], ast.stmt):
                        for i, s in enumerate(lst):
                            if _is_docstring(s):
                                continue
                            if "del" in ops and isinstance(s, (ast.Expr, ast.Assign, ast.AugAssign, ast.AnnAssign, ast.Raise, ast.Continue, ast.Break)):
                                if isinstance(s, ast.Expr) and isinstance(s.value, ast.Call) and getattr(s.value.func, "attr", "") in ("debug", "info", "warning", "error", "exception"):
                                    continue  # logging
                                sites.append(("del", lst, i, s))
                            if "neg" in ops and isinstance(s, (ast.If, ast.While)):
                                sites.append(("neg", s, None, s))
                            if "ret" in ops and isinstance(s, ast.Return) and s.value is not None and not (isinstance(s.value, ast.Constant) and s.value.value is None):
                                sites.append(("ret", s, None, s))
                if "cmp" in ops and isinstance(n, ast.Compare) and len(n.ops) == 1 and type(n.ops[0]) in (ast.Lt, ast.LtE, ast.Gt, ast.GtE, ast.Eq, ast.NotEq, ast.In, ast.NotIn):
                    sites.append(("cmp", n, None, n))
                if "bool" in ops and isinstance(n, ast.BoolOp):
                    sites.append(("bool", n, None, n))
                if "const" in ops and isinstance(n, ast.Constant) and (isinstance(n.value, bool) or (isinstance(n.value, int) and not isinstance(n.value, bool) and abs(n.value) < 1000)):
                    sites.append(("const", n, None, n))
                if "kw" in ops and isinstance(n, ast.Call) and n.keywords:
                    for j, _ in enumerate(n.keywords):
                        sites.append(("kw", n, j, n))
                if "await" in ops and isinstance(n, ast.Await) and False:
                    pass
            for op, a, b, node in sites:
                saved = None
                try:
                    if op == "del":
                        saved = a[b]
                        a[b] = ast.copy_location(ast.Pass(), saved)
                        desc = f"delete `{ast.unparse(saved)[:90]}`"
                    elif op == "neg":
                        saved = a.test
                        a.test = ast.copy_location(ast.UnaryOp(ast.Not(), saved), saved)
                        desc = f"negate `{ast.unparse(saved)[:90]}`"
                    elif op == "ret":
                        saved = a.value
                        a.value = ast.copy_location(ast.Constant(None), saved)
                        desc = f"return None instead of `{ast.unparse(saved)[:80]}`"
                    elif op == "cmp":
                        saved = a.ops[0]
                        flip = {ast.Lt: ast.LtE, ast.LtE: ast.Lt, ast.Gt: ast.GtE, ast.GtE: ast.Gt, ast.Eq: ast.NotEq, ast.NotEq: ast.Eq, ast.In: ast.NotIn, ast.NotIn: ast.In}
                        a.ops[0] = flip[type(saved)]()
                        desc = f"`{ast.unparse(a)[:90]}` (was {type(saved).__name__})"
                    elif op == "bool":
                        saved = a.op
                        a.op = ast.Or() if isinstance(saved, ast.And) else ast.And()
                        desc = f"and<->or: `{ast.unparse(a)[:90]}`"
                    elif op == "const":
                        saved = a.value
                        a.value = (not saved) if isinstance(saved, bool) else saved + 1
                        desc = f"constant {saved!r} -> {a.value!r}"
                    elif op == "kw":
                        saved = a.keywords[b]
                        del a.keywords[b]
                        desc = f"drop keyword `{saved.arg}=` from `{ast.unparse(a)[:80]}`"
                    msrc = ast.unparse(tree) + "\n"
                    yield Mut(mod, fi.qual, op, getattr(node, "lineno", fn.lineno), desc), msrc
                finally:
                    if saved is not None:
                        if op == "del":
                            a[b] = saved
                        elif op == "neg":
                            a.test = saved
                        elif op == "ret":
                            a.value = saved
                        elif op == "cmp":
                            a.ops[0] = saved
                        elif op == "bool":
                            a.op = saved
                        elif op == "const":
                            a.value = saved
                        elif op == "kw":
                            a.keywords.insert(b, saved)


_BASE = None


def judge(args):
    mod, func, op, lineno, desc, msrc, props, base_round = args
    import asv.rules.common as common

    tmp = mutants.copy_pkg()
    res = {"module": mod, "function": func, "op": op, "line": lineno, "desc": desc, "props": props}
    try:
        try:
            compile(msrc, mod, "exec")
        except SyntaxError:
            res["outcome"] = "no-compile"
            return res
        # the unparse round trip of the *unmutated* module is a neutral twin; only the mutation differs
        open(os.path.join(tmp, PKG, mod + ".py"), "w").write(msrc)
        common._TYPER.clear(); common._PARENTS.clear(); common._ENVS.clear()
        prog = Program(tmp)
        known = load_known()
        outcome = "silent"
        det = []
        for p in props:
            ctx = Ctx(p, prog, "quick")
            try:
                try:
                    load_rule_module(p).run(ctx)
                except Undischarged:
                    pass
            except AnalysisError as e:
                outcome = "analysis-error" if outcome in ("silent",) else outcome
                det.append(f"{p}: ANALYSIS-ERROR {str(e)[:160]}")
                continue
            except Exception as e:  # noqa: BLE001
                outcome = "internal-error"
                det.append(f"{p}: INTERNAL {type(e).__name__}: {str(e)[:120]} @ {traceback.format_exc(limit=-2).splitlines()[-3].strip()[:120] if True else ''}")
                continue
            new = [f for f in ctx.findings if f.key() not in base_round.get(p, set()) and match_known(f, known) is None]
            if new:
                if outcome in ("silent", "analysis-error"):
                    outcome = "detected"
                det.append(f"{p}: {new[0].rule} {new[0].message[:110]}")
        res["outcome"] = outcome
        res["detail"] = det[:4]
        return res
    finally:
        mutants.drop(tmp)


def main():
    ap = argparse.ArgumentParser()
    ap.add_argument("--props", default="")
    ap.add_argument("--ops", default="del,neg,cmp,bool,kw,ret,const")
    ap.add_argument("--limit", type=int, default=0)
    ap.add_argument("--jobs", type=int, default=16)
    ap.add_argument("--out", default="/tmp/mutation_sweep.json")
    ap.add_argument("--show", default="error")
    ap.add_argument("--seed", type=int, default=0)
    ap.add_argument("--funcs", default="")
    a = ap.parse_args()
    ex, base, prog = examined()
    # findings of the round-tripped (unparsed) base tree: the same keys (rules are position-free)
    want_props = set(a.props.split(",")) if a.props else None
    fkeys = [k for k, ps in ex.items() if (want_props is None or ps & want_props)]
    if a.funcs:
        fkeys = [k for k in fkeys if any(x in k for x in a.funcs.split(","))]
    ops = set(a.ops.split(","))
    jobs = []
    for m, msrc in gen_mutants(prog, fkeys, ops):
        key = f"{m.module}.{m.func}"
        props = sorted(ex.get(key, set()) & (want_props or set(PROPS)))
        if not props:
            continue
        jobs.append((m.module, m.func, m.op, m.lineno, m.desc, msrc, props, {p: base[p] for p in props}))
    random.Random(a.seed).shuffle(jobs)
    if a.limit:
        jobs = jobs[: a.limit]
    print(f"{len(jobs)} mutants over {len(fkeys)} functions", flush=True)
    results = []
    with ProcessPoolExecutor(max_workers=a.jobs) as pool:
        for i, r in enumerate(pool.map(judge, jobs, chunksize=4)):
            results.append(r)
            if (i + 1) % 200 == 0:
                print(f"  {i + 1}/{len(jobs)}", flush=True)
    tally = {}
    for r in results:
        tally[r["outcome"]] = tally.get(r["outcome"], 0) + 1
    print(json.dumps(tally))
    json.dump(results, open(a.out, "w"), indent=0)
    shown = 0
    for r in results:
        if (a.show == "error" and r["outcome"] in ("analysis-error", "internal-error")) or (a.show == r["outcome"]):
            print(f"[{r['outcome']}] {r['module']}:{r['function']}:{r['line']} {r['op']}: {r['desc']}")
            for d in r.get("detail", []):
                print("      ", d)
            shown += 1
            if shown > 400:
                break


if __name__ == "__main__":
    main()
