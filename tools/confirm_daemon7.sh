#!/bin/bash
# Round 7: sequentially confirm every seed delivered under /tmp/seed7_*/SEED_OUT (letters M, N) against the repaired base commit.
# Stops when /tmp/confirm_daemon7.stop exists.  Triage aid only.
export SEEDROOT=/tmp/seed7
export BASE=${BASE:-2f2a09e}
cd /verif
while [ ! -f /tmp/confirm_daemon7.stop ]; do
  did=0
  for j in /tmp/seed7_C*/SEED_OUT/[M-N].json; do
    [ -f "$j" ] || continue
    P=$(echo $j | sed -E 's#/tmp/seed7_(C[0-9]+)/.*#\1#'); L=$(basename $j .json)
    [ -f /tmp/seed7_$P/SEED_OUT/$L.diff ] || continue
    [ -f /tmp/seed7_$P/SEED_OUT/demo_$L.py ] || continue
    if [ -f seeded/$P-$L/meta.json ] && grep -q '"confirmed": true' seeded/$P-$L/meta.json; then continue; fi
    n=$(cat /tmp/confirm7_tries_${P}_$L 2>/dev/null || echo 0)
    [ "$n" -ge 2 ] && continue
    echo $((n+1)) > /tmp/confirm7_tries_${P}_$L
    tools/confirm_seed.sh $P $L >> /tmp/confirm_daemon7.log 2>&1
    did=1
  done
  [ $did = 0 ] && sleep 30
done
