#!/venv/bin/python
"""Triage aid: apply each round-2 seed delivered under /tmp/seed2_Cxx/SEED_OUT/<L>.diff to a scratch worktree of /repo HEAD
and print which quick checks report a new violation.  usage: tools/seed2_quick.py [Cxx-L ...]"""
import glob, os, subprocess, sys, tempfile
sys.path.insert(0, "/verif")
sys.path.insert(0, "/verif/tools")
os.environ.setdefault("PYTHONDONTWRITEBYTECODE", "1")
import seed_matrix as sm

want = set(sys.argv[1:])
base = sm.run_all("/repo")
for d in sorted(glob.glob("/tmp/seed2_C*/SEED_OUT/[C-F].diff")):
    P = d.split("/")[2].split("_")[1]
    L = os.path.basename(d)[0]
    sid = f"{P}-{L}"
    if want and sid not in want:
        continue
    wt = tempfile.mkdtemp(prefix=f"s2q_{sid}_", dir="/tmp"); os.rmdir(wt)
    subprocess.run(["git", "-C", "/repo", "worktree", "add", "--detach", wt, "HEAD"], capture_output=True)
    try:
        r = subprocess.run(["git", "apply", "--3way", d], cwd=wt, capture_output=True, text=True)
        if r.returncode != 0:
            print(sid, "PATCH-FAILED"); continue
        res = sm.run_all(wt)
        res = {k: v for k, v in res.items() if v != base.get(k)}
        own = sid.split("-")[0]
        tag = "DETECTED" if own in res else ("detected-by-others" if res else "MISSED")
        first = (res.get(own) or next(iter(res.values()), [""]))[0][:150]
        print(f"{sid:8s} {tag:20s} {','.join(sorted(res))}  {first}")
    finally:
        subprocess.run(["git", "-C", "/repo", "worktree", "remove", "--force", wt], capture_output=True)
