#!/bin/bash
# Round 3: sequentially confirm every seed delivered under /tmp/seed3_*/SEED_OUT (letters E, F) against the repaired base commit.
# Stops when /tmp/confirm_daemon3.stop exists.  Triage aid only.
export SEEDROOT=/tmp/seed3
export BASE=${BASE:-306e77e}
cd /verif
while [ ! -f /tmp/confirm_daemon3.stop ]; do
  did=0
  for j in /tmp/seed3_C*/SEED_OUT/[C-F].json; do
    [ -f "$j" ] || continue
    P=$(echo $j | sed -E 's#/tmp/seed3_(C[0-9]+)/.*#\1#'); L=$(basename $j .json)
    [ -f /tmp/seed3_$P/SEED_OUT/$L.diff ] || continue
    [ -f /tmp/seed3_$P/SEED_OUT/demo_$L.py ] || continue
    if [ -f seeded/$P-$L/meta.json ] && grep -q '"confirmed": true' seeded/$P-$L/meta.json; then continue; fi
    n=$(cat /tmp/confirm3_tries_${P}_$L 2>/dev/null || echo 0)
    [ "$n" -ge 2 ] && continue
    echo $((n+1)) > /tmp/confirm3_tries_${P}_$L
    tools/confirm_seed.sh $P $L >> /tmp/confirm_daemon3.log 2>&1
    did=1
  done
  [ $did = 0 ] && sleep 30
done
