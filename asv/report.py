"""Findings, obligations, known-findings matching, evidence and replay files."""
from __future__ import annotations

import hashlib
import json
import os
import time
from dataclasses import asdict, dataclass, field

from .loader import AnalysisError, Program

VERIF = os.path.dirname(os.path.dirname(os.path.abspath(__file__)))
EVIDENCE_DIR = os.path.join(VERIF, "evidence")
REPLAY_DIR = os.path.join(VERIF, "replay")
KNOWN_FILE = os.path.join(VERIF, "known_findings.json")


@dataclass
class Finding:
    prop: str
    rule: str
    module: str
    function: str
    construct: str  # normalised text of the violating construct (no line numbers)
    message: str
    line: int = 0
    path: str = ""  # human-readable witness path / call chain
    extra: dict = field(default_factory=dict)

    def key(self) -> tuple:
        return (self.prop, self.rule, self.module, self.function, self.construct)

    def digest(self) -> str:
        return hashlib.sha1("|".join(self.key()).encode()).hexdigest()[:12]

    def human(self) -> str:
        loc = f"asimap/{self.module}.py:{self.line}" if self.line else f"asimap/{self.module}.py"
        s = f"{loc} {self.function} {self.rule}: {self.message}"
        if self.path:
            s += f" (path: {self.path})"
        return s


@dataclass
class Obligation:
    rule: str
    where: str  # module:function
    what: str  # the instance
    verdict: str  # "holds" | "violates"
    nontrivial: bool = False  # needed a path / flow / table query


class Undischarged(Exception):
    """A rule could not find the construct it anchors on: recorded as a finding (the clause can no longer be established),
    the rest of that rule is skipped, the other rules of the property still run."""


class Ctx:
    """Collects the obligations and findings of one property run."""

    def __init__(self, prop: str, program: Program, tier: str):
        self.prop = prop
        self.p = program
        self.tier = tier
        self.obligations: list[Obligation] = []
        self.findings: list[Finding] = []
        self.floors: dict[str, tuple[int, int]] = {}
        self.trusted: list[str] = []
        self.notes: list[str] = []
        self.paths_explored = 0
        self.exhaustive_rules: set[str] = set()
        self.functions_analysed: set[str] = set()
        self.call_sites = 0
        self._cfgs: dict[str, object] = {}
        self._last_fi = None
        self._cur_rule: str | None = None

    # -- obligations -----------------------------------------------------
    def ok(self, rule: str, where: str, what: str, nontrivial: bool = True) -> None:
        self.obligations.append(Obligation(rule, where, what, "holds", nontrivial))

    def bad(
        self,
        rule: str,
        module: str,
        function: str,
        construct: str,
        message: str,
        line: int = 0,
        path: str = "",
        what: str | None = None,
        **extra,
    ) -> Finding:
        f = Finding(self.prop, rule, module, function, construct, message, line, path, extra)
        # de-duplicate identical keys (e.g. the same construct via two paths)
        for g in self.findings:
            if g.key() == f.key():
                return g
        self.findings.append(f)
        self.obligations.append(
            Obligation(rule, f"{module}:{function}", what or construct, "violates", True)
        )
        return f

    def floor(self, rule: str, got: int, minimum: int, what: str = "") -> None:
        """Instance floor confirmed by hand on the reference tree.  Fewer instances than that means a site the rule is about
        was removed or changed beyond recognition: the clause is no longer established for it -> a finding (never a
        silent, vacuous pass).  Zero instances of everything (got == 0 and nothing analysed) is an analysis error."""
        self.floors[rule] = (got, minimum)
        if got < minimum:
            fi = self._last_fi
            mod, fn = (fi.module, fi.qual) if fi is not None else ("?", "?")
            base = rule.rstrip("abcdefghijklmnopqrstuvwxyz")
            self.bad(
                base, mod, fn, f"only {got} of {minimum} known instances: {what}",
                f"only {got} instance(s) of '{what}' found where at least {minimum} are known on the reference tree: a site this rule "
                "is about was removed or changed beyond recognition, so the clause is not established for it",
                fi.node.lineno if fi is not None else 0,
            )
            raise Undischarged(f"{rule}: floor {got} < {minimum} ({what})")

    def require(self, cond, msg: str, anchor: bool = False) -> None:
        """A construct a rule needs.  anchor=True: pure scaffolding (a parameter, an enum, an internal node) - its absence
        means the analysis cannot run (ANALYSIS-ERROR, exit 2).  Otherwise the construct is what carries the property (the
        call, the guard, the statement the clause is about): if it is gone the clause is not established -> a finding."""
        if cond:
            return
        if anchor:
            raise AnalysisError(f"{self.prop}: {msg}")
        fi = self._last_fi
        mod, fn = (fi.module, fi.qual) if fi is not None else ("?", "?")
        self.bad(
            self._cur_rule or "R?", mod, fn, f"missing: {msg}",
            f"{msg}: the construct this clause rests on is no longer there, so the clause cannot be established "
            "(if the code was only reshaped, the rule's table of accepted shapes needs the new one)",
            fi.node.lineno if fi is not None else 0,
        )
        raise Undischarged(msg)

    def do(self, fn, *args, **kw):
        """Run one rule; an undischarged anchor ends that rule only."""
        prev = self._cur_rule
        nm = getattr(fn, "__name__", "")
        m = __import__("re").match(r"r(\d+)_(\d+)", nm)
        self._cur_rule = f"R{m.group(1)}.{m.group(2)}" if m else prev
        try:
            return fn(self, *args, **kw)
        except Undischarged:
            return None
        finally:
            self._cur_rule = prev

    def trust(self, s: str) -> None:
        if s not in self.trusted:
            self.trusted.append(s)

    def note(self, s: str) -> None:
        self.notes.append(s)

    def cfg(self, fi):
        from .cfg import build_cfg

        k = fi.key
        if k not in self._cfgs:
            self._cfgs[k] = build_cfg(fi.node, k)
        self.functions_analysed.add(k)
        self._last_fi = fi
        return self._cfgs[k]

    def analysed(self, fi) -> None:
        self.functions_analysed.add(fi.key)
        self._last_fi = fi


# ----------------------------------------------------------------------------


def load_known() -> dict:
    if not os.path.exists(KNOWN_FILE):
        return {"known": [], "fixed": []}
    with open(KNOWN_FILE) as fh:
        return json.load(fh)


def match_known(f: Finding, known: dict) -> dict | None:
    for k in known.get("known", []):
        if (
            k.get("property") == f.prop
            and k.get("rule") == f.rule
            and k.get("module") == f.module
            and k.get("function") == f.function
            and k.get("construct") == f.construct
        ):
            return k
    return None


def write_replay(f: Finding, prog: Program) -> str:
    os.makedirs(REPLAY_DIR, exist_ok=True)
    path = os.path.join(REPLAY_DIR, f"{f.prop}-{f.digest()}.json")
    data = asdict(f)
    data["module_sha256"] = prog.modules[f.module].sha256 if f.module in prog.modules else None
    data["human"] = f.human()
    with open(path, "w") as fh:
        json.dump(data, fh, indent=1, default=str)
    return path


def write_evidence(
    ctx: Ctx,
    explanation: str,
    rule_text: str,
    assumptions: list[str],
    wall: float,
    seed: int,
    new_violations: int,
    known_hits: list[str],
    extra: dict | None = None,
) -> str:
    os.makedirs(EVIDENCE_DIR, exist_ok=True)
    obs = ctx.obligations
    distinct = {(o.rule, o.where, o.what) for o in obs if o.nontrivial}
    samples = []
    seen_rules: dict[str, int] = {}
    for o in obs:
        if seen_rules.get(o.rule, 0) >= 3 and o.verdict == "holds":
            continue
        seen_rules[o.rule] = seen_rules.get(o.rule, 0) + 1
        samples.append({"rule": o.rule, "where": o.where, "obligation": o.what, "verdict": o.verdict})
    st = ctx.p.stats()
    cov = {
        "explanation": explanation,
        "obligations": len(obs),
        "discharged": sum(1 for o in obs if o.verdict == "holds"),
        "evaluations": len(obs) + ctx.paths_explored,
        "distinct_nontrivial": len(distinct),
        "rule": rule_text,
        "samples": samples[:60],
        "exhaustive": False,
        "exhaustive_rules": sorted(ctx.exhaustive_rules),
        "checker_cmd": f"/venv/bin/python -m asv {ctx.prop} --tier {ctx.tier}",
        "trusted_base": ["CPython ast module (parser of the analysed sources)"] + ctx.trusted,
        "analysed": {
            "modules_sha256": st["modules"],
            "n_modules": st["n_modules"],
            "n_functions_in_repo": st["n_functions"],
            "functions_examined_by_rules": sorted(ctx.functions_analysed),
            "cfg_paths_or_states_explored": ctx.paths_explored,
            "call_sites_examined": ctx.call_sites,
        },
        "instance_floors": {k: {"found": v[0], "minimum": v[1]} for k, v in ctx.floors.items()},
        "known_findings_reported": known_hits,
        "notes": ctx.notes,
    }
    if extra:
        cov.update(extra)
    ev = {
        "property_id": ctx.prop,
        "tier": ctx.tier,
        "seed": seed,
        "level": "other",
        "coverage": cov,
        "assumptions": assumptions,
        "wall_s": round(wall, 3),
        "violations": new_violations,
    }
    path = os.path.join(EVIDENCE_DIR, f"{ctx.prop}.json")
    tmp = path + ".tmp"
    with open(tmp, "w") as fh:
        json.dump(ev, fh, indent=1, default=str)
    os.replace(tmp, path)
    return path


class Timer:
    def __init__(self):
        self.t0 = time.time()

    def wall(self) -> float:
        return time.time() - self.t0
