"""CLI:  python -m asv C06 [--tier quick|thorough] [--replay file]
        python -m asv all [--tier ...]
        python -m asv --selfcheck
Exit 0: all obligations discharged (known findings printed, not counted).
Exit 1: at least one finding not listed in known_findings.json (VIOLATION lines).
Exit 2: ANALYSIS-ERROR (vanished anchor, instance floor, internal error).
"""
from __future__ import annotations

import argparse
import importlib
import json
import os
import sys
import traceback

from .loader import AnalysisError, Program
from .report import Ctx, Timer, Undischarged, load_known, match_known, write_evidence, write_replay

PROPS = [f"C{i:02d}" for i in range(1, 21)]


def load_rule_module(prop: str):
    return importlib.import_module(f"asv.rules.{prop.lower()}")


def run_property(prop: str, tier: str, seed: int, prog: Program | None = None, quiet: bool = False, write: bool = True):
    """Returns (exit_code, ctx, new_findings, known_hits)."""
    timer = Timer()
    out = (lambda *a, **k: None) if quiet else print
    try:
        mod = load_rule_module(prop)
    except ModuleNotFoundError:
        out(f"ANALYSIS-ERROR property={prop} no rule module (property not claimed)")
        return 2, None, [], []
    err = None
    ctx = None
    try:
        if prog is None:
            prog = Program()
        ctx = Ctx(prop, prog, tier)
        try:
            mod.run(ctx)
        except Undischarged:
            pass  # recorded as a finding
        if tier == "thorough":
            from . import selftest

            if hasattr(mod, "thorough"):
                mod.thorough(ctx)
            ctx.extra_evidence = {"selftest": selftest.run(ctx, mod, out)}
    except AnalysisError as e:
        err = f"ANALYSIS-ERROR property={prop} {e}"
    except Exception as e:  # internal bug in the checker: never a violation
        tb = traceback.format_exc(limit=6)
        err = f"ANALYSIS-ERROR property={prop} internal checker exception {type(e).__name__}: {e}\n{tb}"

    known = load_known()
    new, known_hits = [], []
    if ctx is not None:
        for f in ctx.findings:
            k = match_known(f, known)
            if k is not None:
                known_hits.append(f"{f.rule} {f.module}:{f.function} {k.get('what_fails', f.message)}")
                out(f"KNOWN-FINDING: property={prop} {f.rule} asimap/{f.module}.py {f.function}: {k.get('what_fails', f.message)}")
            else:
                new.append(f)
        for f in new:
            out(f.human())
            rp = write_replay(f, prog) if write else "-"
            out(f"VIOLATION property={prop} replay={rp}")
    if err:
        out(err)
        if thorough_selftest_failed(ctx):
            pass
        return 2, ctx, new, known_hits
    if write:
        extra = getattr(ctx, "extra_evidence", None)
        write_evidence(
            ctx,
            getattr(mod, "EXPLANATION", ""),
            getattr(mod, "RULE_TEXT", ""),
            getattr(mod, "ASSUMPTIONS", []),
            timer.wall(),
            seed,
            len(new),
            known_hits,
            extra,
        )
    nob = len(ctx.obligations)
    nok = sum(1 for o in ctx.obligations if o.verdict == "holds")
    out(
        f"{prop} [{tier}] obligations={nob} discharged={nok} new_violations={len(new)} "
        f"known_findings={len(known_hits)} functions={len(ctx.functions_analysed)} wall={timer.wall():.2f}s"
    )
    return (1 if new else 0), ctx, new, known_hits


def thorough_selftest_failed(ctx) -> bool:
    return bool(ctx is not None and getattr(ctx, "selftest_failed", False))


def do_replay(prop: str, path: str) -> int:
    with open(path) as fh:
        rec = json.load(fh)
    key = (rec["prop"], rec["rule"], rec["module"], rec["function"], rec["construct"])
    code, ctx, new, _ = run_property(prop, "quick", 0, quiet=True, write=False)
    if ctx is None:
        print(f"ANALYSIS-ERROR property={prop} replay could not run the rule")
        return 2
    for f in ctx.findings:
        if f.key() == key:
            print(f.human())
            print(f"VIOLATION property={prop} replay={path}")
            return 1
    print(f"replay: construct no longer violates {rec['rule']} on the current tree")
    return 0


def selfcheck() -> int:
    import compileall

    here = os.path.dirname(os.path.abspath(__file__))
    ok = compileall.compile_dir(here, quiet=1)
    try:
        prog = Program()
    except AnalysisError as e:
        print(f"ANALYSIS-ERROR setup {e}")
        return 2
    st = prog.stats()
    print(f"asv selfcheck: compiled={bool(ok)} modules={st['n_modules']} functions={st['n_functions']} lines={st['n_lines']}")
    for p in PROPS:
        try:
            load_rule_module(p)
        except ModuleNotFoundError:
            pass
    return 0 if ok else 2


def main(argv=None) -> int:
    ap = argparse.ArgumentParser(prog="asv")
    ap.add_argument("prop", nargs="?")
    ap.add_argument("--tier", default=os.environ.get("VERIF_TIER", "quick"), choices=["quick", "thorough"])
    ap.add_argument("--replay")
    ap.add_argument("--selfcheck", action="store_true")
    a = ap.parse_args(argv)
    if a.selfcheck:
        return selfcheck()
    if not a.prop:
        ap.error("property id or 'all' required")
    try:
        seed = int(os.environ.get("VERIF_SEED", "0"))
    except ValueError:
        seed = 0
    if a.prop == "all":
        prog = None
        try:
            prog = Program()
        except AnalysisError as e:
            print(f"ANALYSIS-ERROR {e}")
            return 2
        worst = 0
        for p in PROPS:
            try:
                load_rule_module(p)
            except ModuleNotFoundError:
                continue
            code, *_ = run_property(p, a.tier, seed, prog)
            worst = max(worst, code)
        return worst
    prop = a.prop.upper()
    if a.replay:
        return do_replay(prop, a.replay)
    code, *_ = run_property(prop, a.tier, seed)
    return code


if __name__ == "__main__":
    try:
        rc = main()
    except SystemExit:
        raise
    except BrokenPipeError:
        rc = 2
    except BaseException as e:  # last-resort: a crash is never a violation
        try:
            print(f"ANALYSIS-ERROR internal {type(e).__name__}: {e}")
        except BrokenPipeError:
            pass
        rc = 2
    sys.stdout.flush()
    sys.exit(rc)
