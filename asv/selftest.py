"""Thorough tier: the checker tests itself against the *current* tree, and its call resolution against mypy.

 1. neutral twins   - behaviour-preserving rewrites of the whole package (asv.mutants.TWINS): the property's rules must
                      report nothing that they do not report on the tree itself;
 1b. neutral refactorings - /verif/selftest/neutral/<property>-N*.diff: behaviour-preserving rewrites of the code the
                      property is anchored in, written by agents that saw only the property text: same expectation;
 2. breaking variants - /verif/selftest/variants/*.diff: the reverse of every repaired defect and every confirmed seeded
                      defect that belongs to this property, applied to a scratch copy of the current tree: the property's
                      rules must report something new.  A patch that no longer applies is skipped (and listed);
 3. mypy cross-check - every call in the functions the rules examined: the engine's callee candidates must cover the
                      callee mypy resolved from full type information.

Nothing in a variant is imported or run - variants are parsed, like the tree itself.  Scratch copies live in a directory
made with tempfile.mkdtemp under /tmp and are removed as soon as they are judged.

The self-test never turns into a VIOLATION: the exit status of a check is about /repo.  Its outcome goes into the evidence
file (`selftest`) and is printed as SELFTEST lines; `selftest.ok` is false if a twin alarmed, an applicable variant of this
property went undetected, or the engine's call graph misses a callee mypy found.
"""
from __future__ import annotations

import json
import os
import subprocess

from . import mutants
from .loader import PKG, AnalysisError, Program
from .report import Ctx, Undischarged, load_known, match_known

VARIANTS = os.path.join(os.path.dirname(os.path.dirname(os.path.abspath(__file__))), "selftest", "variants")
NEUTRAL = os.path.join(os.path.dirname(os.path.dirname(os.path.abspath(__file__))), "selftest", "neutral")


def _run_rules(mod, prop: str, repo: str):
    """keys of the findings of `prop` on the tree at `repo` (None, err on analysis error)."""
    from .rules import common

    # the helper caches are keyed by id(): never let them outlive the program they were computed for
    common._TYPER.clear()
    common._PARENTS.clear()
    common._ENVS.clear()
    prog = Program(repo)
    ctx = Ctx(prop, prog, "quick")
    try:
        mod.run(ctx)
    except Undischarged:
        pass
    except AnalysisError as e:
        return None, f"ANALYSIS-ERROR {e}"
    finally:
        common._TYPER.clear()
        common._PARENTS.clear()
        common._ENVS.clear()
    return {f.key(): f for f in ctx.findings}, None


def _apply(patch: str, tmp: str) -> bool:
    r = subprocess.run(["patch", "-p1", "-s", "-f", "--fuzz=2", "--no-backup-if-mismatch", "-r", "-", "-d", tmp, "-i", patch], capture_output=True, text=True)
    if r.returncode != 0:
        return False
    # the variant must still compile
    d = os.path.join(tmp, PKG)
    for f in os.listdir(d):
        if f.endswith(".py"):
            try:
                compile(open(os.path.join(d, f)).read(), f, "exec")
            except SyntaxError:
                return False
    return True


def _job(args):
    """Worker: build one scratch variant of `repo`, judge it with the rules of `prop`, remove it.
    Returns (kind, name, status, {finding key: (rule, module, function, human)} | None, error)."""
    kind, name, prop, repo = args
    import importlib

    mod = importlib.import_module(f"asv.rules.{prop.lower()}")
    tmp = mutants.copy_pkg(repo)
    try:
        if kind == "twin":
            try:
                mutants.TWINS[name](tmp)
            except SyntaxError:
                return kind, name, "skipped", None, "tree does not compile"
        elif kind == "neutral":
            if not _apply(os.path.join(NEUTRAL, name + ".diff"), tmp):
                return kind, name, "skipped", None, "patch does not apply to the current tree"
        else:
            if not _apply(os.path.join(VARIANTS, name + ".diff"), tmp):
                return kind, name, "skipped", None, "patch does not apply to the current tree"
        got, err = _run_rules(mod, prop, tmp)
        if got is None:
            return kind, name, "error", None, err
        return kind, name, "ok", {k: (f.rule, f.module, f.function, f.human()[:200]) for k, f in got.items()}, None
    finally:
        mutants.drop(tmp)


def _run_jobs(jobs):
    """Run the scratch-variant jobs on up to 8 worker processes (fork); falls back to in-process on any pool problem."""
    if not jobs:
        return []
    try:
        import multiprocessing as mp
        from concurrent.futures import ProcessPoolExecutor

        n = max(1, min(8, (os.cpu_count() or 2) - 1, len(jobs)))
        if n == 1:
            return [_job(j) for j in jobs]
        with ProcessPoolExecutor(max_workers=n, mp_context=mp.get_context("fork")) as pool:
            return list(pool.map(_job, jobs))
    except Exception:  # noqa: BLE001 - a sandbox without working process pools still gets its answer
        return [_job(j) for j in jobs]


def _mutation_sample(ctx, prop: str, base: set, limit: int = 120) -> dict:
    import random
    import sys

    tools = os.path.join(os.path.dirname(os.path.dirname(os.path.abspath(__file__))), "tools")
    if tools not in sys.path:
        sys.path.insert(0, tools)
    import mutation_sweep as ms

    fkeys = sorted(k for k in ctx.functions_analysed if k in ctx.p.functions)
    jobs = []
    for m, msrc in ms.gen_mutants(ctx.p, fkeys, {"del", "neg", "cmp", "bool", "kw", "ret", "const"}):
        jobs.append((m.module, m.func, m.op, m.lineno, m.desc, msrc, [prop], {prop: base}))
    generated = len(jobs)
    random.Random(0).shuffle(jobs)
    jobs = jobs[:limit]
    tally: dict[str, int] = {}
    by_op: dict[str, list[int]] = {}
    results = []
    try:
        import multiprocessing as mp
        from concurrent.futures import ProcessPoolExecutor

        n = max(1, min(8, (os.cpu_count() or 2) - 1))
        with ProcessPoolExecutor(max_workers=n, mp_context=mp.get_context("fork")) as pool:
            results = list(pool.map(ms.judge, jobs, chunksize=4))
    except Exception:  # noqa: BLE001
        results = [ms.judge(j) for j in jobs]
    for r in results:
        tally[r["outcome"]] = tally.get(r["outcome"], 0) + 1
        t = by_op.setdefault(r["op"], [0, 0])
        t[0] += 1
        t[1] += 1 if r["outcome"] == "detected" else 0
    return {
        "generated": generated, "sampled": len(jobs), "reported": tally.get("detected", 0), "silent": tally.get("silent", 0),
        "checker_errors": tally.get("analysis-error", 0) + tally.get("internal-error", 0),
        "by_operator": {k: {"mutants": v[0], "reported": v[1]} for k, v in sorted(by_op.items())},
        "note": "statement deletion, negated test, flipped comparison, and/or swap, dropped keyword, return None, constant tweak; parsed, never run",
    }


def run(ctx, mod, out=print) -> dict:
    prop = ctx.prop
    repo = ctx.p.repo
    base = {f.key() for f in ctx.findings}
    res = {"twins": [], "neutral_refactorings": [], "variants": [], "mypy": None, "ok": True}

    idx_path = os.path.join(VARIANTS, "INDEX.json")
    index = json.load(open(idx_path)) if os.path.exists(idx_path) else []
    mine = [v for v in index if v.get("property") == prop]
    neutral = sorted(f[:-5] for f in os.listdir(NEUTRAL) if f.endswith(".diff") and f.startswith(prop + "-")) if os.path.isdir(NEUTRAL) else []
    jobs = [("twin", name, prop, repo) for name in mutants.TWINS] + [("neutral", n, prop, repo) for n in neutral] + [("variant", v["name"], prop, repo) for v in mine]
    results = _run_jobs(jobs)
    meta = {v["name"]: v for v in mine}

    # 1. neutral twins
    for kind, name, status, got, err in results:
        if kind != "twin":
            continue
        if status == "skipped":
            res["twins"].append({"twin": name, "verdict": f"skipped ({err})"})
        elif status == "error":
            res["twins"].append({"twin": name, "verdict": "ALARM", "detail": err})
            res["ok"] = False
            out(f"SELFTEST property={prop} twin={name} ALARM {err}")
        else:
            new = [k for k in got if k not in base]
            if new:
                res["ok"] = False
                res["twins"].append({"twin": name, "verdict": "ALARM", "detail": [got[k][3] for k in new[:3]]})
                out(f"SELFTEST property={prop} twin={name} ALARM {got[new[0]][3][:160]}")
            else:
                res["twins"].append({"twin": name, "verdict": "silent"})

    # 1b. behaviour-preserving refactorings of the code this property is anchored in (written by hand-off agents that saw
    #     only the property text; /verif/selftest/neutral): same expectation as for the mechanical twins
    for kind, name, status, got, err in results:
        if kind != "neutral":
            continue
        if status == "skipped":
            res["neutral_refactorings"].append({"refactoring": name, "verdict": f"skipped ({err})"})
        elif status == "error":
            res["neutral_refactorings"].append({"refactoring": name, "verdict": "ALARM", "detail": err})
            res["ok"] = False
            out(f"SELFTEST property={prop} neutral={name} ALARM {err}")
        else:
            new = [k for k in got if k not in base]
            if new:
                res["ok"] = False
                res["neutral_refactorings"].append({"refactoring": name, "verdict": "ALARM", "detail": [got[k][3] for k in new[:3]]})
                out(f"SELFTEST property={prop} neutral={name} ALARM {got[new[0]][3][:160]}")
            else:
                res["neutral_refactorings"].append({"refactoring": name, "verdict": "silent"})

    # 2. breaking variants of this property
    n_det = n_app = 0
    for kind, name, status, got, err in results:
        if kind != "variant":
            continue
        v = meta[name]
        if status == "skipped":
            res["variants"].append({"variant": name, "verdict": f"skipped ({err})"})
            continue
        n_app += 1
        new = [] if got is None else [k for k in got if k not in base]
        if status == "error" or new:
            n_det += 1
            what = err or f"{got[new[0]][0]} {got[new[0]][1]}:{got[new[0]][2]}"
            res["variants"].append({"variant": name, "kind": v.get("kind"), "verdict": "detected", "by": what[:160]})
        elif v.get("neutralised"):
            res["variants"].append({"variant": name, "kind": v.get("kind"), "verdict": "silent (expected: the seed is neutralised on the repaired tree, see its meta.json)"})
            n_app -= 1
        else:
            res["ok"] = False
            res["variants"].append({"variant": name, "kind": v.get("kind"), "verdict": "MISSED", "what": v.get("what", "")[:160]})
            out(f"SELFTEST property={prop} variant={name} MISSED")
    res["variants_applicable"] = n_app
    res["variants_detected"] = n_det

    # 2b. generic mutants of the functions this property's rules examined (a deterministic sample): how much of an arbitrary
    #     small edit to that code the rules notice.  A measure, not an expectation - most silent mutants are equivalent or
    #     outside every claimed clause - so it never affects `ok`.
    try:
        res["mutation_sample"] = _mutation_sample(ctx, prop, base)
        ms_ = res["mutation_sample"]
        out(f"SELFTEST property={prop} generic mutants sampled={ms_['sampled']} of {ms_['generated']} reported={ms_['reported']} silent={ms_['silent']} checker_errors={ms_['checker_errors']}")
        if ms_["checker_errors"]:
            res["ok"] = False
    except Exception as e:  # noqa: BLE001
        res["mutation_sample"] = {"skipped": f"{type(e).__name__}: {e}"[:200]}

    # 3. mypy cross-check of the call edges the rules relied on
    from . import mypyx

    if mypyx.available():
        from .rules.common import env_of, typer

        fns = [ctx.p.functions[k] for k in sorted(ctx.functions_analysed) if k in ctx.p.functions]
        try:
            st = mypyx.cross_check(ctx.p, typer(ctx.p), env_of, fns)
            res["mypy"] = {
                "functions": len(fns), "calls": st["calls"], "agree": st["agree"], "engine_only": st["engine_only"],
                "callee_outside_repo": st["external"], "unresolved_by_both": st["unresolved_both"],
                "engine_blind": st["mypy_only"][:20], "engine_over_approximates": st["over_approx"][:10], "disagree": st["disagree"][:20],
            }
            if st["disagree"]:
                res["ok"] = False
                for d in st["disagree"][:5]:
                    out(f"SELFTEST property={prop} mypy-disagrees {d['site']} engine={d['engine']} mypy={d['mypy']}")
        except Exception as e:  # noqa: BLE001 - mypy internals are not our contract
            res["mypy"] = {"skipped": f"{type(e).__name__}: {e}"[:200]}
    else:
        res["mypy"] = {"skipped": "mypy not importable in this interpreter"}
    out(
        f"SELFTEST property={prop} twins_silent={sum(1 for t in res['twins'] if t['verdict'] == 'silent')}/{len(res['twins'])} "
        f"neutral_silent={sum(1 for t in res['neutral_refactorings'] if t['verdict'] == 'silent')}/{len(res['neutral_refactorings'])} "
        f"variants_detected={n_det}/{n_app} mypy_agree={res['mypy'].get('agree', '-')} mypy_disagree={len(res['mypy'].get('disagree', []))} ok={res['ok']}"
    )
    return res
