"""asv - static-analysis verifier for scanner/asimap (see /verif/DESIGN.md)."""
