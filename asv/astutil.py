"""Small AST helpers shared by all rules."""
from __future__ import annotations

import ast
from typing import Iterable, Iterator

FUNC_TYPES = (ast.FunctionDef, ast.AsyncFunctionDef, ast.Lambda)


def norm(node: ast.AST | None, maxlen: int = 160) -> str:
    """Normalised source text of a construct (keys findings; no line numbers)."""
    if node is None:
        return ""
    try:
        s = ast.unparse(node)
    except Exception:  # pragma: no cover
        s = ast.dump(node)
    s = " ".join(s.split())
    if len(s) > maxlen:
        s = s[: maxlen - 3] + "..."
    return s


def head(node: ast.AST, maxlen: int = 120) -> str:
    """Text of the first line (header) of a statement."""
    if isinstance(node, (ast.If, ast.While)):
        kw = "if" if isinstance(node, ast.If) else "while"
        return f"{kw} {norm(node.test, maxlen)}:"
    if isinstance(node, (ast.For, ast.AsyncFor)):
        return f"for {norm(node.target, 40)} in {norm(node.iter, maxlen)}:"
    if isinstance(node, (ast.With, ast.AsyncWith)):
        return "with " + ", ".join(norm(i.context_expr, maxlen) for i in node.items) + ":"
    if isinstance(node, ast.Try):
        return "try:"
    if isinstance(node, ast.Match):
        return f"match {norm(node.subject, maxlen)}:"
    if isinstance(node, (ast.FunctionDef, ast.AsyncFunctionDef)):
        return f"def {node.name}(...)"
    return norm(node, maxlen)


def walk_no_nested(node: ast.AST, include_root: bool = True) -> Iterator[ast.AST]:
    """ast.walk that does not descend into nested function/lambda/class bodies."""
    todo = [node]
    first = True
    while todo:
        n = todo.pop()
        if not first and isinstance(n, FUNC_TYPES + (ast.ClassDef,)):
            continue
        if include_root or not first:
            yield n
        first = False
        todo.extend(ast.iter_child_nodes(n))


def body_walk(fn: ast.AST) -> Iterator[ast.AST]:
    """All nodes of a function body, excluding nested defs/lambdas/classes."""
    for stmt in getattr(fn, "body", []):
        yield from walk_no_nested(stmt)


def attr_chain(node: ast.AST) -> list[str] | None:
    """a.b.c -> ['a','b','c']; a.b[0].c -> ['a','b','[]','c']; calls break the chain."""
    out: list[str] = []
    while True:
        if isinstance(node, ast.Attribute):
            out.append(node.attr)
            node = node.value
        elif isinstance(node, ast.Subscript):
            out.append("[]")
            node = node.value
        elif isinstance(node, ast.Name):
            out.append(node.id)
            return list(reversed(out))
        elif isinstance(node, ast.Await):
            node = node.value
        else:
            return None


def dotted(node: ast.AST) -> str | None:
    c = attr_chain(node)
    return ".".join(c).replace(".[]", "[]") if c else None


def call_name(call: ast.Call) -> str | None:
    """Last component of the callee: foo.bar.baz(...) -> 'baz'; f(...) -> 'f'."""
    f = call.func
    if isinstance(f, ast.Attribute):
        return f.attr
    if isinstance(f, ast.Name):
        return f.id
    return None


def call_recv(call: ast.Call) -> ast.AST | None:
    f = call.func
    if isinstance(f, ast.Attribute):
        return f.value
    return None


def calls_in(node: ast.AST, nested: bool = False) -> Iterator[ast.Call]:
    it = ast.walk(node) if nested else walk_no_nested(node)
    for n in it:
        if isinstance(n, ast.Call):
            yield n


def strip_await(node: ast.AST) -> ast.AST:
    while isinstance(node, ast.Await):
        node = node.value
    return node


def has_await(node: ast.AST) -> bool:
    for n in walk_no_nested(node):
        if isinstance(n, (ast.Await, ast.AsyncFor, ast.AsyncWith)):
            return True
    return False


def const_str(node: ast.AST) -> str | None:
    if isinstance(node, ast.Constant) and isinstance(node.value, str):
        return node.value
    return None


def const_bytes(node: ast.AST) -> bytes | None:
    if isinstance(node, ast.Constant) and isinstance(node.value, bytes):
        return node.value
    return None


def kwarg(call: ast.Call, name: str) -> ast.AST | None:
    for k in call.keywords:
        if k.arg == name:
            return k.value
    # the normal form of calls (asv/callnorm.py) passes leading parameters by position
    from .callnorm import find_arg

    return find_arg(call, name)


def arg_or_kw(call: ast.Call, pos: int, name: str) -> ast.AST | None:
    v = kwarg(call, name)
    if v is not None:
        return v
    if pos < len(call.args) and not any(isinstance(a, ast.Starred) for a in call.args[: pos + 1]):
        return call.args[pos]
    return None


def names_in(node: ast.AST) -> set[str]:
    return {n.id for n in ast.walk(node) if isinstance(n, ast.Name)}


def parents(root: ast.AST) -> dict[ast.AST, ast.AST]:
    par: dict[ast.AST, ast.AST] = {}
    for p in ast.walk(root):
        for c in ast.iter_child_nodes(p):
            par[c] = p
    return par


def enclosing(node: ast.AST, par: dict[ast.AST, ast.AST], types) -> ast.AST | None:
    n = par.get(node)
    while n is not None:
        if isinstance(n, types):
            return n
        n = par.get(n)
    return None


def ancestors(node: ast.AST, par: dict[ast.AST, ast.AST]) -> Iterator[ast.AST]:
    n = par.get(node)
    while n is not None:
        yield n
        n = par.get(n)


def stmt_of(node: ast.AST, par: dict[ast.AST, ast.AST]) -> ast.stmt | None:
    n: ast.AST | None = node
    while n is not None and not isinstance(n, ast.stmt):
        n = par.get(n)
    return n  # type: ignore[return-value]


def fstring_parts(node: ast.AST) -> list[str | ast.AST] | None:
    """Flatten a str/bytes expression into constant pieces and holes.

    Handles Constant, JoinedStr, BinOp(+), and `.encode(...)` wrappers."""
    node = strip_await(node)
    if isinstance(node, ast.Constant) and isinstance(node.value, (str, bytes)):
        v = node.value
        return [v.decode("latin-1") if isinstance(v, bytes) else v]
    if isinstance(node, ast.JoinedStr):
        out: list[str | ast.AST] = []
        for v in node.values:
            if isinstance(v, ast.Constant) and isinstance(v.value, str):
                out.append(v.value)
            elif isinstance(v, ast.FormattedValue):
                out.append(v.value)
            else:
                out.append(v)
        return out
    if isinstance(node, ast.BinOp) and isinstance(node.op, ast.Add):
        l, r = fstring_parts(node.left), fstring_parts(node.right)
        if l is None:
            l = [node.left]
        if r is None:
            r = [node.right]
        return l + r
    if isinstance(node, ast.Call) and call_name(node) == "encode" and call_recv(node) is not None:
        inner = fstring_parts(call_recv(node))
        if inner is not None:
            return inner
        return [call_recv(node)]
    if isinstance(node, ast.Call) and isinstance(node.func, ast.Name) and node.func.id in ("bytes", "str") and node.args:
        inner = fstring_parts(node.args[0])
        if inner is not None:
            return inner
    return None


def merge_consts(parts: Iterable[str | ast.AST]) -> list[str | ast.AST]:
    out: list[str | ast.AST] = []
    for p in parts:
        if isinstance(p, str) and out and isinstance(out[-1], str):
            out[-1] = out[-1] + p
        else:
            out.append(p)
    return out


def is_self_attr(node: ast.AST, attr: str | None = None, obj: str = "self") -> bool:
    return (
        isinstance(node, ast.Attribute)
        and isinstance(node.value, ast.Name)
        and node.value.id == obj
        and (attr is None or node.attr == attr)
    )


def assigned_targets(stmt: ast.AST) -> list[ast.AST]:
    """Flattened assignment targets of a statement (tuples unpacked)."""
    tg: list[ast.AST] = []
    if isinstance(stmt, ast.Assign):
        tg = list(stmt.targets)
    elif isinstance(stmt, (ast.AugAssign, ast.AnnAssign)):
        tg = [stmt.target]
    elif isinstance(stmt, (ast.For, ast.AsyncFor)):
        tg = [stmt.target]
    elif isinstance(stmt, ast.Delete):
        tg = list(stmt.targets)
    out: list[ast.AST] = []
    todo = list(tg)
    while todo:
        t = todo.pop(0)
        if isinstance(t, (ast.Tuple, ast.List)):
            todo = list(t.elts) + todo
        elif isinstance(t, ast.Starred):
            todo.insert(0, t.value)
        else:
            out.append(t)
    return out


def polarity_atoms(test: ast.AST, positive: bool = True):
    """Yields (atom, positive) for the atoms of a boolean test: descends through `not` (flipping) and and/or (keeping);
    an atom is any other expression.  `if not (a or not b)` -> (a, False), (b, True)."""
    if isinstance(test, ast.UnaryOp) and isinstance(test.op, ast.Not):
        yield from polarity_atoms(test.operand, not positive)
    elif isinstance(test, ast.BoolOp):
        for v in test.values:
            yield from polarity_atoms(v, positive)
    else:
        yield test, positive


def atom_polarity(test: ast.AST, pred) -> bool | None:
    """Polarity of the (first) atom of `test` that satisfies pred(atom) or contains a node satisfying it; None if absent."""
    for a, pos in polarity_atoms(test):
        if pred(a) or any(pred(x) for x in ast.walk(a)):
            # comparisons with != / not in / is not count as a negation of the positive form
            return pos
    return None


def compare_positive(cmp_: ast.Compare) -> bool:
    """True for ==, in, is, <, ... ; False for !=, not in, is not."""
    return not isinstance(cmp_.ops[0], (ast.NotEq, ast.NotIn, ast.IsNot))
