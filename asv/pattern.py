"""Structural pattern matching modulo consistent renaming of local variables.

A pattern is Python source (one statement or one expression).  Name nodes whose identifier is not a builtin, not
`self`/`cls`, and not a module-level name of the module being analysed are *pattern variables*: they unify with any
Name of the target, consistently across all patterns matched through the same PM object.  `...` as a statement
matches any (possibly empty) run of statements; `...` as an expression matches any expression.
"""
from __future__ import annotations

import ast
import builtins

from .astutil import body_walk, walk_no_nested

_BUILTINS = set(dir(builtins))


def module_names(mod_tree: ast.Module) -> set[str]:
    out = set()
    for n in ast.walk(mod_tree):
        if isinstance(n, (ast.Import, ast.ImportFrom)):
            for a in n.names:
                out.add((a.asname or a.name).split(".")[0])
    for n in mod_tree.body:
        if isinstance(n, (ast.FunctionDef, ast.AsyncFunctionDef, ast.ClassDef)):
            out.add(n.name)
        elif isinstance(n, ast.Assign):
            for t in n.targets:
                for x in ast.walk(t):
                    if isinstance(x, ast.Name):
                        out.add(x.id)
        elif isinstance(n, ast.AnnAssign) and isinstance(n.target, ast.Name):
            out.add(n.target.id)
        elif isinstance(n, (ast.If, ast.Try)):
            for x in ast.walk(n):
                if isinstance(x, (ast.Import, ast.ImportFrom)):
                    for a in x.names:
                        out.add((a.asname or a.name).split(".")[0])
    return out


def _canon_if(node: ast.If):
    """(test, body, orelse) with a negated test of an if/else turned round (elif chains are left alone)."""
    t, b, o = node.test, node.body, node.orelse
    if o and not (len(o) == 1 and isinstance(o[0], ast.If)):
        if isinstance(t, ast.UnaryOp) and isinstance(t.op, ast.Not):
            return t.operand, o, b
        if isinstance(t, ast.Compare) and len(t.ops) == 1 and isinstance(t.ops[0], (ast.NotEq, ast.NotIn, ast.IsNot, ast.LtE, ast.GtE)):
            pos = {ast.NotEq: ast.Eq, ast.NotIn: ast.In, ast.IsNot: ast.Is, ast.LtE: ast.Gt, ast.GtE: ast.Lt}[type(t.ops[0])]
            return ast.Compare(left=t.left, ops=[pos()], comparators=t.comparators), o, b
        # negation-normal form of `not (a or b)`: every operand negated - the positive spelling is the De Morgan dual
        if isinstance(t, ast.BoolOp) and all(isinstance(v, ast.UnaryOp) and isinstance(v.op, ast.Not) for v in t.values):
            dual = ast.BoolOp(op=ast.Or() if isinstance(t.op, ast.And) else ast.And(), values=[v.operand for v in t.values])
            return dual, o, b
    return t, b, o


_MIRROR = {ast.Eq: ast.Eq, ast.NotEq: ast.NotEq, ast.Lt: ast.Gt, ast.Gt: ast.Lt, ast.LtE: ast.GtE, ast.GtE: ast.LtE}


def _canon_aug(node):
    """AugAssign on a name / attribute -> the equivalent Assign."""
    if isinstance(node, ast.AugAssign) and isinstance(node.target, (ast.Name, ast.Attribute)):
        import copy

        load = copy.deepcopy(node.target)
        for x in ast.walk(load):
            if hasattr(x, "ctx"):
                x.ctx = ast.Load()
        return ast.Assign(targets=[node.target], value=ast.BinOp(left=load, op=node.op, right=node.value), type_comment=None)
    return node


_PARSED: dict = {}  # (pattern text, temps) -> canonical pattern (never mutated by matching)


class PM:
    def __init__(self, p, fi, fixed: set[str] = frozenset()):
        self.fi = fi
        self.env: dict[str, str] = {}
        self.globals = module_names(p.modules[fi.module].tree) | _BUILTINS | {"self", "cls"} | set(fixed)
        # parameters keep their names only if the caller says so (fixed); by default they are variables too

    # ------------------------------------------------------------------
    def _is_var(self, name: str) -> bool:
        return name not in self.globals

    def _m(self, pat, tgt, env) -> bool:
        if isinstance(pat, ast.Constant) and pat.value is Ellipsis:
            return True
        if isinstance(pat, ast.Name):
            if self._is_var(pat.id):
                if not isinstance(tgt, ast.Name):
                    return False
                if pat.id in env:
                    return env[pat.id] == tgt.id
                # a variable may not bind to a global/builtin name that the pattern itself could have spelled
                cl = getattr(self, "_comp_locals", None)
                if cl and pat.id in cl[-1]:
                    # a comprehension's own variable: a fresh name in a fresh scope (it may repeat a name used outside)
                    if tgt.id in {env[k] for k in cl[-1] if k in env}:
                        return False
                elif tgt.id in env.values():
                    return False
                env[pat.id] = tgt.id
                return True
            return isinstance(tgt, ast.Name) and tgt.id == pat.id
        if isinstance(pat, (ast.AugAssign, ast.Assign)) and isinstance(tgt, (ast.AugAssign, ast.Assign)) and type(pat) is not type(tgt):
            # `x += e` is `x = x + e`
            pat, tgt = _canon_aug(pat), _canon_aug(tgt)
        if (
            isinstance(pat, ast.Assign) and isinstance(tgt, ast.Assign) and len(pat.targets) == 1 and len(tgt.targets) == 1
            and isinstance(pat.targets[0], ast.Tuple) and isinstance(tgt.targets[0], ast.Name)
            and isinstance(tgt.value, ast.Subscript) and isinstance(tgt.value.slice, ast.Constant) and isinstance(tgt.value.slice.value, int)
            and 0 <= tgt.value.slice.value < len(pat.targets[0].elts)
        ):
            # the code's canonical `x = f()[1]` is the pattern's `a, x = f()` whose `a` the code never reads
            e2 = dict(env)
            if self._m(pat.targets[0].elts[tgt.value.slice.value], tgt.targets[0], e2) and self._m(pat.value, tgt.value.value, e2):
                env.clear()
                env.update(e2)
                return True
            return False
        if type(pat) is not type(tgt):
            return False
        if isinstance(pat, ast.BoolOp) and type(pat.op) is type(tgt.op) and len(pat.values) == len(tgt.values) and 2 <= len(pat.values) <= 6:
            # and / or of call-free operands: the operands may be written in any order (same value, nothing to observe)
            e2 = dict(env)
            if all(self._m(a, b, e2) for a, b in zip(pat.values, tgt.values)):
                env.clear(); env.update(e2)
                return True
            if all(not any(isinstance(x, (ast.Call, ast.Await, ast.NamedExpr)) for x in ast.walk(v)) for v in tgt.values):
                import itertools

                for perm in itertools.permutations(range(len(tgt.values))):
                    e2 = dict(env)
                    if all(self._m(a, tgt.values[i], e2) for a, i in zip(pat.values, perm)):
                        env.clear(); env.update(e2)
                        return True
            return False
        if isinstance(pat, ast.If) and (pat.orelse or tgt.orelse):
            # `if not c: B else: A` is `if c: A else: B`: compare both in the form whose test is not a negation
            pt, pb, po = _canon_if(pat)
            tt, tb, to = _canon_if(tgt)
            e2 = dict(env)
            if self._m(pt, tt, e2) and self._mlist(pb, tb, e2) and (not po or self._mlist(po, to, e2)):
                env.clear()
                env.update(e2)
                return True
            return False
        if isinstance(pat, ast.Compare) and len(pat.ops) == 1 and len(tgt.ops) == 1 and type(pat.ops[0]) in _MIRROR:
            # `a < b` is `b > a`: try as written, then the target mirrored
            e2 = dict(env)
            if type(pat.ops[0]) is type(tgt.ops[0]) and self._m(pat.left, tgt.left, e2) and self._m(pat.comparators[0], tgt.comparators[0], e2):
                env.clear(); env.update(e2)
                return True
            e2 = dict(env)
            if _MIRROR[type(pat.ops[0])] is type(tgt.ops[0]) and self._m(pat.left, tgt.comparators[0], e2) and self._m(pat.comparators[0], tgt.left, e2):
                env.clear(); env.update(e2)
                return True
            return False
        if isinstance(pat, ast.Constant):
            return pat.value == tgt.value and type(pat.value) is type(tgt.value)
        if isinstance(pat, ast.arg):
            if self._is_var(pat.arg):
                if pat.arg in env:
                    return env[pat.arg] == tgt.arg
                env[pat.arg] = tgt.arg
                return True
            return pat.arg == tgt.arg
        if isinstance(pat, ast.Call) and len(pat.args) == 1 and not pat.keywords and isinstance(pat.args[0], ast.Constant) and pat.args[0].value is Ellipsis:
            return self._m(pat.func, tgt.func, env)  # f(...) matches any argument list
        if isinstance(pat, (ast.ListComp, ast.SetComp, ast.GeneratorExp, ast.DictComp)) and not getattr(pat, "_asv_scoped", False):
            # the loop variables of a comprehension live in its own scope: their bindings end with it (two comprehensions
            # may use the same name for different things, or different names for the same thing)
            local = {n.id for g_ in pat.generators for n in ast.walk(g_.target) if isinstance(n, ast.Name) and self._is_var(n.id)}
            e2 = dict(env)
            shadowed = {k: e2.pop(k) for k in local if k in e2}
            pat._asv_scoped = True
            stack = getattr(self, "_comp_locals", [])
            self._comp_locals = stack + [local]
            try:
                ok = self._m(pat, tgt, e2)
            finally:
                pat._asv_scoped = False
                self._comp_locals = stack
            if not ok:
                return False
            for k in local:
                e2.pop(k, None)
            e2.update(shadowed)
            env.clear(); env.update(e2)
            return True
        if isinstance(pat, ast.ExceptHandler):
            if (pat.name is None) != (tgt.name is None):
                return False
            if pat.name is not None:
                if pat.name in env and env[pat.name] != tgt.name:
                    return False
                env[pat.name] = tgt.name
        for f in pat._fields:
            if f in ("ctx", "type_comment", "kind") or (isinstance(pat, ast.ExceptHandler) and f == "name"):
                continue
            a, b = getattr(pat, f, None), getattr(tgt, f, None)
            if f in ("orelse", "finalbody") and isinstance(a, list) and not a:
                continue  # a pattern without else/finally says nothing about the target's else/finally
            if isinstance(a, list):
                if not isinstance(b, list) or not self._mlist(a, b, env):
                    return False
            elif isinstance(a, ast.AST):
                if not isinstance(b, ast.AST) or not self._m(a, b, env):
                    return False
            else:
                if a != b:
                    return False
        return True

    @staticmethod
    def _is_ellipsis_stmt(s) -> bool:
        return isinstance(s, ast.Expr) and isinstance(s.value, ast.Constant) and s.value.value is Ellipsis

    @staticmethod
    def _independent(s1, s2) -> bool:
        """Two adjacent plain assignments to distinct local names, neither reading the other's target, no call / await in
        either: their order is unobservable, so a pattern may list them either way round."""
        for s in (s1, s2):
            if not (isinstance(s, ast.Assign) and len(s.targets) == 1 and isinstance(s.targets[0], ast.Name)):
                return False
            if any(isinstance(x, (ast.Call, ast.Await, ast.Yield, ast.YieldFrom, ast.NamedExpr)) for x in ast.walk(s.value)):
                return False
        a, b = s1.targets[0].id, s2.targets[0].id
        r1 = {x.id for x in ast.walk(s1.value) if isinstance(x, ast.Name)}
        r2 = {x.id for x in ast.walk(s2.value) if isinstance(x, ast.Name)}
        return a != b and a not in r2 and b not in r1

    def _mlist(self, pats: list, tgts: list, env) -> bool:
        if self._mlist0(pats, tgts, env):
            return True
        if len(tgts) >= 2 and isinstance(tgts[0], ast.stmt) and isinstance(tgts[1], ast.stmt) and pats and not (isinstance(pats[0], ast.AST) and self._is_ellipsis_stmt(pats[0])) and self._independent(tgts[0], tgts[1]):
            return self._mlist0(pats, [tgts[1], tgts[0]] + list(tgts[2:]), env)
        return False

    def _mlist0(self, pats: list, tgts: list, env) -> bool:
        if not pats:
            return not tgts
        if pats and isinstance(pats[0], ast.AST) and self._is_ellipsis_stmt(pats[0]):
            for k in range(len(tgts) + 1):
                e2 = dict(env)
                if self._mlist(pats[1:], tgts[k:], e2):
                    env.clear()
                    env.update(e2)
                    return True
            return False
        if not tgts:
            return False
        e2 = dict(env)
        if isinstance(pats[0], ast.AST):
            if not isinstance(tgts[0], ast.AST) or not self._m(pats[0], tgts[0], e2):
                return False
        elif pats[0] != tgts[0]:
            return False
        if self._mlist(pats[1:], tgts[1:], e2):
            env.clear()
            env.update(e2)
            return True
        return False

    # ------------------------------------------------------------------
    def _parse(self, pat: str, temps: bool = True):
        """-> (pattern node | list of statement nodes, is_statement).  Patterns get the same canonical forms as the code."""
        from .canon import canon_pattern as _cp

        hit = _PARSED.get((pat, temps))
        if hit is not None:
            return hit
        out = self._parse0(pat, temps, _cp)
        _PARSED[(pat, temps)] = out
        return out

    def _parse0(self, pat, temps, _cp):
        def canon_pattern(n):
            return _cp(n, temps)

        tree = ast.parse(pat)
        node = tree.body[0]
        if len(tree.body) == 1 and isinstance(node, ast.Expr) and not self._is_ellipsis_stmt(node):
            return canon_pattern(node.value), False
        body = canon_pattern(tree.body if len(tree.body) > 1 else node)
        return (body[0] if len(body) == 1 else body), True

    def find_all(self, pat: str, scope: ast.AST | None = None, commit: bool = False) -> list[ast.AST]:
        """All matches in source order; with commit the bindings of the first one are kept."""
        out = self._find_all(pat, scope, commit, True)
        if not out and "\n" in pat:
            # whether a temporary of the pattern is folded into its use depends on the code around it (it is folded only when
            # it is defined once in the function): accept the unfolded spelling too
            out = self._find_all(pat, scope, commit, False)
        return out

    def _find_all(self, pat: str, scope, commit: bool, temps: bool) -> list[ast.AST]:
        pnode, is_stmt = self._parse(pat, temps)
        if isinstance(pnode, list):
            return self._find_seq(pnode, scope, commit)
        it = body_walk(scope if scope is not None else self.fi.node) if scope is None or isinstance(scope, (ast.FunctionDef, ast.AsyncFunctionDef)) else walk_no_nested(scope)
        cands = [n for n in it if (isinstance(n, ast.stmt) if is_stmt else isinstance(n, ast.expr))]
        cands.sort(key=lambda n: (getattr(n, "lineno", 0), getattr(n, "col_offset", 0)))
        out = []
        for n in cands:
            e2 = dict(self.env)
            if self._m(pnode, n, e2):
                out.append(n)
                if commit:
                    self.env = e2
                    commit = False
        return out

    def _find_seq(self, pats: list, scope, commit: bool) -> list[ast.AST]:
        """A pattern whose canonical form is several statements: they must occur consecutively in one statement list."""
        root = scope if scope is not None else self.fi.node
        out = []
        blocks = []
        for n in ([root] + list(body_walk(root) if isinstance(root, (ast.FunctionDef, ast.AsyncFunctionDef)) else walk_no_nested(root))):
            for fld in ("body", "orelse", "finalbody"):
                lst = getattr(n, fld, None)
                if isinstance(lst, list) and lst and isinstance(lst[0], ast.stmt):
                    blocks.append(lst)
            for h in getattr(n, "handlers", []) or []:
                blocks.append(h.body)
            for c in getattr(n, "cases", []) or []:
                blocks.append(c.body)
        for lst in blocks:
            for i in range(len(lst) - len(pats) + 1):
                e2 = dict(self.env)
                if self._mlist(pats, lst[i:i + len(pats)], e2):
                    out.append(lst[i])
                    if commit:
                        self.env = e2
                        commit = False
        out.sort(key=lambda n: (getattr(n, "lineno", 0), getattr(n, "col_offset", 0)))
        return out

    def find(self, pat: str, scope: ast.AST | None = None) -> ast.AST | None:
        """First match; its variable bindings are kept for later patterns."""
        r = self.find_all(pat, scope, commit=True)
        return r[0] if r else None

    def has(self, pat: str, scope: ast.AST | None = None) -> bool:
        return self.find(pat, scope) is not None

    def all(self, *pats: str) -> bool:
        return all(self.has(x) for x in pats)

    def name(self, var: str) -> str | None:
        return self.env.get(var)
