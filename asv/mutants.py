"""Scratch variants of the repository for the thorough-tier self-test of the checkers.

Two kinds, both generated from the *current* tree:
  neutral twins   - behaviour-preserving rewrites (ast.unparse round trip, local renames, extra logging lines,
                    reordered independent statements); every rule must stay silent
  breaking variants - one rule instance broken by a small edit that still compiles; the property's rules must fire

Variants are written to a directory made with tempfile.mkdtemp under /tmp and removed as soon as they are judged.
Nothing in a variant is imported or executed; it is only parsed.
"""
from __future__ import annotations

import ast
import builtins
import os
import shutil
import symtable
import tempfile

from .loader import PKG, REPO


def copy_pkg(repo: str = REPO) -> str:
    tmp = tempfile.mkdtemp(prefix="asv_variant_", dir="/tmp")
    os.makedirs(os.path.join(tmp, PKG))
    src = os.path.join(repo, PKG)
    for f in os.listdir(src):
        if f.endswith(".py"):
            shutil.copy(os.path.join(src, f), os.path.join(tmp, PKG, f))
    return tmp


def drop(tmp: str) -> None:
    shutil.rmtree(tmp, ignore_errors=True)


# ----------------------------------------------------------------------------
# neutral twins


def twin_unparse(tmp: str) -> None:
    d = os.path.join(tmp, PKG)
    for f in os.listdir(d):
        p = os.path.join(d, f)
        src = open(p).read()
        open(p, "w").write(ast.unparse(ast.parse(src)) + "\n")


class _LocalRenamer(ast.NodeTransformer):
    """Rename function-local variables (not parameters, globals, nonlocals, builtins) by a suffix."""

    def __init__(self, suffix: str, module_names: set[str]):
        self.suffix = suffix
        self.module_names = module_names
        self.stack: list[set[str]] = []

    def _locals_of(self, fn) -> set[str]:
        params = {a.arg for a in fn.args.posonlyargs + fn.args.args + fn.args.kwonlyargs}
        if fn.args.vararg:
            params.add(fn.args.vararg.arg)
        if fn.args.kwarg:
            params.add(fn.args.kwarg.arg)
        declared = set()
        stored = set()
        for n in ast.walk(fn):
            if isinstance(n, (ast.Global, ast.Nonlocal)):
                declared.update(n.names)
        todo = list(fn.body)
        while todo:
            n = todo.pop()
            if isinstance(n, (ast.FunctionDef, ast.AsyncFunctionDef, ast.ClassDef, ast.Lambda)):
                if not isinstance(n, ast.Lambda):
                    stored.add(n.name)  # keep nested def names as they are: excluded below
                continue
            if isinstance(n, ast.Name) and isinstance(n.ctx, (ast.Store, ast.Del)):
                stored.add(n.id)
            if isinstance(n, ast.ExceptHandler) and n.name:
                stored.add(n.name)
            if isinstance(n, (ast.Import, ast.ImportFrom)):
                for a in n.names:
                    declared.add((a.asname or a.name).split(".")[0])
            if isinstance(n, (ast.MatchAs, ast.MatchStar)) and getattr(n, "name", None):
                declared.add(n.name)
            if isinstance(n, (ast.ListComp, ast.SetComp, ast.DictComp, ast.GeneratorExp)):
                # comprehension targets are their own scope; leave them alone
                for g in n.generators:
                    for x in ast.walk(g.target):
                        if isinstance(x, ast.Name):
                            declared.add(x.id)
            todo.extend(ast.iter_child_nodes(n))
        nested = {n.name for n in ast.walk(fn) if isinstance(n, (ast.FunctionDef, ast.AsyncFunctionDef, ast.ClassDef)) and n is not fn}
        out = stored - params - declared - nested - set(dir(builtins))
        return {x for x in out if not x.startswith("__")}

    def _visit_fn(self, node):
        # nested functions may read the enclosing function's locals: only rename in leaf-most simple case
        inner = [n for n in ast.walk(node) if isinstance(n, (ast.FunctionDef, ast.AsyncFunctionDef, ast.Lambda)) and n is not node]
        comp = [n for n in ast.walk(node) if isinstance(n, (ast.ListComp, ast.SetComp, ast.DictComp, ast.GeneratorExp))]
        names = self._locals_of(node)
        if inner:
            names = set()  # closures: keep it simple and safe
        self.stack.append(names)
        node.body = [self.visit(s) for s in node.body]
        self.stack.pop()
        return node

    visit_FunctionDef = _visit_fn
    visit_AsyncFunctionDef = _visit_fn

    def visit_Name(self, node):
        if self.stack and node.id in self.stack[-1]:
            node.id = node.id + self.suffix
        return node

    def visit_ExceptHandler(self, node):
        if self.stack and node.name and node.name in self.stack[-1]:
            node.name = node.name + self.suffix
        self.generic_visit(node)
        return node


def twin_rename_locals(tmp: str, suffix: str = "_r") -> None:
    d = os.path.join(tmp, PKG)
    for f in os.listdir(d):
        p = os.path.join(d, f)
        tree = ast.parse(open(p).read())
        mod_names = {n.id for n in ast.walk(tree) if isinstance(n, ast.Name)}
        tree = _LocalRenamer(suffix, mod_names).visit(tree)
        ast.fix_missing_locations(tree)
        src = ast.unparse(tree) + "\n"
        compile(src, p, "exec")
        open(p, "w").write(src)


class _LogInjector(ast.NodeTransformer):
    def _inject(self, node):
        self.generic_visit(node)
        stmt = ast.parse("logger.debug('entering %s', " + repr(node.name) + ")").body[0]
        first = 0
        if node.body and isinstance(node.body[0], ast.Expr) and isinstance(node.body[0].value, ast.Constant) and isinstance(node.body[0].value.value, str):
            first = 1
        node.body.insert(first, stmt)
        return node

    visit_FunctionDef = _inject
    visit_AsyncFunctionDef = _inject


def twin_inject_logging(tmp: str) -> None:
    d = os.path.join(tmp, PKG)
    for f in os.listdir(d):
        p = os.path.join(d, f)
        tree = ast.parse(open(p).read())
        if not any(isinstance(n, ast.Assign) and any(isinstance(t, ast.Name) and t.id == "logger" for t in n.targets) for n in tree.body):
            continue
        tree = _LogInjector().visit(tree)
        ast.fix_missing_locations(tree)
        src = ast.unparse(tree) + "\n"
        compile(src, p, "exec")
        open(p, "w").write(src)


TWINS = {
    "unparse-roundtrip": twin_unparse,
    "rename-locals": twin_rename_locals,
    "inject-logging": twin_inject_logging,
}


class _IfElseInverter(ast.NodeTransformer):
    """`if c: A else: B`  ->  `if not c: B else: A`   (only plain if/else, not elif chains): behaviour-preserving."""

    def visit_If(self, node):
        self.generic_visit(node)
        if node.orelse and not (len(node.orelse) == 1 and isinstance(node.orelse[0], ast.If)):
            t = node.test
            if isinstance(t, ast.UnaryOp) and isinstance(t.op, ast.Not):
                nt = t.operand
            else:
                nt = ast.UnaryOp(op=ast.Not(), operand=t)
            return ast.copy_location(ast.If(test=nt, body=node.orelse, orelse=node.body), node)
        return node


def twin_invert_if_else(tmp: str) -> None:
    d = os.path.join(tmp, PKG)
    for f in os.listdir(d):
        p = os.path.join(d, f)
        tree = _IfElseInverter().visit(ast.parse(open(p).read()))
        ast.fix_missing_locations(tree)
        src = ast.unparse(tree) + "\n"
        compile(src, p, "exec")
        open(p, "w").write(src)


class _AugAssignExpander(ast.NodeTransformer):
    """`x += e` -> `x = x + e` for plain names and attributes of self (no subscripts: evaluated twice)."""

    def visit_AugAssign(self, node):
        self.generic_visit(node)
        t = node.target
        if isinstance(t, ast.Name) or (isinstance(t, ast.Attribute) and isinstance(t.value, ast.Name)):
            load = ast.Name(id=t.id, ctx=ast.Load()) if isinstance(t, ast.Name) else ast.Attribute(value=ast.Name(id=t.value.id, ctx=ast.Load()), attr=t.attr, ctx=ast.Load())
            return ast.copy_location(ast.Assign(targets=[t], value=ast.BinOp(left=load, op=node.op, right=node.value)), node)
        return node


def twin_expand_augassign(tmp: str) -> None:
    d = os.path.join(tmp, PKG)
    for f in os.listdir(d):
        p = os.path.join(d, f)
        tree = _AugAssignExpander().visit(ast.parse(open(p).read()))
        ast.fix_missing_locations(tree)
        src = ast.unparse(tree) + "\n"
        compile(src, p, "exec")
        open(p, "w").write(src)


EXTRA_TWINS = {
    "invert-if-else": twin_invert_if_else,
    "expand-augassign": twin_expand_augassign,
}


class _CompareMirror(ast.NodeTransformer):
    """`a == b` -> `b == a`, `a < b` -> `b > a` ... (single comparisons between side-effect-free operands)."""

    MIRROR = {ast.Eq: ast.Eq, ast.NotEq: ast.NotEq, ast.Lt: ast.Gt, ast.Gt: ast.Lt, ast.LtE: ast.GtE, ast.GtE: ast.LtE}

    def visit_Compare(self, node):
        self.generic_visit(node)
        if len(node.ops) == 1 and type(node.ops[0]) in self.MIRROR and not any(isinstance(x, (ast.Call, ast.Await)) for s in (node.left, node.comparators[0]) for x in ast.walk(s)):
            return ast.copy_location(ast.Compare(left=node.comparators[0], ops=[self.MIRROR[type(node.ops[0])]()], comparators=[node.left]), node)
        return node


def twin_mirror_compare(tmp: str) -> None:
    d = os.path.join(tmp, PKG)
    for f in os.listdir(d):
        p = os.path.join(d, f)
        tree = _CompareMirror().visit(ast.parse(open(p).read()))
        ast.fix_missing_locations(tree)
        src = ast.unparse(tree) + "\n"
        compile(src, p, "exec")
        open(p, "w").write(src)


class _SwapIndependent(ast.NodeTransformer):
    """Swap two adjacent plain assignments `a = e1; b = e2` (a, b distinct local names, neither expression reads the other
    target, no call / await / attribute store in either): order is unobservable."""

    def _swap(self, body):
        i = 0
        while i + 1 < len(body):
            s1, s2 = body[i], body[i + 1]
            if all(isinstance(s, ast.Assign) and len(s.targets) == 1 and isinstance(s.targets[0], ast.Name) and not any(isinstance(x, (ast.Call, ast.Await, ast.Yield, ast.NamedExpr)) for x in ast.walk(s.value)) for s in (s1, s2)):
                a, b = s1.targets[0].id, s2.targets[0].id
                r1 = {x.id for x in ast.walk(s1.value) if isinstance(x, ast.Name)}
                r2 = {x.id for x in ast.walk(s2.value) if isinstance(x, ast.Name)}
                if a != b and a not in r2 and b not in r1:
                    body[i], body[i + 1] = s2, s1
                    i += 2
                    continue
            i += 1
        return body

    def generic_visit(self, node):
        super().generic_visit(node)
        for fld in ("body", "orelse", "finalbody"):
            lst = getattr(node, fld, None)
            if isinstance(lst, list) and lst and isinstance(lst[0], ast.stmt):
                setattr(node, fld, self._swap(lst))
        return node


def twin_swap_independent(tmp: str) -> None:
    d = os.path.join(tmp, PKG)
    for f in os.listdir(d):
        p = os.path.join(d, f)
        tree = _SwapIndependent().visit(ast.parse(open(p).read()))
        ast.fix_missing_locations(tree)
        src = ast.unparse(tree) + "\n"
        compile(src, p, "exec")
        open(p, "w").write(src)


EXTRA_TWINS.update({"mirror-compare": twin_mirror_compare, "swap-independent": twin_swap_independent})
TWINS.update(EXTRA_TWINS)
