"""Nominal 'dimension' kinds for the integers that name messages.

UID   - IMAP unique identifier          SEQ - 1-based message sequence number
IDX   - 0-based position in msg_keys/uids   KEY - MH message file number

Seeds come from the repository's own declarations (attribute names, documented parameters); kinds are propagated
through assignments, loops, comprehensions, sorted/list/set and +-1 arithmetic.  A value of known kind A flowing into a
slot that expects kind B != A is a finding; an unknown kind is never a finding.
"""
from __future__ import annotations

import ast

from .astutil import body_walk, call_name, call_recv, fstring_parts, kwarg, norm, strip_await, walk_no_nested

UID, SEQ, IDX, KEY = "UID", "SeqNum", "Index", "Key"

# attribute name -> element kind of the list/set/dict-key it holds
ELEM_OF_ATTR = {
    "uids": UID, "snapshot_uids": UID,
    "msg_keys": KEY, "snapshot_msg_keys": KEY,
    "msg_set_as_set": SEQ,
}
# dict attribute -> (key kind, value kind)
MAPS = {"_uid_to_idx": (UID, IDX), "_msg_key_to_idx": (KEY, IDX)}
# parameters whose kind is documented by the callee (module.Qual.name -> {param: element-kind or scalar-kind})
PARAM_ELEM = {
    "mbox.Mailbox.fetch": {"msg_set": SEQ},
    "mbox.Mailbox.store": {"msg_set": SEQ},
    "mbox.Mailbox.expunge": {"uid_msg_set": UID},
}
PARAM_SCALAR = {
    "mbox.Mailbox.get_msg": {"msg_key": KEY},
    "mbox.Mailbox.get_msg_by_uid": {"uid": UID},
    "mbox.Mailbox.get_msg_by_seq_num": {"seq_num": SEQ},
    "mbox.Mailbox.msg_sequences": {"msg_key": KEY},
    "mbox.Mailbox.get_uid_from_msg": {"msg_key": KEY},
    "mbox.Mailbox._generate_fetch_msg_for": {"msg_key": KEY},
    "mbox.Mailbox._help_add_flag": {"key": KEY},
    "mbox.Mailbox._help_remove_flag": {"key": KEY},
    "mbox.Mailbox._help_replace_flags": {"key": KEY},
    "search.SearchContext.__init__": {"msg_key": KEY, "msg_number": SEQ},
}


class Kinds:
    def __init__(self, fi):
        self.fi = fi
        self.scalar: dict[str, set[str]] = {}
        self.elem: dict[str, set[str]] = {}
        for prm, k in PARAM_SCALAR.get(fi.key, {}).items():
            self.scalar.setdefault(prm, set()).add(k)
        for prm, k in PARAM_ELEM.get(fi.key, {}).items():
            self.elem.setdefault(prm, set()).add(k)
        for _ in range(4):
            if not self._pass():
                break

    # ------------------------------------------------------------------ queries
    def kind(self, e) -> str | None:
        ks = self._kinds(e)
        return next(iter(ks)) if len(ks) == 1 else None

    def elem_kind(self, e) -> str | None:
        ks = self._elems(e)
        return next(iter(ks)) if len(ks) == 1 else None

    # ------------------------------------------------------------------ inference
    def _kinds(self, e, depth=0) -> set[str]:
        e = strip_await(e)
        if depth > 6 or e is None:
            return set()
        if isinstance(e, ast.Name):
            return set(self.scalar.get(e.id, ()))
        if isinstance(e, ast.Subscript):
            b = e.value
            if isinstance(b, ast.Attribute):
                if b.attr in MAPS and not isinstance(e.slice, ast.Slice):
                    return {MAPS[b.attr][1]}
                if b.attr in ELEM_OF_ATTR and not isinstance(e.slice, ast.Slice):
                    return {ELEM_OF_ATTR[b.attr]}
            if isinstance(b, ast.Name) and not isinstance(e.slice, ast.Slice):
                return set(self.elem.get(b.id, ()))
            return set()
        if isinstance(e, ast.Call):
            nm = call_name(e)
            r = call_recv(e)
            if nm == "get" and isinstance(r, ast.Attribute) and r.attr in MAPS:
                return {MAPS[r.attr][1]}
            if nm == "index" and isinstance(r, ast.Attribute) and r.attr in ELEM_OF_ATTR:
                return {IDX}
            if isinstance(e.func, ast.Name) and e.func.id in ("int", "str") and e.args:
                a = strip_await(e.args[0])
                if isinstance(a, ast.Call) and call_name(a) == "add" and call_recv(a) is not None and norm(call_recv(a)).endswith(".mailbox"):
                    return {KEY}
                return self._kinds(a, depth + 1)
            if nm == "uid" and r is not None and norm(r).endswith("ctx"):
                return {UID}
            if isinstance(e.func, ast.Name) and e.func.id in ("min", "max") and e.args:
                return self._elems(e.args[0], depth + 1) if len(e.args) == 1 else set().union(*[self._kinds(a, depth + 1) for a in e.args])
            return set()
        if isinstance(e, ast.Attribute):
            if e.attr == "msg_key":
                return {KEY}
            if e.attr == "msg_number":
                return {SEQ}
            return set()
        if isinstance(e, ast.BinOp) and isinstance(e.op, (ast.Add, ast.Sub)) and isinstance(e.right, ast.Constant) and isinstance(e.right.value, int) and not isinstance(e.right.value, bool):
            l = self._kinds(e.left, depth + 1)
            c = e.right.value
            if c == 1 and isinstance(e.op, ast.Add) and l == {IDX}:
                return {SEQ}
            if c == 1 and isinstance(e.op, ast.Sub) and l == {SEQ}:
                return {IDX}
            if c != 0 and l in ({IDX}, {SEQ}):
                # a position shifted the wrong way or by more than the 0-/1-based convention: names a neighbouring message
                return {f"{next(iter(l))}{'+' if isinstance(e.op, ast.Add) else '-'}{c}"}
            return set()
        if isinstance(e, ast.IfExp):
            return self._kinds(e.body, depth + 1) | self._kinds(e.orelse, depth + 1)
        return set()

    def _elems(self, e, depth=0) -> set[str]:
        e = strip_await(e)
        if depth > 6 or e is None:
            return set()
        if isinstance(e, ast.Name):
            return set(self.elem.get(e.id, ()))
        if isinstance(e, ast.Attribute):
            if e.attr in ELEM_OF_ATTR:
                return {ELEM_OF_ATTR[e.attr]}
            return set()
        if isinstance(e, ast.Subscript):
            b = e.value
            if isinstance(e.slice, ast.Slice):
                return self._elems(b, depth + 1)
            if isinstance(b, ast.Attribute) and b.attr == "sequences":
                return {KEY}
            if isinstance(b, ast.Name) and b.id in ("seqs", "msg_seqs", "dest_mbox_seqs"):
                return {KEY}
            return set()
        if isinstance(e, ast.Call):
            nm = call_name(e)
            r = call_recv(e)
            if isinstance(e.func, ast.Name) and e.func.id in ("sorted", "list", "set", "reversed", "tuple", "frozenset") and e.args:
                return self._elems(e.args[0], depth + 1)
            if nm in ("keys", "iterkeys") and r is not None and norm(r).endswith(".mailbox"):
                return {KEY}
            if nm == "keys" and isinstance(r, ast.Attribute) and r.attr in MAPS:
                return {MAPS[r.attr][0]}
            if nm == "get" and isinstance(r, ast.Attribute) and r.attr == "sequences":
                return {KEY}
            if nm == "sequence_set_to_list":
                u = kwarg(e, "uid_cmd") or (e.args[2] if len(e.args) > 2 else None)
                if u is None or (isinstance(u, ast.Constant) and u.value is False):
                    return {SEQ}
                if isinstance(u, ast.Constant) and u.value is True:
                    return {UID}
                return set()
            if nm == "msg_set_to_msg_seq_set":
                return {SEQ}
            if nm in ("intersection", "union", "difference", "copy") and r is not None:
                return self._elems(r, depth + 1)
            return set()
        if isinstance(e, (ast.ListComp, ast.SetComp, ast.GeneratorExp)):
            g = e.generators[0]
            saved = dict(self.scalar)
            if isinstance(g.target, ast.Name):
                ks = self._elems(g.iter, depth + 1)
                if ks:
                    self.scalar[g.target.id] = set(ks)
                else:
                    self.scalar.pop(g.target.id, None)
            out = self._kinds(e.elt, depth + 1)
            self.scalar = saved
            return out
        if isinstance(e, (ast.List, ast.Set, ast.Tuple)):
            out = set()
            for x in e.elts:
                out |= self._kinds(x, depth + 1)
            return out
        if isinstance(e, ast.BinOp) and isinstance(e.op, (ast.Sub, ast.BitAnd, ast.BitOr)):
            return self._elems(e.left, depth + 1) | (self._elems(e.right, depth + 1) if not isinstance(e.op, ast.Sub) else set())
        if isinstance(e, ast.IfExp):
            a, b = self._elems(e.body, depth + 1), self._elems(e.orelse, depth + 1)
            return a | b
        return set()

    def _bind(self, table, name, ks) -> bool:
        if not ks:
            return False
        cur = table.setdefault(name, set())
        if ks <= cur:
            return False
        cur |= ks
        return True

    def _rebinding(self) -> set[int]:
        if not hasattr(self, "_rb"):
            self._rb = set()
            for n in body_walk(self.fi.node):
                if isinstance(n, ast.Assign) and len(n.targets) == 1 and isinstance(n.targets[0], ast.Name):
                    for c in ast.walk(n.value):
                        if isinstance(c, (ast.ListComp, ast.SetComp, ast.GeneratorExp, ast.DictComp)) and any(isinstance(g.iter, ast.Name) and g.iter.id == n.targets[0].id for g in c.generators):
                            self._rb.add(id(c))
        return self._rb

    def _pass(self) -> bool:
        ch = False
        for n in body_walk(self.fi.node):
            if isinstance(n, ast.Assign) and len(n.targets) == 1:
                t, v = n.targets[0], n.value
                if isinstance(t, ast.Name):
                    ch |= self._bind(self.scalar, t.id, self._kinds(v))
                    ch |= self._bind(self.elem, t.id, self._elems(v))
                elif isinstance(t, ast.Tuple):
                    vv = strip_await(v)
                    if isinstance(vv, ast.Call) and call_name(vv) == "get_uid_from_msg" and len(t.elts) == 2 and isinstance(t.elts[1], ast.Name):
                        ch |= self._bind(self.scalar, t.elts[1].id, {UID})
                    if isinstance(vv, ast.Call) and call_name(vv) == "copy" and len(t.elts) == 2 and r_is_mbox(vv):
                        for el in t.elts:
                            if isinstance(el, ast.Name):
                                ch |= self._bind(self.elem, el.id, {UID})
                    if isinstance(vv, ast.Tuple) and len(vv.elts) == len(t.elts):
                        for el, x in zip(t.elts, vv.elts):
                            if isinstance(el, ast.Name):
                                ch |= self._bind(self.scalar, el.id, self._kinds(x))
                                ch |= self._bind(self.elem, el.id, self._elems(x))
            elif isinstance(n, ast.AnnAssign) and isinstance(n.target, ast.Name) and n.value is not None:
                ch |= self._bind(self.scalar, n.target.id, self._kinds(n.value))
                ch |= self._bind(self.elem, n.target.id, self._elems(n.value))
            elif isinstance(n, (ast.For, ast.AsyncFor)):
                it = strip_await(n.iter)
                if isinstance(it, ast.Call) and isinstance(it.func, ast.Name) and it.func.id == "enumerate" and isinstance(n.target, ast.Tuple) and len(n.target.elts) == 2:
                    i, x = n.target.elts
                    base = it.args[0]
                    if isinstance(i, ast.Name) and isinstance(base, ast.Attribute) and base.attr in ELEM_OF_ATTR:
                        ch |= self._bind(self.scalar, i.id, {IDX})
                    if isinstance(x, ast.Name):
                        ch |= self._bind(self.scalar, x.id, self._elems(base))
                elif isinstance(n.target, ast.Name):
                    ch |= self._bind(self.scalar, n.target.id, self._elems(it))
            elif isinstance(n, (ast.ListComp, ast.SetComp, ast.GeneratorExp, ast.DictComp)):
                if id(n) in self._rebinding():
                    continue  # x = [f(e) for e in x]: the elements read are those of the *old* x (flow-insensitive union would mix them)
                for gen in n.generators:
                    if isinstance(gen.target, ast.Name):
                        ch |= self._bind(self.scalar, gen.target.id, self._elems(gen.iter))
            elif isinstance(n, ast.Call) and call_name(n) in ("append", "add") and isinstance(call_recv(n), ast.Name) and n.args:
                ch |= self._bind(self.elem, call_recv(n).id, self._kinds(n.args[0]))
            elif isinstance(n, ast.Call) and call_name(n) in ("extend", "update") and isinstance(call_recv(n), ast.Name) and n.args:
                ch |= self._bind(self.elem, call_recv(n).id, self._elems(n.args[0]))
        return ch


def r_is_mbox(call) -> bool:
    r = call_recv(call)
    return r is not None and "mbox" in norm(r)


# ----------------------------------------------------------------------------
KEY_CALLS = {"get_msg": 0, "aremove": 0, "msg_sequences": 0, "get_uid_from_msg": 0, "_generate_fetch_msg_for": 0, "get_message_path": 0}
KEY_STR_CALLS = {"get_bytes": 0, "remove": 0, "get_string": 0, "get_message": 0}


def check_function(fi):
    """Yield (node, expected, found, what) for kind mismatches in fi."""
    K = Kinds(fi)
    out = []

    def unstr(a):
        a = strip_await(a)
        if isinstance(a, ast.Call) and isinstance(a.func, ast.Name) and a.func.id in ("str", "int") and a.args:
            return a.args[0]
        return a

    for n in body_walk(fi.node):
        if isinstance(n, ast.Subscript) and isinstance(n.value, ast.Attribute) and not isinstance(n.slice, ast.Slice):
            a = n.value.attr
            k = K.kind(n.slice)
            if a in ELEM_OF_ATTR and a != "msg_set_as_set":
                if k is not None and k != IDX:
                    out.append((n, IDX, k, f"{norm(n.value)}[...] is indexed by position"))
            elif a in MAPS:
                if k is not None and k != MAPS[a][0]:
                    out.append((n, MAPS[a][0], k, f"{norm(n.value)} is keyed by {MAPS[a][0]}"))
        elif isinstance(n, ast.Compare) and len(n.ops) == 1 and isinstance(n.ops[0], (ast.In, ast.NotIn)) and isinstance(n.comparators[0], ast.Attribute) and n.comparators[0].attr in MAPS:
            k = K.kind(n.left)
            want = MAPS[n.comparators[0].attr][0]
            if k is not None and k != want:
                out.append((n, want, k, f"membership test in {norm(n.comparators[0])}"))
        elif isinstance(n, ast.Call):
            nm = call_name(n)
            r = call_recv(n)
            if nm in KEY_CALLS and n.args and r is not None:
                k = K.kind(unstr(n.args[0]))
                if k is not None and k != KEY:
                    out.append((n, KEY, k, f"{nm}() takes an MH message key"))
            elif nm in KEY_STR_CALLS and n.args and r is not None and norm(r).endswith(".mailbox"):
                k = K.kind(unstr(n.args[0]))
                if k is not None and k != KEY:
                    out.append((n, KEY, k, f"{norm(n.func)}() takes an MH message key"))
            elif nm == "mbox_msg_path" and len(n.args) > 1:
                k = K.kind(unstr(n.args[1]))
                if k is not None and k != KEY:
                    out.append((n, KEY, k, "mbox_msg_path() takes an MH message key"))
            elif nm == "get_msg_by_uid" and n.args:
                k = K.kind(n.args[0])
                if k is not None and k != UID:
                    out.append((n, UID, k, "get_msg_by_uid() takes a UID"))
            elif nm == "get_msg_by_seq_num" and n.args:
                k = K.kind(n.args[0])
                if k is not None and k != SEQ:
                    out.append((n, SEQ, k, "get_msg_by_seq_num() takes a sequence number"))
            elif isinstance(n.func, ast.Name) and n.func.id == "SearchContext" and len(n.args) >= 3:
                for pos, want in ((1, KEY), (2, SEQ)):
                    k = K.kind(n.args[pos])
                    if k is not None and k != want:
                        out.append((n, want, k, f"SearchContext argument {pos + 1}"))
            elif nm == "expunge" and isinstance(n.func, ast.Attribute):
                a = kwarg(n, "uid_msg_set") or (n.args[0] if n.args else None)
                if a is not None:
                    k = K.elem_kind(a)
                    if k is not None and k != UID:
                        out.append((n, UID, k, "expunge(uid_msg_set=...) takes UIDs"))
            elif nm in ("fetch", "store") and r is not None and "mbox" in norm(r) and n.args:
                k = K.elem_kind(n.args[0])
                if k is not None and k != SEQ:
                    out.append((n, SEQ, k, f"Mailbox.{nm}(msg_set=...) takes sequence numbers"))
            elif nm in ("add", "discard") and isinstance(r, ast.Subscript) and isinstance(r.value, ast.Attribute) and r.value.attr == "sequences" and n.args:
                k = K.kind(n.args[0])
                if k is not None and k != KEY:
                    out.append((n, KEY, k, "sequences hold MH message keys"))
        elif isinstance(n, ast.JoinedStr):
            parts = fstring_parts(n)
            if parts and isinstance(parts[0], str) and parts[0] == "* " and len(parts) >= 3 and isinstance(parts[2], str):
                tail = parts[2]
                if tail.startswith(" FETCH") or tail.startswith(" EXPUNGE"):
                    k = K.kind(parts[1])
                    if k is not None and k != SEQ:
                        out.append((n, SEQ, k, f"'* n{tail.split('(')[0].rstrip()}' announces a sequence number"))
    return out, K
