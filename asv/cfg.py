"""Statement-level control-flow graph with exception edges and await marks.

Built by hand over exactly the statement kinds the repository uses.  Every
compound statement is expanded; `finally` bodies are duplicated per
continuation (normal / exceptional / return / break / continue) so that path
queries stay path-exact.  `with` blocks get an explicit exit node on each
continuation.  Nested defs, lambdas and comprehensions are opaque expressions.

Edge labels
  next        ordinary sequencing
  true/false  outcome of a test node (edge carries cond=(expr, polarity))
  case        a match-case pattern matched (cond=('case', subject, pattern))
  nomatch     no case matched
  exc         node raised -> innermost exception dispatch node
  catch       dispatch -> an `except` handler entry
  uncaught    dispatch -> next outer dispatch (no handler matched)
  uncaught_base  same, but only BaseException (cancellation) can take it,
              because an `except Exception`/`except BaseException` arm precedes
  return/break/continue   jump edges (after running finally/with-exit copies)
"""
from __future__ import annotations

import ast
from dataclasses import dataclass, field

from .astutil import has_await, head, norm, walk_no_nested

LOG_METHODS = {"debug", "info", "warning", "warn", "error", "exception", "critical", "log"}


@dataclass
class Node:
    id: int
    kind: str
    ast: ast.AST | None = None
    stmt: ast.AST | None = None
    awaits: bool = False
    text: str = ""
    copy_of: str = ""  # "" for the primary copy, else tag of the finally copy

    @property
    def line(self) -> int:
        for n in (self.ast, self.stmt):
            if n is not None and hasattr(n, "lineno"):
                return n.lineno
        return 0

    def __repr__(self) -> str:  # pragma: no cover
        return f"<{self.id}:{self.kind}@{self.line} {self.text[:50]}>"


@dataclass
class Edge:
    src: int
    dst: int
    label: str
    cond: tuple | None = None


def is_log_call(call: ast.Call) -> bool:
    f = call.func
    if isinstance(f, ast.Attribute) and f.attr in LOG_METHODS:
        v = f.value
        if isinstance(v, ast.Name) and v.id in ("logger", "log", "logging"):
            return True
        if isinstance(v, ast.Attribute) and v.attr in ("logger", "log"):
            return True
    return False


SAFE_CALLS = {
    "time.monotonic", "time.time", "asyncio.Event", "asyncio.Lock", "asyncio.Queue", "len", "isinstance",
    "bool", "set", "list", "dict", "defaultdict", "tuple", "str", "repr", "id", "hasattr", "getattr3",
    "asyncio.get_running_loop", "asyncio.current_task",
}


def _safe_call(c: ast.Call) -> bool:
    try:
        name = ast.unparse(c.func)
    except Exception:  # pragma: no cover
        return False
    if isinstance(c.func, ast.Attribute) and c.func.attr in ("set", "is_set", "locked", "done", "cancel", "cancelled") and not c.args and not c.keywords:
        return True  # asyncio.Event/Lock/Task accessors
    if name in ("str", "list", "set", "dict", "tuple", "bool") and c.args:
        return False  # conversions of arbitrary values may raise
    return name in SAFE_CALLS


def may_raise(node: ast.AST | None) -> bool:
    """Conservative: can evaluating this expression/statement raise?

    Calls (except logging), awaits, subscripts, assert, raise, del, division.
    """
    if node is None:
        return False
    if isinstance(node, (ast.Assert, ast.Raise, ast.Delete)):
        return True
    for n in walk_no_nested(node):
        if isinstance(n, ast.Call):
            if _safe_call(n):
                continue
            if not is_log_call(n):
                return True
            # arguments of a logging call may still raise
            for a in list(n.args) + [k.value for k in n.keywords]:
                if may_raise(a):
                    return True
        elif isinstance(n, (ast.Await, ast.Yield, ast.YieldFrom)):
            return True
        elif isinstance(n, ast.Subscript) and isinstance(n.ctx, (ast.Load, ast.Del)):
            return True
        elif isinstance(n, ast.BinOp) and isinstance(n.op, (ast.Div, ast.FloorDiv, ast.Mod)):
            if not (isinstance(n.left, (ast.Constant, ast.JoinedStr)) and isinstance(n.op, ast.Mod)):
                return True
    return False


def _quiet_exit(w: ast.AST) -> bool:
    """Context managers whose __aexit__ cannot raise after a body that completed normally:
    asyncio.timeout (only converts a cancellation it caused itself) and asyncio locks."""
    for it in w.items:
        t = norm(it.context_expr)
        if t.startswith("asyncio.timeout(") or t.startswith("asyncio.timeout_at("):
            continue
        if t.endswith("_lock") or t.endswith(".lock_folder()") or t.endswith("_lock.read_lock()") or t.endswith("_lock.write_lock()"):
            continue
        return False
    return True


class _Frame:
    pass


@dataclass
class _TryFrame(_Frame):
    handlers: list  # (ast.ExceptHandler, entry node id)
    dispatch: int | None = None


@dataclass
class _FinallyFrame(_Frame):
    body: list
    tag: str
    copies: dict = field(default_factory=dict)


def _suppresses(s) -> bool:
    """`with suppress(...)` / `with contextlib.suppress(...)` (not async)"""
    if not isinstance(s, ast.With):
        return False
    for it in s.items:
        c = it.context_expr
        if isinstance(c, ast.Call) and ((isinstance(c.func, ast.Name) and c.func.id == "suppress") or (isinstance(c.func, ast.Attribute) and c.func.attr == "suppress")):
            return True
    return False


@dataclass
class _WithFrame(_Frame):
    stmt: ast.AST
    copies: dict = field(default_factory=dict)


@dataclass
class _LoopFrame(_Frame):
    head: int
    after: int  # a join node


def _handler_names(h: ast.ExceptHandler) -> list[str]:
    if h.type is None:
        return ["BaseException"]
    ts = h.type.elts if isinstance(h.type, ast.Tuple) else [h.type]
    out = []
    for t in ts:
        s = norm(t)
        out.append(s.split(".")[-1])
    return out


class CFG:
    def __init__(self, fn: ast.AST, name: str = ""):
        self.fn = fn
        self.name = name or getattr(fn, "name", "<fn>")
        self.nodes: list[Node] = []
        self.out: dict[int, list[Edge]] = {}
        self.inc: dict[int, list[Edge]] = {}
        self.by_ast: dict[int, list[int]] = {}  # id(ast node) -> cfg node ids
        self._frames: list[_Frame] = []
        self._copytag = ""
        self.entry = self._new("entry", text="ENTRY")
        self.exit = self._new("exit", text="EXIT")
        self.raise_exit = self._new("raise_exit", text="RAISE-EXIT")
        ends = self._block(getattr(fn, "body", []), [self.entry])
        self._link(ends, self.exit)

    # ------------------------------------------------------------------ utils
    def _new(self, kind: str, a: ast.AST | None = None, stmt: ast.AST | None = None, text: str = "") -> int:
        n = Node(len(self.nodes), kind, a, stmt if stmt is not None else a, False, text, self._copytag)
        if a is not None:
            n.awaits = has_await(a) if kind not in ("with_exit",) else isinstance(a, ast.AsyncWith)
            if not text:
                n.text = head(a)
            self.by_ast.setdefault(id(a), []).append(n.id)
            if stmt is not None and stmt is not a and kind in ("test", "iter", "match"):
                self.by_ast.setdefault(id(stmt), []).append(n.id)
        self.nodes.append(n)
        self.out[n.id] = []
        self.inc[n.id] = []
        return n.id

    def _edge(self, a: int, b: int, label: str, cond: tuple | None = None) -> None:
        for e in self.out[a]:
            if e.dst == b and e.label == label and e.cond == cond:
                return
        e = Edge(a, b, label, cond)
        self.out[a].append(e)
        self.inc[b].append(e)

    def _link(self, preds: list, nid: int) -> None:
        for p in preds:
            if isinstance(p, tuple):
                self._edge(p[0], nid, p[1], p[2])
            else:
                self._edge(p, nid, "next")

    # ------------------------------------------------------- exception routing
    def _dispatch(self, depth: int | None = None) -> int:
        """Node an exception raised under self._frames[:depth] lands on."""
        if depth is None:
            depth = len(self._frames)
        i = depth - 1
        while i >= 0:
            fr = self._frames[i]
            if isinstance(fr, _TryFrame):
                if fr.dispatch is None:
                    fr.dispatch = self._new("dispatch", text="exception dispatch")
                    outer_label = "uncaught"
                    stop = False
                    for h, hid in fr.handlers:
                        self._edge(fr.dispatch, hid, "catch")
                        names = _handler_names(h)
                        if "BaseException" in names:
                            stop = True
                        elif "Exception" in names:
                            outer_label = "uncaught_base"
                    if not stop:
                        self._edge(fr.dispatch, self._dispatch(i), outer_label)
                return fr.dispatch
            if isinstance(fr, _FinallyFrame):
                key = ("exc",)
                if key not in fr.copies:
                    start = self._new("finally", stmt=None, text=f"finally[{fr.tag}] (exceptional)")
                    fr.copies[key] = start
                    ends = self._run_copy(fr, i, [start], "exc")
                    tgt = self._dispatch(i)
                    for e in ends:
                        if isinstance(e, tuple):
                            self._edge(e[0], tgt, e[1], e[2])
                        else:
                            self._edge(e, tgt, "uncaught")
                return fr.copies[key]
            if isinstance(fr, _WithFrame):
                key = ("exc",)
                if key not in fr.copies:
                    wx = self._new("with_exit", fr.stmt, text="exit(exc) " + head(fr.stmt))
                    fr.copies[key] = wx
                    self._edge(wx, self._dispatch(i), "uncaught")
                return fr.copies[key]
            i -= 1
        return self.raise_exit

    def _run_copy(self, fr: _FinallyFrame, depth: int, preds: list, kind: str) -> list:
        """Build a copy of a finally body in the context of frames[:depth]."""
        saved, savedtag = self._frames, self._copytag
        self._frames = saved[:depth]
        self._copytag = f"{fr.tag}:{kind}"
        try:
            return self._block(fr.body, preds)
        finally:
            self._frames, self._copytag = saved, savedtag

    def _jump(self, preds: list, target_depth: int, target: int, label: str) -> None:
        """Route a jump (return/break/continue) through finally/with frames above target_depth."""
        i = len(self._frames) - 1
        cur = preds
        while i >= target_depth:
            fr = self._frames[i]
            if isinstance(fr, _FinallyFrame):
                key = (label, target)
                if key not in fr.copies:
                    start = self._new("finally", text=f"finally[{fr.tag}] ({label})")
                    fr.copies[key] = (start, None)
                    ends = self._run_copy(fr, i, [start], label)
                    fr.copies[key] = (start, ends)
                    self._link(cur, start)
                    cur = ends
                else:
                    start, ends = fr.copies[key]
                    self._link(cur, start)
                    # the rest of the chain from this copy was already built
                    if ends is None:
                        return
                    cur = ends
                    # continue routing outward from the shared copy: edges are idempotent
            elif isinstance(fr, _WithFrame):
                key = (label, target)
                if key not in fr.copies:
                    wx = self._new("with_exit", fr.stmt, text=f"exit({label}) " + head(fr.stmt))
                    fr.copies[key] = wx
                wx = fr.copies[key]
                self._link(cur, wx)
                cur = [wx]
            i -= 1
        for p in cur:
            if isinstance(p, tuple):
                self._edge(p[0], target, p[1], p[2])
            else:
                self._edge(p, target, label)

    def _exc_edge(self, nid: int) -> None:
        self._edge(nid, self._dispatch(), "exc")

    # ------------------------------------------------------------- statements
    def _block(self, stmts: list, preds: list) -> list:
        cur = preds
        for s in stmts:
            if not cur:
                break  # unreachable code
            cur = self._stmt(s, cur)
        return cur

    def _simple(self, s: ast.AST, preds: list, kind: str = "stmt") -> int:
        nid = self._new(kind, s)
        self._link(preds, nid)
        if may_raise(s):
            self._exc_edge(nid)
        return nid

    def _test_edges(self, nid: int, test: ast.AST) -> tuple[list, list]:
        t: list = [(nid, "true", (test, True))]
        f: list = [(nid, "false", (test, False))]
        if isinstance(test, ast.Constant):
            if test.value:
                f = []
            else:
                t = []
        return t, f

    def _stmt(self, s: ast.AST, preds: list) -> list:
        if isinstance(s, ast.If):
            nid = self._new("test", s.test, s, text="if " + norm(s.test, 100))
            self._link(preds, nid)
            if may_raise(s.test):
                self._exc_edge(nid)
            t, f = self._test_edges(nid, s.test)
            ends = self._block(s.body, t) if t else []
            ends += self._block(s.orelse, f) if (f and s.orelse) else f
            return ends
        if isinstance(s, ast.While):
            nid = self._new("test", s.test, s, text="while " + norm(s.test, 100))
            self._link(preds, nid)
            if may_raise(s.test):
                self._exc_edge(nid)
            after = self._new("join", text="after while")
            t, f = self._test_edges(nid, s.test)
            self._frames.append(_LoopFrame(nid, after))
            ends = self._block(s.body, t) if t else []
            self._frames.pop()
            for e in ends:
                self._link([e], nid)
            if f:
                oe = self._block(s.orelse, f) if s.orelse else f
                self._link(oe, after)
            return [after] if self.inc[after] else []
        if isinstance(s, (ast.For, ast.AsyncFor)):
            nid = self._new("iter", s.iter, s, text=head(s))
            if isinstance(s, ast.AsyncFor):
                self.nodes[nid].awaits = True
            self._link(preds, nid)
            self._exc_edge(nid)
            after = self._new("join", text="after for")
            self._frames.append(_LoopFrame(nid, after))
            ends = self._block(s.body, [(nid, "true", ("iter", s, True))])
            self._frames.pop()
            for e in ends:
                self._link([e], nid)
            f = [(nid, "false", ("iter", s, False))]
            oe = self._block(s.orelse, f) if s.orelse else f
            self._link(oe, after)
            return [after]
        if isinstance(s, (ast.With, ast.AsyncWith)):
            ent = self._new("with_enter", s, text="enter " + head(s))
            if isinstance(s, ast.AsyncWith):
                self.nodes[ent].awaits = True
            self._link(preds, ent)
            if not _quiet_exit(s):
                # entering asyncio.timeout()/a lock raises only on cancellation while waiting for the lock,
                # which (like cancellation inside a finally) is outside what the rules quantify over
                self._exc_edge(ent)
            fr = _WithFrame(s)
            self._frames.append(fr)
            ends = self._block(s.body, [ent])
            self._frames.pop()
            # `with suppress(E):` - an exception of the body may be swallowed: control then continues behind the statement
            # (also when the body itself never completes normally, e.g. a `while True` drained by QueueEmpty)
            swallowed = fr.copies.get(("exc",)) if _suppresses(s) else None
            if not ends and swallowed is None:
                return []
            wx = self._new("with_exit", s, text="exit " + head(s))
            self._link(ends, wx)
            if swallowed is not None:
                self._edge(swallowed, wx, "catch")
            if isinstance(s, ast.AsyncWith) and not _quiet_exit(s):
                self._exc_edge(wx)
            return [wx]
        if isinstance(s, (ast.Try, getattr(ast, "TryStar", ast.Try))):
            tag = f"try@{s.lineno}"
            ffr = _FinallyFrame(s.finalbody, tag) if s.finalbody else None
            if ffr:
                self._frames.append(ffr)
            handlers = []
            for h in s.handlers:
                hid = self._new("handler", h, text="except " + (norm(h.type) if h.type is not None else "<bare>"))
                handlers.append((h, hid))
            tfr = _TryFrame(handlers)
            self._frames.append(tfr)
            body_ends = self._block(s.body, preds)
            self._frames.pop()
            # else: not protected by handlers, but by finally
            if s.orelse:
                body_ends = self._block(s.orelse, body_ends)
            ends = list(body_ends)
            reachable_handlers = tfr.dispatch is not None
            for h, hid in handlers:
                if not reachable_handlers:
                    continue
                ends += self._block(h.body, [hid])
            if ffr:
                self._frames.pop()
                if ends:
                    start = self._new("finally", text=f"finally[{tag}] (normal)")
                    self._link(ends, start)
                    saved = self._copytag
                    self._copytag = f"{tag}:normal"
                    ends = self._block(s.finalbody, [start])
                    self._copytag = saved
            return ends
        if isinstance(s, ast.Match):
            nid = self._new("match", s.subject, s, text=head(s))
            self._link(preds, nid)
            if may_raise(s.subject):
                self._exc_edge(nid)
            ends: list = []
            exhaustive = False
            for c in s.cases:
                cn = self._new("case", c.pattern, s, text="case " + norm(c.pattern, 100))
                self._edge(nid, cn, "case", ("case", s.subject, c.pattern))
                src: list = [cn]
                if c.guard is not None:
                    g = self._new("test", c.guard, s, text="case-guard " + norm(c.guard, 80))
                    self._link([cn], g)
                    src = [(g, "true", (c.guard, True))]
                    # guard false falls to "nomatch" (approximation: next cases are also reachable from match node)
                    ends.append((g, "false", (c.guard, False)))
                ends += self._block(c.body, src)
                if isinstance(c.pattern, ast.MatchAs) and c.pattern.pattern is None and c.guard is None:
                    exhaustive = True
            if not exhaustive:
                ends.append((nid, "nomatch", None))
            return ends
        if isinstance(s, ast.Return):
            nid = self._new("return", s)
            self._link(preds, nid)
            if may_raise(s.value):
                self._exc_edge(nid)
            self._jump([nid], 0, self.exit, "return")
            return []
        if isinstance(s, ast.Raise):
            nid = self._new("raise", s)
            self._link(preds, nid)
            self._edge(nid, self._dispatch(), "exc")
            return []
        if isinstance(s, (ast.Break, ast.Continue)):
            nid = self._new("jump", s)
            self._link(preds, nid)
            for i in range(len(self._frames) - 1, -1, -1):
                fr = self._frames[i]
                if isinstance(fr, _LoopFrame):
                    if isinstance(s, ast.Break):
                        self._jump([nid], i + 1, fr.after, "break")
                    else:
                        self._jump([nid], i + 1, fr.head, "continue")
                    break
            return []
        if isinstance(s, (ast.FunctionDef, ast.AsyncFunctionDef, ast.ClassDef)):
            nid = self._new("def", s, text=head(s))
            self._link(preds, nid)
            return [nid]
        if isinstance(s, ast.Assert):
            nid = self._simple(s, preds, "assert")
            return [nid]
        if isinstance(s, ast.Expr) and isinstance(s.value, ast.Call) and norm(s.value.func) in ("sys.exit", "os._exit", "exit", "quit"):
            nid = self._new("raise", s)  # SystemExit: does not fall through
            self._link(preds, nid)
            self._edge(nid, self._dispatch(), "exc")
            return []
        # everything else: Expr, Assign, AugAssign, AnnAssign, Delete, Pass,
        # Import, Global, Nonlocal ...
        nid = self._simple(s, preds)
        return [nid]

    # --------------------------------------------------------------- queries
    def nodes_for(self, a: ast.AST) -> list[int]:
        return self.by_ast.get(id(a), [])

    def find_nodes(self, pred) -> list[int]:
        return [n.id for n in self.nodes if pred(n)]

    def describe(self, nid: int) -> str:
        n = self.nodes[nid]
        tag = f" <{n.copy_of}>" if n.copy_of else ""
        return f"{n.kind}@{n.line}{tag}: {n.text[:90]}"


def build_cfg(fn: ast.AST, name: str = "") -> CFG:
    return CFG(fn, name)
