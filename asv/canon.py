"""Canonical forms.  Applied to every analysed module at load time *and* to every rule pattern, so that equivalent
spellings of a statement look the same to the rules.  All rewrites are behaviour-preserving for the analysed program (they
are never executed anyway); where a rewrite could change evaluation order of side effects it is restricted to pure-looking
operands.

   expressions
     K <op> x                      ->  x <mirrored op> K          (K constant-like)
     not (a <cmp> b)               ->  a <negated cmp> b
   statements
     x = x <op> e                  ->  x <op>= e
     if c: x = A  else: x = B      ->  x = A if c else B
     x = A if c else x             ->  if c: x = A                (and the mirrored form)
     if c: r.append(A) else: r.append(B)  ->  r.append(A if c else B)
     if c: return True [else:] return False   ->  return c       (c a comparison / boolean operation / call)
     loop body  ...; if c: S1; continue; S2   ->  ...; if c: S1 else: S2
     t = e ; <next statement using t once>    ->  the statement with e in place of t   (t used nowhere else)
     xs = [] ; for v in it: [if c:] xs.append(e)   ->  xs = [e for v in it if c]
"""
from __future__ import annotations

import ast
import copy

_MIRROR = {ast.Eq: ast.Eq, ast.NotEq: ast.NotEq, ast.Lt: ast.Gt, ast.Gt: ast.Lt, ast.LtE: ast.GtE, ast.GtE: ast.LtE}
_NEGATE = {ast.Eq: ast.NotEq, ast.NotEq: ast.Eq, ast.Lt: ast.GtE, ast.GtE: ast.Lt, ast.Gt: ast.LtE, ast.LtE: ast.Gt, ast.In: ast.NotIn, ast.NotIn: ast.In, ast.Is: ast.IsNot, ast.IsNot: ast.Is}


def _dump(n) -> str:
    return ast.dump(n).replace("Load()", "X").replace("Store()", "X")


def _constant_like(e) -> bool:
    if isinstance(e, ast.Constant):
        return True
    if isinstance(e, ast.UnaryOp) and isinstance(e.operand, ast.Constant):
        return True
    if isinstance(e, ast.Name) and e.id.isupper():
        return True
    if isinstance(e, ast.Attribute) and e.attr.isupper() and isinstance(e.value, ast.Name) and e.value.id[:1].isupper():
        return True
    return False


def _pure(e) -> bool:
    return not any(isinstance(x, (ast.Await, ast.Yield, ast.YieldFrom, ast.NamedExpr)) for x in ast.walk(e))


def _size(stmts) -> int:
    return sum(1 for s in stmts for _ in ast.walk(s))


def _ends_in_jump(stmts) -> bool:
    return bool(stmts) and isinstance(stmts[-1], (ast.Return, ast.Raise, ast.Continue, ast.Break))


def _free_negation(e) -> bool:
    """The negation of e can be written without a new `not`."""
    if isinstance(e, ast.UnaryOp) and isinstance(e.op, ast.Not):
        return True
    if isinstance(e, ast.Compare) and len(e.ops) == 1 and type(e.ops[0]) in _NEGATE:
        return True
    if isinstance(e, ast.BoolOp):
        return all(_free_negation(v) for v in e.values)
    return False


def _nnf_ok(e) -> bool:
    """e is an and/or whose operands are negatable without loss: comparisons, negations, nested and/or of such, or plain
    names / attributes / calls (which get a `not`).  In test position `not (a or b)` and `not a and not b` are the same test;
    the second spelling (negation-normal form) is the canonical one."""
    if isinstance(e, ast.BoolOp):
        return all(_nnf_ok(v) or _free_negation(v) or isinstance(v, (ast.Name, ast.Attribute, ast.Call, ast.Subscript)) for v in e.values)
    return False


def negate(test: ast.expr) -> ast.expr:
    if isinstance(test, ast.UnaryOp) and isinstance(test.op, ast.Not):
        return test.operand
    if isinstance(test, ast.BoolOp) and not _free_negation(test) and _nnf_ok(test) and getattr(test, "_asv_test", False):
        return ast.copy_location(ast.BoolOp(op=ast.Or() if isinstance(test.op, ast.And) else ast.And(), values=[negate(v) for v in test.values]), test)
    if isinstance(test, ast.BoolOp) and _free_negation(test):
        # De Morgan (short-circuit order and truth value are preserved; operands here are tests, used for their truth)
        return ast.copy_location(ast.BoolOp(op=ast.Or() if isinstance(test.op, ast.And) else ast.And(), values=[negate(v) for v in test.values]), test)
    if isinstance(test, ast.Compare) and len(test.ops) == 1 and type(test.ops[0]) in _NEGATE:
        return ast.copy_location(ast.Compare(left=test.left, ops=[_NEGATE[type(test.ops[0])]()], comparators=test.comparators), test)
    return ast.copy_location(ast.UnaryOp(op=ast.Not(), operand=test), test)


_NEGATIVE = (ast.NotEq, ast.NotIn, ast.IsNot, ast.GtE, ast.LtE)


def _negative(test) -> bool:
    if isinstance(test, ast.UnaryOp) and isinstance(test.op, ast.Not):
        return True
    return isinstance(test, ast.Compare) and len(test.ops) == 1 and isinstance(test.ops[0], _NEGATIVE)


def _multi_assign(stmts):
    """([names], [values]) when the block is nothing but assignments of pure values to distinct local names, none of which
    reads one of those names (so they commute with each other and with a common test): `x, y = a, b` or `x = a; y = b`."""
    names, vals = [], []
    for s in stmts:
        if not (isinstance(s, ast.Assign) and len(s.targets) == 1):
            return None
        t, v = s.targets[0], s.value
        if isinstance(t, ast.Name):
            names.append(t.id)
            vals.append(v)
        elif isinstance(t, ast.Tuple) and isinstance(v, ast.Tuple) and len(t.elts) == len(v.elts) and all(isinstance(e, ast.Name) for e in t.elts):
            names.extend(e.id for e in t.elts)
            vals.extend(v.elts)
        else:
            return None
    if not names or len(set(names)) != len(names):
        return None
    if not all(_pure(v) and not any(_uses(v, n) for n in names) for v in vals):
        return None
    return names, vals


def ifexp(test, a, b):
    """`a if test else b` with the positive spelling of the test (the two spellings are the same expression)."""
    if _negative(test):
        test, a, b = negate(test), b, a
    if isinstance(a, ast.Tuple) and isinstance(b, ast.Tuple) and len(a.elts) == len(b.elts) and a.elts and _pure(test) and all(_pure(x) for x in a.elts + b.elts):
        # (a1, k) if c else (a2, k)  ->  (a1 if c else a2, k)
        if sum(1 for x, y in zip(a.elts, b.elts) if _dump(x) != _dump(y)) == 1:
            return ast.Tuple(elts=[x if _dump(x) == _dump(y) else ifexp(copy.deepcopy(test), x, y) for x, y in zip(a.elts, b.elts)], ctx=ast.Load())
    return ast.IfExp(test=test, body=a, orelse=b)


def _in_test_position(node) -> bool:
    return getattr(node, "_asv_test", False)


def _mark_tests_expr(e) -> None:
    e._asv_test = True
    if isinstance(e, ast.UnaryOp) and isinstance(e.op, ast.Not):
        _mark_tests_expr(e.operand)
    elif isinstance(e, ast.BoolOp):
        for v in e.values:
            _mark_tests_expr(v)


def _mark_tests(tree) -> None:
    """Mark expressions that are used for their truth only (tests of if / while / conditional expressions / assert /
    comprehension conditions, and operands of `not` / and / or inside those): De Morgan may be applied there."""
    def mark(e):
        e._asv_test = True
        if isinstance(e, ast.UnaryOp) and isinstance(e.op, ast.Not):
            mark(e.operand)
        elif isinstance(e, ast.BoolOp):
            for v in e.values:
                mark(v)

    for n in ast.walk(tree):
        if isinstance(n, (ast.If, ast.While, ast.IfExp, ast.Assert)):
            mark(n.test)
        elif isinstance(n, ast.comprehension):
            for c in n.ifs:
                mark(c)


def _concat_leaves(e, out) -> bool:
    if isinstance(e, ast.BinOp) and isinstance(e.op, ast.Add):
        return _concat_leaves(e.left, out) and _concat_leaves(e.right, out)
    if isinstance(e, ast.Constant) and isinstance(e.value, str):
        out.append(e)
        return True
    if isinstance(e, ast.JoinedStr):
        out.extend(e.values)
        return True
    if isinstance(e, ast.Call) and isinstance(e.func, ast.Name) and e.func.id == "str" and len(e.args) == 1 and not e.keywords:
        out.append(ast.FormattedValue(value=e.args[0], conversion=-1, format_spec=None))
        return True
    return False


def _intlike(e) -> bool:
    return (isinstance(e, ast.Constant) and isinstance(e.value, int) and not isinstance(e.value, bool)) or (isinstance(e, ast.Call) and isinstance(e.func, ast.Name) and e.func.id in ("len", "int") and not e.keywords)


def _format_to_fstring(fmt: str, args: list):
    import string

    vals: list = []
    auto = 0
    used = set()
    try:
        fields = list(string.Formatter().parse(fmt))
    except ValueError:
        return None
    for lit, field, spec, conv in fields:
        if lit:
            if vals and isinstance(vals[-1], ast.Constant):
                vals[-1] = ast.Constant(value=vals[-1].value + lit)
            else:
                vals.append(ast.Constant(value=lit))
        if field is None:
            continue
        if spec or conv:
            return None
        if field == "":
            idx = auto
            auto += 1
        elif field.isdigit():
            idx = int(field)
        else:
            return None
        if idx >= len(args):
            return None
        used.add(idx)
        vals.append(ast.FormattedValue(value=args[idx], conversion=-1, format_spec=None))
    if used != set(range(len(args))):
        return None  # an argument that is evaluated but not shown (or shown twice) - leave it
    return ast.JoinedStr(values=vals)


def _percent_to_fstring(node):
    """'{%d}\n' % len(x)  ->  f'{{{len(x)}}}\n'   (plain %s of anything, plain %d of an int-valued expression)"""
    if not (isinstance(node.left, ast.Constant) and isinstance(node.left.value, str)):
        return node
    import re as _re

    fmt = node.left.value
    parts = _re.split(r"(%[sd%])", fmt)
    if "%" in "".join(p for p in parts if not _re.fullmatch(r"%[sd%]", p)):
        return node  # a conversion this rewrite does not know
    n_args = sum(1 for p in parts if p in ("%s", "%d"))
    if isinstance(node.right, ast.Tuple):
        args = list(node.right.elts)
    elif n_args == 1 and isinstance(node.right, (ast.Call, ast.Constant, ast.Attribute, ast.Subscript, ast.JoinedStr)) and not (isinstance(node.right, ast.Constant) and isinstance(node.right.value, tuple)):
        # a call / attribute could still be a tuple at run time; only take forms that are plainly scalar
        if not (_intlike(node.right) or isinstance(node.right, (ast.Constant, ast.JoinedStr))):
            return node
        args = [node.right]
    else:
        return node
    if len(args) != n_args or n_args == 0:
        return node
    vals: list = []
    it = iter(args)
    for p in parts:
        if p == "%%":
            p = "%"
        if p in ("%s", "%d"):
            a = next(it)
            if p == "%d" and not _intlike(a):
                return node
            vals.append(ast.FormattedValue(value=a, conversion=-1, format_spec=None))
        elif p:
            if vals and isinstance(vals[-1], ast.Constant):
                vals[-1] = ast.Constant(value=vals[-1].value + p)
            else:
                vals.append(ast.Constant(value=p))
    return ast.copy_location(ast.JoinedStr(values=vals), node)


def _concat_to_fstring(node):
    """'{' + str(n) + '}'  ->  f'{{{n}}}'   (a + chain of str constants, f-strings and str(x) calls is that f-string)."""
    if not (isinstance(node, ast.BinOp) and isinstance(node.op, ast.Add)):
        return node
    leaves: list = []
    if not _concat_leaves(node, leaves) or not any(isinstance(x, ast.FormattedValue) for x in leaves):
        return node
    vals: list = []
    for x in leaves:
        if isinstance(x, ast.Constant) and vals and isinstance(vals[-1], ast.Constant):
            vals[-1] = ast.Constant(value=vals[-1].value + x.value)
        else:
            vals.append(x)
    return ast.copy_location(ast.JoinedStr(values=vals), node)


class _Expr(ast.NodeTransformer):
    def visit_IfExp(self, node):
        self.generic_visit(node)
        return ast.copy_location(ifexp(node.test, node.body, node.orelse), node)

    def visit_BoolOp(self, node):
        self.generic_visit(node)
        # (a and b) and c  ->  a and b and c
        vals = []
        for v in node.values:
            if isinstance(v, ast.BoolOp) and type(v.op) is type(node.op):
                vals.extend(v.values)
            else:
                vals.append(v)
        node.values = vals
        return node

    def visit_Compare(self, node):
        self.generic_visit(node)
        if len(node.ops) == 2 and all(type(o) in _MIRROR for o in node.ops) and isinstance(node.comparators[0], (ast.Name, ast.Constant)):
            # a <= n <= b  ->  a <= n and n <= b   (the middle operand is a plain name: evaluating it twice is unobservable)
            mid = node.comparators[0]
            c1 = self.visit_Compare(ast.copy_location(ast.Compare(left=node.left, ops=[node.ops[0]], comparators=[mid]), node))
            c2 = self.visit_Compare(ast.copy_location(ast.Compare(left=copy.deepcopy(mid), ops=[node.ops[1]], comparators=[node.comparators[1]]), node))
            return ast.copy_location(ast.BoolOp(op=ast.And(), values=[c1, c2]), node)
        if len(node.ops) == 1 and type(node.ops[0]) in _MIRROR and _constant_like(node.left) and not _constant_like(node.comparators[0]):
            return ast.copy_location(ast.Compare(left=node.comparators[0], ops=[_MIRROR[type(node.ops[0])]()], comparators=[node.left]), node)
        return node

    _EAGER_CONSUMERS = ("extend", "sorted", "join", "sum", "min", "max", "tuple", "set", "frozenset", "list", "update")

    def visit_Call(self, node):
        self.generic_visit(node)
        # "<constant text with {} / {0} fields>".format(a, b)  ->  f"...{a}...{b}"   (positional fields without spec/conversion)
        if isinstance(node.func, ast.Attribute) and node.func.attr == "format" and isinstance(node.func.value, ast.Constant) and isinstance(node.func.value.value, str) and not node.keywords and not any(isinstance(a, ast.Starred) for a in node.args):
            fs = _format_to_fstring(node.func.value.value, node.args)
            if fs is not None:
                return ast.copy_location(fs, node)
        # f(<generator expression>)  ->  f([list comprehension])   for callees that consume the whole iterable at once
        if len(node.args) >= 1 and isinstance(node.args[0], ast.GeneratorExp) and not node.args[0].generators[0].is_async:
            name = node.func.attr if isinstance(node.func, ast.Attribute) else (node.func.id if isinstance(node.func, ast.Name) else None)
            if name in self._EAGER_CONSUMERS and all(_pure(g.iter) for g in node.args[0].generators) and _pure(node.args[0].elt):
                g = node.args[0]
                comp = ast.copy_location(ast.ListComp(elt=g.elt, generators=g.generators), g)
                if name == "list" and isinstance(node.func, ast.Name) and len(node.args) == 1 and not node.keywords:
                    return comp
                node.args[0] = comp
        return node

    def visit_BinOp(self, node):
        self.generic_visit(node)
        if isinstance(node.op, ast.Mod):
            return _percent_to_fstring(node)
        return _concat_to_fstring(node)

    def visit_UnaryOp(self, node):
        self.generic_visit(node)
        if isinstance(node.op, ast.Not) and isinstance(node.operand, ast.BoolOp) and _free_negation(node.operand) and _in_test_position(node):
            return negate(node.operand)
        if isinstance(node.op, ast.Not) and isinstance(node.operand, ast.BoolOp) and _nnf_ok(node.operand) and _in_test_position(node):
            for v in ast.walk(node.operand):
                if isinstance(v, ast.BoolOp):
                    v._asv_test = True
            out = negate(node.operand)
            _mark_tests_expr(out)
            return out
        if isinstance(node.op, ast.Not) and isinstance(node.operand, ast.Compare) and len(node.operand.ops) == 1 and type(node.operand.ops[0]) in _NEGATE:
            c = node.operand
            return ast.copy_location(ast.Compare(left=c.left, ops=[_NEGATE[type(c.ops[0])]()], comparators=c.comparators), node)
        if isinstance(node.op, ast.Not) and isinstance(node.operand, ast.UnaryOp) and isinstance(node.operand.op, ast.Not):
            return node.operand.operand if _boolish(node.operand.operand) else node
        return node


def _boolish(e) -> bool:
    return isinstance(e, (ast.Compare, ast.BoolOp)) or (isinstance(e, ast.UnaryOp) and isinstance(e.op, ast.Not))


def _single_assign(stmts):
    if len(stmts) == 1 and isinstance(stmts[0], ast.Assign) and len(stmts[0].targets) == 1:
        t = stmts[0].targets[0]
        if isinstance(t, (ast.Name, ast.Attribute)) or (isinstance(t, ast.Subscript) and isinstance(t.slice, (ast.Name, ast.Constant)) and isinstance(t.value, (ast.Name, ast.Attribute))):
            return stmts[0]
    return None


def _single_append(stmts):
    if len(stmts) == 1 and isinstance(stmts[0], ast.Expr) and isinstance(stmts[0].value, ast.Call):
        c = stmts[0].value
        if isinstance(c.func, ast.Attribute) and c.func.attr in ("append", "add") and len(c.args) == 1 and not c.keywords and isinstance(c.func.value, ast.Name):
            return c
    return None


def _uses(node, name: str) -> int:
    return sum(1 for x in ast.walk(node) if isinstance(x, ast.Name) and x.id == name)


class _Stmts:
    """Statement-level rewrites over every statement list of a function / module."""

    def __init__(self, temp_inlining: bool = True):
        self.temp_inlining = temp_inlining

    def run(self, node):
        for fld in ("body", "orelse", "finalbody"):
            lst = getattr(node, fld, None)
            if isinstance(lst, list) and lst and isinstance(lst[0], ast.stmt):
                for s in lst:
                    self.run(s)
                in_loop = isinstance(node, (ast.For, ast.AsyncFor, ast.While)) and fld == "body"
                for _ in range(4):
                    before = [_dump(s) for s in lst]
                    lst = self.block1(lst, in_loop, node)
                    setattr(node, fld, lst)
                    if [_dump(s) for s in lst] == before:
                        break
                    if getattr(self, "_fn", None) is not None:
                        self._counts = _name_counts(self._fn)
        for h in getattr(node, "handlers", []) or []:
            self.run(h)
        for c in getattr(node, "cases", []) or []:
            self.run(c)
        return node

    # ------------------------------------------------------------------
    def block(self, stmts, in_loop, owner):
        for _ in range(3):
            before = [_dump(s) for s in stmts]
            stmts = self.block1(stmts, in_loop, owner)
            if [_dump(s) for s in stmts] == before:
                break
        return stmts

    def block1(self, stmts, in_loop, owner):
        stmts = [self.stmt(s) for s in stmts]
        stmts = self.tuple_split(stmts)
        stmts = self.index_get(stmts)
        stmts = self.enumerate_start(stmts)
        stmts = self.single_exit(stmts)
        stmts = self.flatten_else(stmts)
        stmts = self.init_overwrite(stmts)
        stmts = self.guard_orientation(stmts)
        stmts = self.or_split(stmts)
        stmts = self.return_bool(stmts)
        if self.temp_inlining:
            for _ in range(4):
                n0 = len(stmts)
                stmts = self.temps(stmts, owner)
                if len(stmts) == n0:
                    break
        stmts = self.comprehensions(stmts)
        if self.temp_inlining:
            stmts = self.copy_propagation(stmts)
        if in_loop:
            stmts = self.loop_tail(stmts)
        return stmts

    def _never_read(self, name: str) -> bool:
        """A local that is only ever stored to (the `_` of `_, x = f()`, whatever it is called)."""
        fn = getattr(self, "_fn", None)
        if fn is None:
            return name == "_"
        cache = getattr(self, "_loads", None)
        if cache is None:
            cache = self._loads = set()
            for x in ast.walk(fn):
                if isinstance(x, ast.Name) and not isinstance(x.ctx, ast.Store):
                    cache.add(x.id)
                elif isinstance(x, (ast.Global, ast.Nonlocal)):
                    cache.update(x.names)
        return name not in cache

    def stmt(self, s):
        # _, x = e   ->   x = e[1]
        if isinstance(s, ast.Assign) and len(s.targets) == 1 and isinstance(s.targets[0], ast.Tuple) and len(s.targets[0].elts) >= 2 and all(isinstance(e, ast.Name) for e in s.targets[0].elts):
            kept = [(i, e) for i, e in enumerate(s.targets[0].elts) if not self._never_read(e.id)]
            if len(kept) == 1 and not isinstance(s.value, ast.Tuple):
                i, e = kept[0]
                return ast.copy_location(ast.Assign(targets=[e], value=ast.Subscript(value=s.value, slice=ast.Constant(value=i), ctx=ast.Load()), type_comment=None), s)
        # x = x op e
        if isinstance(s, ast.Assign) and len(s.targets) == 1 and isinstance(s.targets[0], (ast.Name, ast.Attribute)) and isinstance(s.value, ast.BinOp):
            t, v = s.targets[0], s.value
            if isinstance(v.op, (ast.Add, ast.Sub, ast.Mult, ast.BitOr, ast.BitAnd)) and _dump(v.left) == _dump(t):
                return ast.copy_location(ast.AugAssign(target=t, op=v.op, value=v.right), s)
        # x = A if c else x   ->  if c: x = A
        if isinstance(s, ast.Assign) and len(s.targets) == 1 and isinstance(s.targets[0], (ast.Name, ast.Attribute)) and isinstance(s.value, ast.IfExp):
            t, v = s.targets[0], s.value
            if _dump(v.orelse) == _dump(t):
                return self.stmt(ast.copy_location(ast.If(test=v.test, body=[ast.copy_location(ast.Assign(targets=[t], value=v.body), s)], orelse=[]), s))
            if _dump(v.body) == _dump(t):
                return self.stmt(ast.copy_location(ast.If(test=negate(v.test), body=[ast.copy_location(ast.Assign(targets=[t], value=v.orelse), s)], orelse=[]), s))
        if isinstance(s, ast.If):
            s.body = [self.stmt(x) for x in s.body]
            s.orelse = [self.stmt(x) for x in s.orelse]
            # if a: if b: S   ->   if a and b: S
            if not s.orelse and len(s.body) == 1 and isinstance(s.body[0], ast.If) and not s.body[0].orelse:
                inner = s.body[0]
                vals = (list(s.test.values) if isinstance(s.test, ast.BoolOp) and isinstance(s.test.op, ast.And) else [s.test]) + (list(inner.test.values) if isinstance(inner.test, ast.BoolOp) and isinstance(inner.test.op, ast.And) else [inner.test])
                return self.stmt(ast.copy_location(ast.If(test=ast.copy_location(ast.BoolOp(op=ast.And(), values=vals), s.test), body=inner.body, orelse=[]), s))
            a, b = _single_assign(s.body), _single_assign(s.orelse)
            if a is not None and b is not None and _dump(a.targets[0]) == _dump(b.targets[0]) and _pure(s.test):
                return ast.copy_location(ast.Assign(targets=[a.targets[0]], value=ifexp(s.test, a.value, b.value)), s)
            # if c: x, y = a1, a2  else: x, y = b1, b2   ->   x, y = (a1, a2) if c else (b1, b2)
            ma, mb = _multi_assign(s.body), _multi_assign(s.orelse)
            if ma is not None and mb is not None and len(ma[0]) >= 2 and ma[0] == mb[0] and _pure(s.test) and not any(_uses(s.test, n) for n in ma[0]):
                tgt = ast.Tuple(elts=[ast.Name(id=n, ctx=ast.Store()) for n in ma[0]], ctx=ast.Store())
                val = ifexp(s.test, ast.Tuple(elts=ma[1], ctx=ast.Load()), ast.Tuple(elts=mb[1], ctx=ast.Load()))
                return ast.copy_location(ast.fix_missing_locations(ast.Assign(targets=[tgt], value=val, type_comment=None)), s)
            ca, cb = _single_append(s.body), _single_append(s.orelse)
            if ca is not None and cb is not None and _dump(ca.func) == _dump(cb.func) and _pure(s.test):
                call = ast.Call(func=ca.func, args=[ifexp(s.test, ca.args[0], cb.args[0])], keywords=[])
                return ast.copy_location(ast.Expr(value=call), s)
        return s

    # ------------------------------------------------------------------
    def tuple_split(self, stmts):
        """a, b = e1, e2   ->   a = e1 ; b = e2      (e1, e2 pure and neither reads the other's target)"""
        out = []
        for s in stmts:
            if isinstance(s, ast.Assign) and len(s.targets) == 1 and isinstance(s.targets[0], ast.Tuple) and isinstance(s.value, ast.Tuple) and len(s.value.elts) == len(s.targets[0].elts) and all(isinstance(t, ast.Name) for t in s.targets[0].elts):
                names = [t.id for t in s.targets[0].elts]
                if len(set(names)) == len(names) and all(_pure(v) and not any(_uses(v, n) for n in names) for v in s.value.elts):
                    for t, v in zip(s.targets[0].elts, s.value.elts):
                        out.append(ast.copy_location(ast.Assign(targets=[t], value=v, type_comment=None), s))
                    continue
            out.append(s)
        return out

    # the reverse-index dicts of Mailbox map ints to ints (never to None): `d.get(k) is None` is `k not in d`
    _INT_INDEX = ("_uid_to_idx", "_msg_key_to_idx")
    # module-level tables whose values are record objects (auth.USERS: name -> PWUser), never None
    _OBJ_TABLES = ("USERS",)

    def index_get(self, stmts):
        """x = self._uid_to_idx.get(k) ; if x is None: <jump>   ->   if k not in self._uid_to_idx: <jump> ; x = self._uid_to_idx[k]"""
        out = []
        i = 0
        while i < len(stmts):
            s = stmts[i]
            nxt = stmts[i + 1] if i + 1 < len(stmts) else None
            if (
                isinstance(s, ast.Assign) and len(s.targets) == 1 and isinstance(s.targets[0], ast.Name)
                and isinstance(s.value, ast.Call) and isinstance(s.value.func, ast.Attribute) and s.value.func.attr == "get" and len(s.value.args) == 1 and not s.value.keywords
                and ((isinstance(s.value.func.value, ast.Attribute) and s.value.func.value.attr in self._INT_INDEX) or (isinstance(s.value.func.value, ast.Name) and s.value.func.value.id in self._OBJ_TABLES))
                and isinstance(s.value.args[0], (ast.Name, ast.Constant))
                and isinstance(nxt, ast.If) and not nxt.orelse and _ends_in_jump(nxt.body)
                and isinstance(nxt.test, ast.Compare) and len(nxt.test.ops) == 1 and isinstance(nxt.test.ops[0], ast.Is)
                and isinstance(nxt.test.left, ast.Name) and nxt.test.left.id == s.targets[0].id
                and isinstance(nxt.test.comparators[0], ast.Constant) and nxt.test.comparators[0].value is None
                and not any(_uses(b, s.targets[0].id) for b in nxt.body)
            ):
                d, k = s.value.func.value, s.value.args[0]
                test = ast.copy_location(ast.Compare(left=k, ops=[ast.NotIn()], comparators=[d]), nxt.test)
                out.append(ast.copy_location(ast.If(test=test, body=nxt.body, orelse=[]), nxt))
                out.append(ast.copy_location(ast.Assign(targets=[s.targets[0]], value=ast.Subscript(value=copy.deepcopy(d), slice=copy.deepcopy(k), ctx=ast.Load()), type_comment=None), s))
                i += 2
                continue
            out.append(s)
            i += 1
        return out

    def enumerate_start(self, stmts):
        """for n, x in enumerate(xs, start=K)  ->  for n__i, x in enumerate(xs): n = n__i + K ; ..."""
        for s in stmts:
            if isinstance(s, (ast.For, ast.AsyncFor)) and isinstance(s.iter, ast.Call) and isinstance(s.iter.func, ast.Name) and s.iter.func.id == "enumerate" and isinstance(s.target, ast.Tuple) and len(s.target.elts) == 2 and isinstance(s.target.elts[0], ast.Name):
                c = s.iter
                k = None
                if len(c.args) == 2 and not c.keywords:
                    k = c.args[1]
                elif len(c.args) == 1 and len(c.keywords) == 1 and c.keywords[0].arg == "start":
                    k = c.keywords[0].value
                if k is None or not isinstance(k, ast.Constant) or not isinstance(k.value, int) or k.value == 0:
                    continue
                n = s.target.elts[0].id
                idx = n + "__i"
                s.iter = ast.copy_location(ast.Call(func=c.func, args=[c.args[0]], keywords=[]), c)
                s.target.elts[0] = ast.copy_location(ast.Name(id=idx, ctx=ast.Store()), s.target.elts[0])
                first = ast.Assign(targets=[ast.Name(id=n, ctx=ast.Store())], value=ast.BinOp(left=ast.Name(id=idx, ctx=ast.Load()), op=ast.Add(), right=k), type_comment=None)
                s.body.insert(0, ast.fix_missing_locations(ast.copy_location(first, s)))
        return stmts

    def single_exit(self, stmts):
        """if c: ...; v = A  elif d: ...; v = B  else: ...; v = C ; return v   ->   the same arms ending in `return A` ..."""
        if len(stmts) < 2 or not isinstance(stmts[-1], ast.Return) or not isinstance(stmts[-1].value, ast.Name) or not isinstance(stmts[-2], ast.If):
            return stmts
        v = stmts[-1].value.id
        arms = []

        def collect(node) -> bool:
            arms.append(node.body)
            if len(node.orelse) == 1 and isinstance(node.orelse[0], ast.If):
                return collect(node.orelse[0])
            if not node.orelse:
                return False
            arms.append(node.orelse)
            return True

        if not collect(stmts[-2]):
            return stmts
        for a in arms:
            last = a[-1]
            if not (isinstance(last, ast.Assign) and len(last.targets) == 1 and isinstance(last.targets[0], ast.Name) and last.targets[0].id == v):
                return stmts
            if any(_uses(x, v) for x in a[:-1]) or _uses(last.value, v):
                return stmts
        for a in arms:
            a[-1] = ast.copy_location(ast.Return(value=a[-1].value), a[-1])
        return stmts[:-1]

    def flatten_else(self, stmts):
        """if c: A (ends in return / raise) else: B   ->   if c: A ; B"""
        out = []
        for s in stmts:
            if isinstance(s, ast.If) and s.orelse and s.body and isinstance(s.body[-1], (ast.Return, ast.Raise)):
                rest = s.orelse
                s.orelse = []
                out.append(s)
                out.extend(self.flatten_else(rest))
            else:
                out.append(s)
        return out

    def init_overwrite(self, stmts):
        """x = K ; if c: x = V   ->   x = V if c else K      (K constant-like, c does not read x)"""
        out = []
        i = 0
        while i < len(stmts):
            s = stmts[i]
            nxt = stmts[i + 1] if i + 1 < len(stmts) else None
            if (
                isinstance(s, ast.Assign) and len(s.targets) == 1 and isinstance(s.targets[0], ast.Name) and _constant_like(s.value)
                and isinstance(nxt, ast.If) and not nxt.orelse and _pure(nxt.test)
            ):
                a = _single_assign(nxt.body)
                x = s.targets[0].id
                if a is not None and isinstance(a.targets[0], ast.Name) and a.targets[0].id == x and not _uses(nxt.test, x) and not _uses(a.value, x):
                    out.append(ast.copy_location(ast.Assign(targets=[s.targets[0]], value=ifexp(nxt.test, a.value, s.value)), s))
                    i += 2
                    continue
            out.append(s)
            i += 1
        return out

    def guard_orientation(self, stmts):
        """if c: A (ends in a jump) ; R (the rest of the block, ends in return / raise)  - two spellings of one decision.
        The guard is the arm that is a lone `raise`, or a lone `return <constant>` when the other returns something else."""
        for i, s in enumerate(stmts):
            if isinstance(s, ast.If) and not s.orelse and _ends_in_jump(s.body) and isinstance(s.body[-1], (ast.Return, ast.Raise)) and i + 1 < len(stmts):
                rest = stmts[i + 1:]
                if not isinstance(rest[-1], (ast.Return, ast.Raise)) or any(isinstance(x, ast.If) and x is not s for x in rest[:-1] if False):
                    continue
                a, r = s.body, rest

                def rank(arm):
                    if len(arm) == 1 and isinstance(arm[0], ast.Raise):
                        return 0
                    if len(arm) == 1 and isinstance(arm[0], ast.Return) and (arm[0].value is None or isinstance(arm[0].value, ast.Constant)):
                        return 1
                    return 2

                if rank(r) < rank(a) and _free_negation_or_atom(s.test):
                    new = ast.copy_location(ast.If(test=negate(s.test), body=list(r), orelse=[]), s)
                    return list(stmts[:i]) + [new] + list(a)
                return stmts
        return stmts

    def or_split(self, stmts):
        """if a or b: J   ->   if a: J ; if b: J      (J one jump statement: the short-circuit evaluation is the same)"""
        out = []
        for s in stmts:
            if isinstance(s, ast.If) and not s.orelse and len(s.body) == 1 and isinstance(s.body[0], (ast.Return, ast.Raise, ast.Continue, ast.Break)) and isinstance(s.test, ast.BoolOp) and isinstance(s.test.op, ast.Or):
                for v in s.test.values:
                    out.append(ast.copy_location(ast.If(test=v, body=[copy.deepcopy(s.body[0])], orelse=[]), s))
            else:
                out.append(s)
        return out

    def return_bool(self, stmts):
        out = []
        i = 0
        while i < len(stmts):
            s = stmts[i]
            nxt = stmts[i + 1] if i + 1 < len(stmts) else None

            def const_ret(x, val):
                return isinstance(x, ast.Return) and isinstance(x.value, ast.Constant) and x.value.value is val

            if isinstance(s, ast.If) and len(s.body) == 1 and _boolish_or_call(s.test):
                if const_ret(s.body[0], True) and ((len(s.orelse) == 1 and const_ret(s.orelse[0], False)) or (not s.orelse and const_ret(nxt, False))):
                    out.append(ast.copy_location(ast.Return(value=s.test), s))
                    i += 1 if s.orelse else 2
                    continue
                if const_ret(s.body[0], False) and ((len(s.orelse) == 1 and const_ret(s.orelse[0], True)) or (not s.orelse and const_ret(nxt, True))):
                    out.append(ast.copy_location(ast.Return(value=negate(s.test)), s))
                    i += 1 if s.orelse else 2
                    continue
            out.append(s)
            i += 1
        return out

    def loop_tail(self, stmts):
        """Loop body:  `if c: S1; continue` followed by S2 (nothing else after)  ->  `if c: S1 else: S2`.
        (The guard form and the else form of a loop body are the same loop; the else form keeps both arms visible as arms.)"""
        for i, s in enumerate(stmts):
            if isinstance(s, ast.If) and not s.orelse and s.body and isinstance(s.body[-1], ast.Continue) and i + 1 < len(stmts):
                rest = stmts[i + 1:]
                if any(isinstance(x, ast.Continue) for x_ in s.body[:-1] for x in _walk_same_loop(x_)):
                    return stmts
                rest = self.loop_tail(rest)
                body = s.body[:-1] or [ast.copy_location(ast.Pass(), s)]
                new = ast.copy_location(ast.If(test=s.test, body=body, orelse=list(rest)), s)
                return list(stmts[:i]) + [new]
        return stmts

    def temps(self, stmts, owner):
        """t = e ; S(t)  ->  S(e)   when t is a plain local used exactly once, in the very next statement, eagerly."""
        fn = getattr(self, "_fn", None)
        out = []
        i = 0
        while i < len(stmts):
            s = stmts[i]
            nxt = stmts[i + 1] if i + 1 < len(stmts) else None
            if (
                fn is not None and nxt is not None
                and isinstance(s, ast.Assign) and len(s.targets) == 1 and isinstance(s.targets[0], ast.Name)
                and not isinstance(s.value, (ast.Await, ast.Yield, ast.YieldFrom, ast.Constant, ast.List, ast.Dict, ast.Set, ast.Tuple))
                and (not isinstance(s.value, ast.ListComp) or isinstance(nxt, ast.Return) or (isinstance(nxt, ast.Assign) and isinstance(nxt.value, ast.Name) and nxt.value.id == s.targets[0].id))
                and _pure(s.value)
            ):
                t = s.targets[0].id
                total = self._counts.get(t, 0)
                in_test = isinstance(nxt, (ast.If, ast.While)) and _uses(nxt.test, t) == 1 and not isinstance(nxt, ast.While)
                if total == 2 and (isinstance(nxt, (ast.Expr, ast.Assign, ast.AugAssign, ast.Return)) or in_test) and _uses(nxt, t) == 1 and _store_count(nxt, t) == 0:
                    from .inline import _eager_position, _own_exprs

                    use = next(x for x in ast.walk(nxt) if isinstance(x, ast.Name) and x.id == t)
                    if all(_eager_position(e, use) for e in _own_exprs(nxt)) and not _crosses_call_boundary(nxt.test if in_test else nxt, use, s.value):
                        _replace_node(nxt, use, s.value)
                        self._counts[t] = 0
                        i += 1
                        continue
            out.append(s)
            i += 1
        return out

    def copy_propagation(self, stmts):
        """t = e ; ... t ... t ...   ->   ... e ... e ...    for a short-lived temporary t (all its uses, at most three, are in
        the next two statements) that is assigned once in the function and whose
        value e is a call-free expression over names / attributes that nothing in the function assigns after this point
        (`start = self.partial[0]`, `name = f'_p_{tok}'`): reading e again gives the same value."""
        fn = getattr(self, "_fn", None)
        if fn is None:
            return stmts
        out = list(stmts)
        i = 0
        while i < len(out):
            s = out[i]
            if isinstance(s, ast.Assign) and len(s.targets) == 1 and isinstance(s.targets[0], ast.Name) and _stable_expr(s.value) and not isinstance(s.value, (ast.Constant, ast.Name)):
                t = s.targets[0].id
                rest = out[i + 1:]
                uses_rest = sum(_uses(x, t) for x in rest)
                total = self._counts.get(t, 0)
                near = sum(_uses(x, t) for x in rest[:2])
                if uses_rest >= 1 and near == uses_rest and uses_rest <= 3 and total == uses_rest + 1 and sum(_store_count(x, t) for x in rest) == 0 and _stable_after(fn, s, s.value) and not _used_in_nested_scope(rest, t) and _undisturbed(s.value, rest[:2]):
                    for x in rest:
                        for u in [y for y in ast.walk(x) if isinstance(y, ast.Name) and y.id == t]:
                            _replace_node(x, u, s.value)
                    self._counts[t] = 0
                    del out[i]
                    continue
            i += 1
        return out

    def comprehensions(self, stmts):
        out = []
        i = 0
        while i < len(stmts):
            s = stmts[i]
            nxt = stmts[i + 1] if i + 1 < len(stmts) else None
            if (
                isinstance(s, (ast.Assign, ast.AnnAssign)) and nxt is not None and isinstance(nxt, ast.For) and not nxt.orelse
                and isinstance(s.value, ast.List) and not s.value.elts
            ):
                tgt = s.targets[0] if isinstance(s, ast.Assign) else s.target
                if isinstance(tgt, ast.Name) and len(nxt.body) == 1:
                    inner = nxt.body[0]
                    cond = None
                    if isinstance(inner, ast.If) and not inner.orelse and len(inner.body) == 1:
                        cond, inner = inner.test, inner.body[0]
                    c = _single_append([inner])
                    if c is not None and c.func.attr == "append" and c.func.value.id == tgt.id and _uses(nxt.iter, tgt.id) == 0 and (cond is None or _uses(cond, tgt.id) == 0) and _uses(c.args[0], tgt.id) == 0 and _pure(nxt.iter) and _pure(c.args[0]):
                        comp = ast.ListComp(elt=c.args[0], generators=[ast.comprehension(target=nxt.target, iter=nxt.iter, ifs=[cond] if cond is not None else [], is_async=0)])
                        out.append(ast.copy_location(ast.Assign(targets=[ast.Name(id=tgt.id, ctx=ast.Store())], value=comp), s))
                        i += 2
                        continue
            # for v in it: [if c:] xs.append(e)   ->   xs.extend([e for v in it if c])
            if isinstance(s, ast.For) and not s.orelse and len(s.body) == 1:
                inner = s.body[0]
                cond = None
                if isinstance(inner, ast.If) and not inner.orelse and len(inner.body) == 1:
                    cond, inner = inner.test, inner.body[0]
                c = _single_append([inner])
                if c is not None and c.func.attr == "append":
                    xs = c.func.value.id
                    if _uses(s.iter, xs) == 0 and (cond is None or (_uses(cond, xs) == 0 and _pure(cond))) and _uses(c.args[0], xs) == 0 and _pure(s.iter) and _pure(c.args[0]) and _uses(s.target, xs) == 0:
                        comp = ast.ListComp(elt=c.args[0], generators=[ast.comprehension(target=s.target, iter=s.iter, ifs=[cond] if cond is not None else [], is_async=0)])
                        call = ast.Call(func=ast.Attribute(value=ast.Name(id=xs, ctx=ast.Load()), attr="extend", ctx=ast.Load()), args=[comp], keywords=[])
                        out.append(ast.fix_missing_locations(ast.copy_location(ast.Expr(value=call), s)))
                        i += 1
                        continue
            out.append(s)
            i += 1
        return out


def _free_negation_or_atom(e) -> bool:
    return True


def _stable_expr(e) -> bool:
    """Call-free expression over names, attributes, constant subscripts, arithmetic and f-strings."""
    for x in ast.walk(e):
        if not isinstance(x, (ast.Name, ast.Attribute, ast.Subscript, ast.Constant, ast.BinOp, ast.JoinedStr, ast.FormattedValue, ast.operator, ast.expr_context, ast.UnaryOp, ast.unaryop, ast.Tuple)):
            return False
        if isinstance(x, ast.Subscript) and not isinstance(x.slice, (ast.Constant, ast.Name)):
            return False
    return True


def _stable_after(fn, stmt, e) -> bool:
    """Nothing in the function after `stmt` (by position), nor a loop around it, stores to a name / attribute that e reads."""
    names = {x.id for x in ast.walk(e) if isinstance(x, ast.Name)}
    attrs = {_dump(x) for x in ast.walk(e) if isinstance(x, (ast.Attribute, ast.Subscript))}
    line = getattr(stmt, "lineno", 0)
    in_loop = any(isinstance(l, (ast.For, ast.AsyncFor, ast.While)) and any(y is stmt for y in ast.walk(l)) for l in ast.walk(fn))
    for x in ast.walk(fn):
        if x is stmt or any(y is x for y in ast.walk(stmt)):
            continue
        ln = getattr(x, "lineno", None)
        if ln is None or (ln < line and not in_loop):
            continue
        if isinstance(x, ast.Name) and isinstance(x.ctx, (ast.Store, ast.Del)) and x.id in names:
            return False
        if isinstance(x, (ast.Attribute, ast.Subscript)) and isinstance(x.ctx, (ast.Store, ast.Del)):
            d = _dump(x)
            if any(d == a or a.startswith(d[:-1]) or d in a for a in attrs):
                return False
        if isinstance(x, ast.AugAssign) and isinstance(x.target, ast.Name) and x.target.id in names:
            return False
    return True


def _undisturbed(value, stmts) -> bool:
    """Re-evaluating `value` inside `stmts` gives what it gave before them: a value that reads the heap (attribute /
    subscript) is not carried across any call or await; a value over local names only is not carried across a method call on,
    or a store through, one of those names."""
    heap = any(isinstance(x, (ast.Attribute, ast.Subscript)) for x in ast.walk(value))
    names = {x.id for x in ast.walk(value) if isinstance(x, ast.Name)}
    for s in stmts:
        for x in ast.walk(s):
            if heap and isinstance(x, (ast.Call, ast.Await, ast.Yield, ast.YieldFrom, ast.With, ast.AsyncWith, ast.AsyncFor)):
                return False
            if isinstance(x, ast.Call) and isinstance(x.func, ast.Attribute) and isinstance(x.func.value, ast.Name) and x.func.value.id in names:
                return False
            if isinstance(x, (ast.Attribute, ast.Subscript)) and isinstance(x.ctx, (ast.Store, ast.Del)) and isinstance(x.value, ast.Name) and x.value.id in names:
                return False
    return True


def _used_in_nested_scope(stmts, t) -> bool:
    for s in stmts:
        for x in ast.walk(s):
            if isinstance(x, (ast.FunctionDef, ast.AsyncFunctionDef, ast.Lambda)) and _uses(x, t):
                return True
    return False


def _boolish_or_call(e) -> bool:
    return _boolish(e) or isinstance(e, ast.Call)


def _walk_same_loop(n):
    """Nodes of n that belong to the same loop level (not inside a nested loop / function)."""
    todo = [n]
    while todo:
        x = todo.pop()
        yield x
        for c in ast.iter_child_nodes(x):
            if isinstance(c, (ast.For, ast.AsyncFor, ast.While, ast.FunctionDef, ast.AsyncFunctionDef, ast.Lambda)):
                continue
            todo.append(c)


def _store_count(node, name) -> int:
    return sum(1 for x in ast.walk(node) if isinstance(x, ast.Name) and x.id == name and isinstance(x.ctx, (ast.Store, ast.Del)))


def _crosses_call_boundary(stmt, use, value) -> bool:
    """Do not move a call / attribute read across another call that is evaluated before the use (order of effects)."""
    if not any(isinstance(x, (ast.Call, ast.Subscript, ast.Attribute)) for x in ast.walk(value)):
        return False
    # calls evaluated before `use` in stmt: conservative - any call that does not contain `use` among its descendants
    later = set()
    for x in ast.walk(stmt):
        if isinstance(x, (ast.ListComp, ast.SetComp, ast.DictComp)) and x.generators and any(y is use for y in ast.walk(x.generators[0].iter)):
            # everything in the comprehension but its first iterable is evaluated after that iterable
            for part in ast.iter_child_nodes(x):
                for y in ast.walk(part):
                    later.add(id(y))
            for y in ast.walk(x.generators[0].iter):
                later.discard(id(y))
            for g in x.generators[:1]:
                for c in list(g.ifs) + [g.target]:
                    for y in ast.walk(c):
                        later.add(id(y))
    for x in ast.walk(stmt):
        if isinstance(x, ast.Call) and id(x) not in later and not any(y is use for y in ast.walk(x)):
            return True
    return False


def _replace_node(root, old, new) -> None:
    for n in ast.walk(root):
        for name, val in ast.iter_fields(n):
            if val is old:
                setattr(n, name, copy.deepcopy(new))
            elif isinstance(val, list):
                for i, v in enumerate(val):
                    if v is old:
                        val[i] = copy.deepcopy(new)


def _name_counts(fn) -> dict[str, int]:
    out: dict[str, int] = {}
    for x in ast.walk(fn):
        if isinstance(x, ast.Name):
            out[x.id] = out.get(x.id, 0) + 1
        elif isinstance(x, ast.ExceptHandler) and x.name:
            out[x.name] = out.get(x.name, 0) + 2
        elif isinstance(x, (ast.Global, ast.Nonlocal)):
            for n in x.names:
                out[n] = out.get(n, 0) + 10
    return out


def _preorder(fn):
    """Nodes of the function body in source order (statement lists in order; within a statement, fields in order), not
    descending into nested scopes."""
    out = []

    def go(n):
        out.append(n)
        for c in ast.iter_child_nodes(n):
            if isinstance(c, (ast.FunctionDef, ast.AsyncFunctionDef, ast.ClassDef, ast.Lambda)):
                out.append(c)
                for x in ast.walk(c):
                    if x is not c:
                        out.append(x)
                continue
            go(c)

    for s in fn.body:
        go(s)
    return out


def _coalesce(fn) -> None:
    """y = sorted(x) (list(x), set(x), ...)  where the local x is never touched again and the local y has not been touched before (and the statement is
    not in a loop): x and y are one variable with two names - call it y throughout.  (`ks = []; ...; keys = sorted(ks)` is
    `keys = []; ...; keys = sorted(keys)`.)"""
    params = {a.arg for a in fn.args.posonlyargs + fn.args.args + fn.args.kwonlyargs}
    if fn.args.vararg:
        params.add(fn.args.vararg.arg)
    if fn.args.kwarg:
        params.add(fn.args.kwarg.arg)
    for _ in range(6):
        order = _preorder(fn)
        pos = {id(n): i for i, n in enumerate(order)}
        occ: dict[str, list[int]] = {}
        banned = set(params)
        for n in order:
            if isinstance(n, ast.Name):
                occ.setdefault(n.id, []).append(pos[id(n)])
            elif isinstance(n, (ast.Global, ast.Nonlocal)):
                banned.update(n.names)
            elif isinstance(n, ast.ExceptHandler) and n.name:
                banned.add(n.name)
            elif isinstance(n, (ast.FunctionDef, ast.AsyncFunctionDef, ast.ClassDef, ast.Lambda)):
                for x in ast.walk(n):
                    if isinstance(x, ast.Name):
                        banned.add(x.id)
        in_loop = set()
        for n in order:
            if isinstance(n, (ast.For, ast.AsyncFor, ast.While)):
                for x in ast.walk(n):
                    in_loop.add(id(x))
        done = False
        for n in order:
            if not (isinstance(n, ast.Assign) and len(n.targets) == 1 and isinstance(n.targets[0], ast.Name) and id(n) not in in_loop):
                continue
            y = n.targets[0].id
            # only the "same collection, re-ordered / copied" idiom: y = sorted(x, ...) / list(x) / set(x) / tuple(x)
            if y in banned or not (isinstance(n.value, ast.Call) and isinstance(n.value.func, ast.Name) and n.value.func.id in ("sorted", "list", "set", "tuple", "frozenset") and n.value.args and isinstance(n.value.args[0], ast.Name)):
                continue
            first, last = pos[id(n)], max(pos[id(x)] for x in ast.walk(n))
            if min(occ.get(y, [first])) < first:
                continue
            for x in {n.value.args[0].id}:
                if x == y or x in banned or x not in occ or max(occ[x]) > last:
                    continue
                # x must be a local of this function (stored somewhere before)
                if not any(isinstance(m, ast.Name) and m.id == x and isinstance(m.ctx, ast.Store) for m in order[:first]):
                    continue
                for m in order:
                    if isinstance(m, ast.Name) and m.id == x:
                        m.id = y
                done = True
                break
            if done:
                break
        if not done:
            return


def _inline_param_flags(fn) -> None:
    """`bounded = not uid_cmd` at the top of a function, used in several tests: a local bound once to a tiny pure expression
    over a parameter that is never rebound is that expression wherever it is read."""
    params = {a.arg for a in fn.args.args + fn.args.kwonlyargs + fn.args.posonlyargs}
    stores: dict[str, int] = {}
    for x in ast.walk(fn):
        if isinstance(x, ast.Name) and isinstance(x.ctx, (ast.Store, ast.Del)):
            stores[x.id] = stores.get(x.id, 0) + 1
        elif isinstance(x, (ast.Global, ast.Nonlocal)):
            for nm in x.names:
                stores[nm] = stores.get(nm, 0) + 2
    stable = {p_ for p_ in params if stores.get(p_, 0) == 0}

    def tiny(e) -> bool:
        if isinstance(e, ast.Name):
            return e.id in stable
        if isinstance(e, ast.UnaryOp) and isinstance(e.op, ast.Not):
            return tiny(e.operand)
        if isinstance(e, ast.Compare) and len(e.ops) == 1 and isinstance(e.left, ast.Name) and e.left.id in stable and isinstance(e.comparators[0], ast.Constant):
            return True
        return False

    for i, s_ in enumerate(list(fn.body)):
        if not (isinstance(s_, ast.Assign) and len(s_.targets) == 1 and isinstance(s_.targets[0], ast.Name)):
            continue
        nm = s_.targets[0].id
        if stores.get(nm, 0) != 1 or nm in params or not tiny(s_.value) or isinstance(s_.value, ast.Name):
            continue
        uses = [x for st_ in fn.body[i + 1:] for x in ast.walk(st_) if isinstance(x, ast.Name) and x.id == nm and isinstance(x.ctx, ast.Load)]
        if len(uses) < 2:
            continue  # single uses are the temporaries' business

        class _T(ast.NodeTransformer):
            def visit_Name(self, node):
                if node.id == nm and isinstance(node.ctx, ast.Load):
                    return ast.copy_location(copy.deepcopy(s_.value), node)
                return node

        for st_ in fn.body[i + 1:]:
            _T().visit(st_)
        fn.body.remove(s_)


def canon_function(fn, temp_inlining: bool = True):
    if temp_inlining:
        _inline_param_flags(fn)
    st = _Stmts(temp_inlining)
    st._fn = fn
    st._counts = _name_counts(fn)
    # nested functions first (their own name tables)
    for sub in list(ast.walk(fn)):
        if sub is not fn and isinstance(sub, (ast.FunctionDef, ast.AsyncFunctionDef)):
            pass
    st.run(fn)
    if temp_inlining:
        _coalesce(fn)
    return fn


def canon_module(tree: ast.Module, temp_inlining: bool = True) -> ast.Module:
    _mark_tests(tree)
    tree = _Expr().visit(tree)
    for n in ast.walk(tree):
        if isinstance(n, (ast.FunctionDef, ast.AsyncFunctionDef)):
            canon_function(n, temp_inlining)
    # folding temporaries can put a negation in front of what was a named test: normalise expressions once more
    _mark_tests(tree)
    tree = _Expr().visit(tree)
    ast.fix_missing_locations(tree)
    return tree


def canon_pattern(node, temp_inlining: bool = True):
    """The same rewrites for a rule pattern (a statement or an expression); temporaries are not inlined in patterns'
    single statements (nothing follows them), but a multi-statement pattern wrapped in a function gets the full treatment."""
    is_stmts = isinstance(node, (ast.stmt, list))
    body0 = node if isinstance(node, list) else ([node] if isinstance(node, ast.stmt) else [ast.Expr(value=node)])
    wrapper = ast.FunctionDef(name="_pattern_", args=ast.arguments(posonlyargs=[], args=[], kwonlyargs=[], kw_defaults=[], defaults=[]), body=body0, decorator_list=[], returns=None, type_comment=None, type_params=[])
    mod = ast.Module(body=[wrapper], type_ignores=[])
    ast.fix_missing_locations(mod)
    from . import callnorm

    callnorm.normalise_tree(mod)
    canon_module(mod, temp_inlining=temp_inlining)
    body = mod.body[0].body
    if is_stmts:
        return body
    return body[0].value if body and isinstance(body[0], ast.Expr) else node
