"""Canonical forms.  Applied to every analysed module at load time *and* to every rule pattern, so that equivalent
spellings of a statement look the same to the rules.  All rewrites are behaviour-preserving for the analysed program (they
are never executed anyway); where a rewrite could change evaluation order of side effects it is restricted to pure-looking
operands.

   expressions
     K <op> x                      ->  x <mirrored op> K          (K constant-like)
     not (a <cmp> b)               ->  a <negated cmp> b
   statements
     x = x <op> e                  ->  x <op>= e
     if c: x = A  else: x = B      ->  x = A if c else B
     x = A if c else x             ->  if c: x = A                (and the mirrored form)
     if c: r.append(A) else: r.append(B)  ->  r.append(A if c else B)
     if c: return True [else:] return False   ->  return c       (c a comparison / boolean operation / call)
     loop body  ...; if c: S1; continue; S2   ->  ...; if c: S1 else: S2
     t = e ; <next statement using t once>    ->  the statement with e in place of t   (t used nowhere else)
     xs = [] ; for v in it: [if c:] xs.append(e)   ->  xs = [e for v in it if c]
"""
from __future__ import annotations

import ast
import copy

_MIRROR = {ast.Eq: ast.Eq, ast.NotEq: ast.NotEq, ast.Lt: ast.Gt, ast.Gt: ast.Lt, ast.LtE: ast.GtE, ast.GtE: ast.LtE}
_NEGATE = {ast.Eq: ast.NotEq, ast.NotEq: ast.Eq, ast.Lt: ast.GtE, ast.GtE: ast.Lt, ast.Gt: ast.LtE, ast.LtE: ast.Gt, ast.In: ast.NotIn, ast.NotIn: ast.In, ast.Is: ast.IsNot, ast.IsNot: ast.Is}


def _dump(n) -> str:
    return ast.dump(n).replace("Load()", "X").replace("Store()", "X")


def _constant_like(e) -> bool:
    if isinstance(e, ast.Constant):
        return True
    if isinstance(e, ast.UnaryOp) and isinstance(e.operand, ast.Constant):
        return True
    if isinstance(e, ast.Name) and e.id.isupper():
        return True
    if isinstance(e, ast.Attribute) and e.attr.isupper() and isinstance(e.value, ast.Name) and e.value.id[:1].isupper():
        return True
    return False


def _pure(e) -> bool:
    return not any(isinstance(x, (ast.Await, ast.Yield, ast.YieldFrom, ast.NamedExpr)) for x in ast.walk(e))


def _size(stmts) -> int:
    return sum(1 for s in stmts for _ in ast.walk(s))


def _ends_in_jump(stmts) -> bool:
    return bool(stmts) and isinstance(stmts[-1], (ast.Return, ast.Raise, ast.Continue, ast.Break))


def negate(test: ast.expr) -> ast.expr:
    if isinstance(test, ast.UnaryOp) and isinstance(test.op, ast.Not):
        return test.operand
    if isinstance(test, ast.Compare) and len(test.ops) == 1 and type(test.ops[0]) in _NEGATE:
        return ast.copy_location(ast.Compare(left=test.left, ops=[_NEGATE[type(test.ops[0])]()], comparators=test.comparators), test)
    return ast.copy_location(ast.UnaryOp(op=ast.Not(), operand=test), test)


_NEGATIVE = (ast.NotEq, ast.NotIn, ast.IsNot, ast.GtE, ast.LtE)


def _negative(test) -> bool:
    if isinstance(test, ast.UnaryOp) and isinstance(test.op, ast.Not):
        return True
    return isinstance(test, ast.Compare) and len(test.ops) == 1 and isinstance(test.ops[0], _NEGATIVE)


def ifexp(test, a, b):
    """`a if test else b` with the positive spelling of the test (the two spellings are the same expression)."""
    if _negative(test):
        test, a, b = negate(test), b, a
    return ast.IfExp(test=test, body=a, orelse=b)


class _Expr(ast.NodeTransformer):
    def visit_IfExp(self, node):
        self.generic_visit(node)
        return ast.copy_location(ifexp(node.test, node.body, node.orelse), node)

    def visit_Compare(self, node):
        self.generic_visit(node)
        if len(node.ops) == 1 and type(node.ops[0]) in _MIRROR and _constant_like(node.left) and not _constant_like(node.comparators[0]):
            return ast.copy_location(ast.Compare(left=node.comparators[0], ops=[_MIRROR[type(node.ops[0])]()], comparators=[node.left]), node)
        return node

    def visit_UnaryOp(self, node):
        self.generic_visit(node)
        if isinstance(node.op, ast.Not) and isinstance(node.operand, ast.Compare) and len(node.operand.ops) == 1 and type(node.operand.ops[0]) in _NEGATE:
            c = node.operand
            return ast.copy_location(ast.Compare(left=c.left, ops=[_NEGATE[type(c.ops[0])]()], comparators=c.comparators), node)
        if isinstance(node.op, ast.Not) and isinstance(node.operand, ast.UnaryOp) and isinstance(node.operand.op, ast.Not):
            return node.operand.operand if _boolish(node.operand.operand) else node
        return node


def _boolish(e) -> bool:
    return isinstance(e, (ast.Compare, ast.BoolOp)) or (isinstance(e, ast.UnaryOp) and isinstance(e.op, ast.Not))


def _single_assign(stmts):
    if len(stmts) == 1 and isinstance(stmts[0], ast.Assign) and len(stmts[0].targets) == 1 and isinstance(stmts[0].targets[0], (ast.Name, ast.Attribute)):
        return stmts[0]
    return None


def _single_append(stmts):
    if len(stmts) == 1 and isinstance(stmts[0], ast.Expr) and isinstance(stmts[0].value, ast.Call):
        c = stmts[0].value
        if isinstance(c.func, ast.Attribute) and c.func.attr in ("append", "add") and len(c.args) == 1 and not c.keywords and isinstance(c.func.value, ast.Name):
            return c
    return None


def _uses(node, name: str) -> int:
    return sum(1 for x in ast.walk(node) if isinstance(x, ast.Name) and x.id == name)


class _Stmts:
    """Statement-level rewrites over every statement list of a function / module."""

    def __init__(self, temp_inlining: bool = True):
        self.temp_inlining = temp_inlining

    def run(self, node):
        for fld in ("body", "orelse", "finalbody"):
            lst = getattr(node, fld, None)
            if isinstance(lst, list) and lst and isinstance(lst[0], ast.stmt):
                for s in lst:
                    self.run(s)
                setattr(node, fld, self.block(lst, in_loop=isinstance(node, (ast.For, ast.AsyncFor, ast.While)) and fld == "body", owner=node))
        for h in getattr(node, "handlers", []) or []:
            self.run(h)
        for c in getattr(node, "cases", []) or []:
            self.run(c)
        return node

    # ------------------------------------------------------------------
    def block(self, stmts, in_loop, owner):
        stmts = [self.stmt(s) for s in stmts]
        stmts = self.return_bool(stmts)
        if self.temp_inlining:
            for _ in range(4):
                n0 = len(stmts)
                stmts = self.temps(stmts, owner)
                if len(stmts) == n0:
                    break
        stmts = self.comprehensions(stmts)
        if in_loop:
            stmts = self.loop_tail(stmts)
        return stmts

    def stmt(self, s):
        # x = x op e
        if isinstance(s, ast.Assign) and len(s.targets) == 1 and isinstance(s.targets[0], (ast.Name, ast.Attribute)) and isinstance(s.value, ast.BinOp):
            t, v = s.targets[0], s.value
            if isinstance(v.op, (ast.Add, ast.Sub, ast.Mult, ast.BitOr, ast.BitAnd)) and _dump(v.left) == _dump(t):
                return ast.copy_location(ast.AugAssign(target=t, op=v.op, value=v.right), s)
        # x = A if c else x   ->  if c: x = A
        if isinstance(s, ast.Assign) and len(s.targets) == 1 and isinstance(s.targets[0], (ast.Name, ast.Attribute)) and isinstance(s.value, ast.IfExp):
            t, v = s.targets[0], s.value
            if _dump(v.orelse) == _dump(t):
                return self.stmt(ast.copy_location(ast.If(test=v.test, body=[ast.copy_location(ast.Assign(targets=[t], value=v.body), s)], orelse=[]), s))
            if _dump(v.body) == _dump(t):
                return self.stmt(ast.copy_location(ast.If(test=negate(v.test), body=[ast.copy_location(ast.Assign(targets=[t], value=v.orelse), s)], orelse=[]), s))
        if isinstance(s, ast.If):
            s.body = [self.stmt(x) for x in s.body]
            s.orelse = [self.stmt(x) for x in s.orelse]
            a, b = _single_assign(s.body), _single_assign(s.orelse)
            if a is not None and b is not None and _dump(a.targets[0]) == _dump(b.targets[0]) and _pure(s.test):
                return ast.copy_location(ast.Assign(targets=[a.targets[0]], value=ifexp(s.test, a.value, b.value)), s)
            ca, cb = _single_append(s.body), _single_append(s.orelse)
            if ca is not None and cb is not None and _dump(ca.func) == _dump(cb.func) and _pure(s.test):
                call = ast.Call(func=ca.func, args=[ifexp(s.test, ca.args[0], cb.args[0])], keywords=[])
                return ast.copy_location(ast.Expr(value=call), s)
        return s

    def return_bool(self, stmts):
        out = []
        i = 0
        while i < len(stmts):
            s = stmts[i]
            nxt = stmts[i + 1] if i + 1 < len(stmts) else None

            def const_ret(x, val):
                return isinstance(x, ast.Return) and isinstance(x.value, ast.Constant) and x.value.value is val

            if isinstance(s, ast.If) and len(s.body) == 1 and _boolish_or_call(s.test):
                if const_ret(s.body[0], True) and ((len(s.orelse) == 1 and const_ret(s.orelse[0], False)) or (not s.orelse and const_ret(nxt, False))):
                    out.append(ast.copy_location(ast.Return(value=s.test), s))
                    i += 1 if s.orelse else 2
                    continue
                if const_ret(s.body[0], False) and ((len(s.orelse) == 1 and const_ret(s.orelse[0], True)) or (not s.orelse and const_ret(nxt, True))):
                    out.append(ast.copy_location(ast.Return(value=negate(s.test)), s))
                    i += 1 if s.orelse else 2
                    continue
            out.append(s)
            i += 1
        return out

    def loop_tail(self, stmts):
        """Loop body:  `if c: S1; continue` followed by S2 (nothing else after)  ->  `if c: S1 else: S2`.
        (The guard form and the else form of a loop body are the same loop; the else form keeps both arms visible as arms.)"""
        for i, s in enumerate(stmts):
            if isinstance(s, ast.If) and not s.orelse and s.body and isinstance(s.body[-1], ast.Continue) and i + 1 < len(stmts):
                rest = stmts[i + 1:]
                if any(isinstance(x, ast.Continue) for x_ in s.body[:-1] for x in _walk_same_loop(x_)):
                    return stmts
                rest = self.loop_tail(rest)
                body = s.body[:-1] or [ast.copy_location(ast.Pass(), s)]
                new = ast.copy_location(ast.If(test=s.test, body=body, orelse=list(rest)), s)
                return list(stmts[:i]) + [new]
        return stmts

    def temps(self, stmts, owner):
        """t = e ; S(t)  ->  S(e)   when t is a plain local used exactly once, in the very next statement, eagerly."""
        fn = getattr(self, "_fn", None)
        out = []
        i = 0
        while i < len(stmts):
            s = stmts[i]
            nxt = stmts[i + 1] if i + 1 < len(stmts) else None
            if (
                fn is not None and nxt is not None
                and isinstance(s, ast.Assign) and len(s.targets) == 1 and isinstance(s.targets[0], ast.Name)
                and not isinstance(s.value, (ast.Await, ast.Yield, ast.YieldFrom, ast.Constant, ast.ListComp, ast.List, ast.Dict, ast.Set, ast.Tuple))
                and _pure(s.value)
            ):
                t = s.targets[0].id
                total = self._counts.get(t, 0)
                if total == 2 and isinstance(nxt, (ast.Expr, ast.Assign, ast.AugAssign, ast.Return)) and _uses(nxt, t) == 1 and _store_count(nxt, t) == 0:
                    from .inline import _eager_position, _own_exprs

                    use = next(x for x in ast.walk(nxt) if isinstance(x, ast.Name) and x.id == t)
                    if all(_eager_position(e, use) for e in _own_exprs(nxt)) and not _crosses_call_boundary(nxt, use, s.value):
                        _replace_node(nxt, use, s.value)
                        self._counts[t] = 0
                        i += 1
                        continue
            out.append(s)
            i += 1
        return out

    def comprehensions(self, stmts):
        out = []
        i = 0
        while i < len(stmts):
            s = stmts[i]
            nxt = stmts[i + 1] if i + 1 < len(stmts) else None
            if (
                isinstance(s, (ast.Assign, ast.AnnAssign)) and nxt is not None and isinstance(nxt, ast.For) and not nxt.orelse
                and isinstance(s.value, ast.List) and not s.value.elts
            ):
                tgt = s.targets[0] if isinstance(s, ast.Assign) else s.target
                if isinstance(tgt, ast.Name) and len(nxt.body) == 1:
                    inner = nxt.body[0]
                    cond = None
                    if isinstance(inner, ast.If) and not inner.orelse and len(inner.body) == 1:
                        cond, inner = inner.test, inner.body[0]
                    c = _single_append([inner])
                    if c is not None and c.func.attr == "append" and c.func.value.id == tgt.id and _uses(nxt.iter, tgt.id) == 0 and (cond is None or _uses(cond, tgt.id) == 0) and _uses(c.args[0], tgt.id) == 0 and _pure(nxt.iter) and _pure(c.args[0]):
                        comp = ast.ListComp(elt=c.args[0], generators=[ast.comprehension(target=nxt.target, iter=nxt.iter, ifs=[cond] if cond is not None else [], is_async=0)])
                        out.append(ast.copy_location(ast.Assign(targets=[ast.Name(id=tgt.id, ctx=ast.Store())], value=comp), s))
                        i += 2
                        continue
            out.append(s)
            i += 1
        return out


def _boolish_or_call(e) -> bool:
    return _boolish(e) or isinstance(e, ast.Call)


def _walk_same_loop(n):
    """Nodes of n that belong to the same loop level (not inside a nested loop / function)."""
    todo = [n]
    while todo:
        x = todo.pop()
        yield x
        for c in ast.iter_child_nodes(x):
            if isinstance(c, (ast.For, ast.AsyncFor, ast.While, ast.FunctionDef, ast.AsyncFunctionDef, ast.Lambda)):
                continue
            todo.append(c)


def _store_count(node, name) -> int:
    return sum(1 for x in ast.walk(node) if isinstance(x, ast.Name) and x.id == name and isinstance(x.ctx, (ast.Store, ast.Del)))


def _crosses_call_boundary(stmt, use, value) -> bool:
    """Do not move a call / attribute read across another call that is evaluated before the use (order of effects)."""
    if not any(isinstance(x, (ast.Call, ast.Subscript, ast.Attribute)) for x in ast.walk(value)):
        return False
    # calls evaluated before `use` in stmt: conservative - any call that does not contain `use` among its descendants
    for x in ast.walk(stmt):
        if isinstance(x, ast.Call) and not any(y is use for y in ast.walk(x)):
            return True
    return False


def _replace_node(root, old, new) -> None:
    for n in ast.walk(root):
        for name, val in ast.iter_fields(n):
            if val is old:
                setattr(n, name, copy.deepcopy(new))
            elif isinstance(val, list):
                for i, v in enumerate(val):
                    if v is old:
                        val[i] = copy.deepcopy(new)


def _name_counts(fn) -> dict[str, int]:
    out: dict[str, int] = {}
    for x in ast.walk(fn):
        if isinstance(x, ast.Name):
            out[x.id] = out.get(x.id, 0) + 1
        elif isinstance(x, ast.ExceptHandler) and x.name:
            out[x.name] = out.get(x.name, 0) + 2
        elif isinstance(x, (ast.Global, ast.Nonlocal)):
            for n in x.names:
                out[n] = out.get(n, 0) + 10
    return out


def canon_function(fn, temp_inlining: bool = True):
    st = _Stmts(temp_inlining)
    st._fn = fn
    st._counts = _name_counts(fn)
    # nested functions first (their own name tables)
    for sub in list(ast.walk(fn)):
        if sub is not fn and isinstance(sub, (ast.FunctionDef, ast.AsyncFunctionDef)):
            pass
    st.run(fn)
    return fn


def canon_module(tree: ast.Module, temp_inlining: bool = True) -> ast.Module:
    tree = _Expr().visit(tree)
    for n in ast.walk(tree):
        if isinstance(n, (ast.FunctionDef, ast.AsyncFunctionDef)):
            canon_function(n, temp_inlining)
    ast.fix_missing_locations(tree)
    return tree


def canon_pattern(node, temp_inlining: bool = True):
    """The same rewrites for a rule pattern (a statement or an expression); temporaries are not inlined in patterns'
    single statements (nothing follows them), but a multi-statement pattern wrapped in a function gets the full treatment."""
    is_stmts = isinstance(node, (ast.stmt, list))
    body0 = node if isinstance(node, list) else ([node] if isinstance(node, ast.stmt) else [ast.Expr(value=node)])
    wrapper = ast.FunctionDef(name="_pattern_", args=ast.arguments(posonlyargs=[], args=[], kwonlyargs=[], kw_defaults=[], defaults=[]), body=body0, decorator_list=[], returns=None, type_comment=None, type_params=[])
    mod = ast.Module(body=[wrapper], type_ignores=[])
    ast.fix_missing_locations(mod)
    canon_module(mod, temp_inlining=temp_inlining)
    body = mod.body[0].body
    if is_stmts:
        return body
    return body[0].value if body and isinstance(body[0], ast.Expr) else node
