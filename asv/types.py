"""Lightweight receiver typing and call resolution from the repo's own annotations.

Order: self/cls -> enclosing class; parameter annotations; attribute
annotations / constructor assignments in __init__; local flow (assignment from
a call whose return annotation is known, constructor call, `for x in
d.values()` with an annotated dict); unique-definer fallback.
"""
from __future__ import annotations

import ast
import re

from .astutil import FUNC_TYPES, body_walk, call_name, call_recv, strip_await, walk_no_nested
from .loader import FuncInfo, Program

_ID = re.compile(r"[A-Za-z_][A-Za-z_0-9]*")


def ann_classes(p: Program, ann: ast.AST | str | None) -> list[str]:
    """Repo class names mentioned in an annotation (Optional/Union/quotes ok)."""
    if ann is None:
        return []
    if isinstance(ann, ast.AST):
        if isinstance(ann, ast.Constant) and isinstance(ann.value, str):
            s = ann.value
        else:
            s = ast.unparse(ann)
    else:
        s = ann
    return [t for t in _ID.findall(s) if t in p.classes]


def ann_container_elem(p: Program, ann: ast.AST | None) -> list[str]:
    """Element class of dict[.., X] / list[X] / set[X] annotations."""
    if ann is None:
        return []
    s = ann.value if isinstance(ann, ast.Constant) and isinstance(ann.value, str) else ast.unparse(ann)
    m = re.match(r"\s*(dict|Dict|defaultdict)\[(.*)\]\s*$", s, re.S)
    if m:
        inner = m.group(2)
        # last top-level comma separates key / value
        depth, cut = 0, None
        for i, ch in enumerate(inner):
            if ch == "[":
                depth += 1
            elif ch == "]":
                depth -= 1
            elif ch == "," and depth == 0:
                cut = i
        if cut is not None:
            return [t for t in _ID.findall(inner[cut + 1 :]) if t in p.classes]
    m = re.match(r"\s*(list|List|set|Set|tuple|Iterable|Sequence)\[(.*)\]\s*$", s, re.S)
    if m:
        return [t for t in _ID.findall(m.group(2)) if t in p.classes]
    return []


# method names that also exist on builtin containers/strings/files: never resolved by the unique-definer fallback
_BUILTIN_METHOD_NAMES = {
    "append", "extend", "insert", "pop", "remove", "clear", "copy", "add", "discard", "update", "get", "items", "keys",
    "values", "close", "read", "write", "index", "count", "sort", "reverse", "join", "split", "strip", "encode", "decode",
    "format", "search", "match", "run", "start", "cancel", "set", "wait", "put", "delete", "rename", "list", "create",
    "fetch", "store", "expunge", "lock", "unlock", "commit", "execute", "query", "push", "command", "message", "new",
}


class Typer:
    def __init__(self, p: Program):
        self.p = p
        self._attr_types: dict[str, dict[str, list[str]]] = {}
        self._attr_elem: dict[str, dict[str, list[str]]] = {}
        for cname in p.classes:
            self._scan_class_attrs(cname)

    # ------------------------------------------------------------------
    def _scan_class_attrs(self, cname: str) -> None:
        ci = self.p.classes[cname]
        at: dict[str, list[str]] = {}
        el: dict[str, list[str]] = {}
        for st in ci.node.body:
            if isinstance(st, ast.AnnAssign) and isinstance(st.target, ast.Name):
                at.setdefault(st.target.id, []).extend(ann_classes(self.p, st.annotation))
        for mname, fi in ci.methods.items():
            params = self._param_types(fi)
            for n in body_walk(fi.node):
                tgt = val = ann = None
                if isinstance(n, ast.AnnAssign):
                    tgt, val, ann = n.target, n.value, n.annotation
                elif isinstance(n, ast.Assign) and len(n.targets) == 1:
                    tgt, val = n.targets[0], n.value
                if tgt is None or not (
                    isinstance(tgt, ast.Attribute) and isinstance(tgt.value, ast.Name) and tgt.value.id == "self"
                ):
                    continue
                ts: list[str] = []
                if ann is not None:
                    ts += ann_classes(self.p, ann)
                    e = ann_container_elem(self.p, ann)
                    if e:
                        el.setdefault(tgt.attr, []).extend(e)
                        ts = [t for t in ts if t not in e]
                if val is not None and not ts:
                    v = strip_await(val)
                    if isinstance(v, ast.Name) and v.id in params:
                        ts += params[v.id]
                    elif isinstance(v, ast.Call):
                        f = v.func
                        if isinstance(f, ast.Name) and f.id in self.p.classes:
                            ts.append(f.id)
                for t in ts:
                    if t not in at.setdefault(tgt.attr, []):
                        at[tgt.attr].append(t)
        self._attr_types[cname] = at
        self._attr_elem[cname] = el

    def _param_types(self, fi: FuncInfo) -> dict[str, list[str]]:
        out: dict[str, list[str]] = {}
        a = fi.node.args
        for arg in list(a.posonlyargs) + list(a.args) + list(a.kwonlyargs):
            ts = ann_classes(self.p, arg.annotation)
            if ts:
                out[arg.arg] = ts
        return out

    def attr_type(self, cname: str, attr: str) -> list[str]:
        for ci in self.p.mro(cname):
            t = self._attr_types.get(ci.name, {}).get(attr)
            if t:
                return t
        return []

    def attr_elem(self, cname: str, attr: str) -> list[str]:
        for ci in self.p.mro(cname):
            t = self._attr_elem.get(ci.name, {}).get(attr)
            if t:
                return t
        return []

    # ------------------------------------------------------------------
    def local_env(self, fi: FuncInfo) -> dict[str, list[str]]:
        """name -> possible repo classes, flow-insensitive within the function."""
        env: dict[str, list[str]] = {}
        f: FuncInfo | None = fi
        chain = []
        while f is not None:
            chain.append(f)
            f = f.parent
        for f in reversed(chain):
            for k, v in self._param_types(f).items():
                env[k] = list(v)
            if f.cls and f.node.args.args:
                first = f.node.args.args[0].arg
                decos = f.decorators()
                if first in ("self", "cls") and "staticmethod" not in decos:
                    env[first] = [f.cls]
        # iterate to a small fixpoint over assignments
        for _ in range(3):
            changed = False
            for f in reversed(chain):
                for n in body_walk(f.node):
                    tgt = val = None
                    if isinstance(n, ast.Assign) and len(n.targets) == 1:
                        tgt, val = n.targets[0], n.value
                    elif isinstance(n, ast.AnnAssign) and n.value is not None:
                        tgt, val = n.target, n.value
                        if isinstance(tgt, ast.Name):
                            ts = ann_classes(self.p, n.annotation)
                            if ts and env.get(tgt.id) != ts:
                                env[tgt.id] = ts
                                changed = True
                            continue
                    elif isinstance(n, (ast.For, ast.AsyncFor)):
                        ts = self.elem_type(n.iter, env)
                        if ts:
                            tg = n.target
                            if isinstance(tg, ast.Tuple) and tg.elts:
                                tg = tg.elts[-1]
                            if isinstance(tg, ast.Name) and env.get(tg.id) != ts:
                                env[tg.id] = ts
                                changed = True
                        continue
                    elif isinstance(n, (ast.With, ast.AsyncWith)):
                        continue
                    if isinstance(tgt, ast.Name) and val is not None:
                        ts = self.expr_type(val, env)
                        if ts:
                            old = env.get(tgt.id, [])
                            new = old + [t for t in ts if t not in old]
                            if new != old:
                                env[tgt.id] = new
                                changed = True
            if not changed:
                break
        return env

    def elem_type(self, it: ast.AST, env: dict[str, list[str]]) -> list[str]:
        it = strip_await(it)
        # a copy / re-ordering of an iterable has the same elements: list(x), tuple(x), sorted(x), reversed(x), set(x)
        while isinstance(it, ast.Call) and isinstance(it.func, ast.Name) and it.func.id in ("list", "tuple", "sorted", "reversed", "set", "frozenset") and it.args:
            it = strip_await(it.args[0])
        if isinstance(it, ast.Call) and call_name(it) in ("values", "items") and call_recv(it) is not None:
            r = call_recv(it)
            if isinstance(r, ast.Attribute):
                for bt in self.expr_type(r.value, env):
                    e = self.attr_elem(bt, r.attr)
                    if e:
                        return e
        if isinstance(it, ast.Attribute):
            for bt in self.expr_type(it.value, env):
                e = self.attr_elem(bt, it.attr)
                if e:
                    return e
        return []

    def expr_type(self, e: ast.AST, env: dict[str, list[str]]) -> list[str]:
        e = strip_await(e)
        if isinstance(e, ast.Name):
            if e.id in env:
                return env[e.id]
            if e.id in self.p.classes:
                return [e.id]  # the class object itself (classmethod receiver)
            return []
        if isinstance(e, ast.Attribute):
            out: list[str] = []
            for bt in self.expr_type(e.value, env):
                for t in self.attr_type(bt, e.attr):
                    if t not in out:
                        out.append(t)
            return out
        if isinstance(e, ast.Subscript):
            if isinstance(e.value, ast.Attribute):
                for bt in self.expr_type(e.value.value, env):
                    el = self.attr_elem(bt, e.value.attr)
                    if el:
                        return el
            return []
        if isinstance(e, ast.Call):
            f = e.func
            if isinstance(f, ast.Name):
                if f.id in self.p.classes:
                    return [f.id]
                if f.id == "cls" and "cls" in env:
                    return env["cls"]
                if f.id == "cast" and len(e.args) == 2:
                    return ann_classes(self.p, e.args[0])
                return []
            if isinstance(f, ast.Attribute):
                for fi in self.resolve_call(e, env):
                    ts = ann_classes(self.p, fi.node.returns)
                    if ts:
                        return ts
            return []
        if isinstance(e, ast.IfExp):
            return self.expr_type(e.body, env) or self.expr_type(e.orelse, env)
        return []

    def resolve_call(self, call: ast.Call, env: dict[str, list[str]], unique_fallback: bool = True) -> list[FuncInfo]:
        """Possible repo callees of a call expression."""
        f = call.func
        out: list[FuncInfo] = []
        if isinstance(f, ast.Name):
            # module-level function by name (any module; names are unique enough in this repo)
            for fi in self.p.functions.values():
                if fi.cls is None and fi.parent is None and fi.name == f.id:
                    out.append(fi)
            if f.id in self.p.classes:
                m = self.p.resolve_method(f.id, "__init__")
                if m:
                    out.append(m)
            return out
        if isinstance(f, ast.Attribute):
            rts = self.expr_type(f.value, env)
            for rt in rts:
                m = self.p.resolve_method(rt, f.attr)
                if m and m not in out:
                    out.append(m)
                # dynamic dispatch to subclasses overriding the method
                for sc in self.p.subclasses(rt):
                    ci = self.p.classes[sc]
                    if f.attr in ci.methods and ci.methods[f.attr] not in out:
                        out.append(ci.methods[f.attr])
            if not out and not rts and unique_fallback and f.attr not in _BUILTIN_METHOD_NAMES:
                cands = [ci.methods[f.attr] for ci in self.p.classes.values() if f.attr in ci.methods]
                if len(cands) == 1:
                    out = cands
        return out


def enclosing_func_map(p: Program) -> dict[int, FuncInfo]:
    """id(ast node) -> innermost FuncInfo containing it."""
    out: dict[int, FuncInfo] = {}
    for fi in p.functions.values():
        for n in body_walk(fi.node):
            out[id(n)] = fi
    return out
