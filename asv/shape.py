"""String/bytes shape domain: does a value end in CRLF; quote context of holes; paren balance."""
from __future__ import annotations

import ast

from .astutil import body_walk, call_name, call_recv, calls_in, fstring_parts, merge_consts, norm, strip_await
from .loader import FuncInfo, Program

YES, NO, TOP = "yes", "no", "unknown"


def _join(vals):
    vals = list(vals)
    if not vals:
        return TOP
    if all(v == YES for v in vals):
        return YES
    if any(v == NO for v in vals):
        return NO
    return TOP


class Shapes:
    def __init__(self, p: Program, typer):
        self.p = p
        self.t = typer
        self._ret: dict[str, tuple[str, str]] = {}
        self._busy: set[str] = set()

    # ------------------------------------------------------------------
    def ends_crlf(self, e: ast.AST, fi: FuncInfo, depth: int = 0, at: ast.AST | None = None) -> tuple[str, str]:
        """(verdict, reason) for a scalar str/bytes expression."""
        e = strip_await(e)
        if depth > 6:
            return TOP, "depth"
        parts = fstring_parts(e)
        if parts is not None and not (isinstance(e, ast.Call)):
            parts = merge_consts(parts)
            last = parts[-1]
            if isinstance(last, str):
                return (YES, "constant tail") if last.endswith("\r\n") else (NO, f"constant tail {last[-12:]!r} lacks CRLF")
            return self.ends_crlf(last, fi, depth + 1, at)
        if isinstance(e, ast.Call):
            nm = call_name(e)
            if nm in ("strip", "rstrip"):
                return NO, ".strip() removes the CRLF"
            if nm == "encode" and call_recv(e) is not None:
                return self.ends_crlf(call_recv(e), fi, depth + 1, at)
            if nm == "join":
                # "".join(lines): every element must end with CRLF and list non-empty ending known
                if e.args:
                    v, why = self.elems_end_crlf(e.args[0], fi, depth + 1, at)
                    sep = call_recv(e)
                    if isinstance(sep, ast.Constant) and sep.value in ("", b""):
                        return v, "join of " + why
                return TOP, "join"
            if nm in ("readuntil",) and e.args and isinstance(e.args[0], ast.Constant) and e.args[0].value in (b"\r\n",):
                return YES, "readuntil(CRLF) returns data ending with the separator"
            if nm == "readuntil" and e.args and norm(e.args[0]) in ("self.LINE_TERMINATOR",):
                return TOP, "readuntil(LINE_TERMINATOR)"
            cal = self.t.resolve_call(e, self.t.local_env(fi))
            if cal:
                vs = [self.returns_crlf(c) for c in cal]
                return _join(v for v, _ in vs), "return summary of " + ",".join(c.qual for c in cal)
            return TOP, f"call {norm(e.func)}"
        if isinstance(e, ast.BinOp) and isinstance(e.op, ast.Mod):
            return self.ends_crlf(e.left, fi, depth + 1, at)
        if isinstance(e, ast.Name):
            defs = self._defs(fi, e.id, at)
            if not defs:
                tu = self._tuple_unpack_def(fi, e.id, depth)
                if tu is not None:
                    return tu
                r = self._param_from_callers(e.id, fi, depth, elems=False)
                if r is not None:
                    return r
                return TOP, f"no local definition of {e.id}"
            res = []
            for d in defs:
                if isinstance(d, ast.AugAssign):
                    res.append(self.ends_crlf(d.value, fi, depth + 1, d))
                else:
                    res.append(self.ends_crlf(d, fi, depth + 1, d))
            # for x = a; x += b  the last piece decides: AugAssign defs dominate
            aug = [r for d, r in zip(defs, res) if isinstance(d, ast.AugAssign)]
            if aug:
                return aug[-1]
            v = _join(r[0] for r in res)
            why = "; ".join(r[1] for r in res if r[0] != YES) or "all definitions end with CRLF"
            return v, why
        if isinstance(e, ast.IfExp):
            a, b = self.ends_crlf(e.body, fi, depth + 1, at), self.ends_crlf(e.orelse, fi, depth + 1, at)
            return _join([a[0], b[0]]), a[1] if a[0] != YES else b[1]
        if isinstance(e, ast.Subscript) and isinstance(e.slice, ast.Constant) and isinstance(e.slice.value, int) and isinstance(strip_await(e.value), ast.Call):
            # f(...)[i]  where f returns a tuple literal: shape of that element (the spelling `_, x = f(...)` without the name)
            i = e.slice.value
            cal = self.t.resolve_call(strip_await(e.value), self.t.local_env(fi))
            rs = []
            for c in cal:
                for r in body_walk(c.node):
                    if isinstance(r, ast.Return) and isinstance(r.value, ast.Tuple) and 0 <= i < len(r.value.elts):
                        rs.append(self.ends_crlf(r.value.elts[i], c, depth + 1, r))
                    elif isinstance(r, ast.Return) and r.value is not None:
                        rs.append((TOP, f"{c.qual} returns something other than a tuple literal"))
            if rs:
                return _join(x[0] for x in rs), "; ".join(x[1] for x in rs if x[0] != YES) or "tuple element of callee ends with CRLF"
        return TOP, f"expression {norm(e, 40)}"

    def _defs(self, fi: FuncInfo, name: str, at: ast.AST | None):
        """Definitions of a local name; if `at` is given prefer the nearest preceding
        definition in an enclosing block (flow-sensitive enough for handler arms)."""
        from .rules.common import parmap

        if at is not None:
            par = parmap(fi)
            cur = at
            while cur in par:
                pr = par[cur]
                for fld in ("body", "orelse", "finalbody"):
                    lst = getattr(pr, fld, None)
                    if isinstance(lst, list) and cur in lst:
                        i = lst.index(cur)
                        for s in reversed(lst[:i]):
                            if isinstance(s, ast.Assign) and any(isinstance(t, ast.Name) and t.id == name for t in s.targets):
                                return [s.value]
                            if isinstance(s, ast.AugAssign) and isinstance(s.target, ast.Name) and s.target.id == name:
                                return [s]
                            if isinstance(s, ast.AnnAssign) and isinstance(s.target, ast.Name) and s.target.id == name and s.value is not None:
                                return [s.value]
                            # a preceding compound statement that assigns the name on some path: give up nearest-def
                            if any(isinstance(x, (ast.Assign, ast.AugAssign)) and any(isinstance(t, ast.Name) and t.id == name for t in (x.targets if isinstance(x, ast.Assign) else [x.target])) for x in ast.walk(s)):
                                return self._all_defs(fi, name)
                cur = pr
        return self._all_defs(fi, name)

    def _all_defs(self, fi: FuncInfo, name: str):
        out = []
        for n in body_walk(fi.node):
            if isinstance(n, ast.Assign) and any(isinstance(t, ast.Name) and t.id == name for t in n.targets):
                out.append(n.value)
            elif isinstance(n, ast.AnnAssign) and isinstance(n.target, ast.Name) and n.target.id == name and n.value is not None:
                out.append(n.value)
            elif isinstance(n, ast.AugAssign) and isinstance(n.target, ast.Name) and n.target.id == name:
                out.append(n)
            elif isinstance(n, (ast.For, ast.AsyncFor)):
                for t in ast.walk(n.target):
                    if isinstance(t, ast.Name) and t.id == name:
                        out.append(("elem", n.iter))
        # parameters
        return out

    def _tuple_unpack_def(self, fi: FuncInfo, name: str, depth: int):
        """a, b = f(...)  where f returns a tuple literal: shape of the matching element."""
        for n in body_walk(fi.node):
            if isinstance(n, ast.Assign) and isinstance(n.targets[0], ast.Tuple) and isinstance(strip_await(n.value), ast.Call):
                for i, t in enumerate(n.targets[0].elts):
                    if isinstance(t, ast.Name) and t.id == name:
                        cal = self.t.resolve_call(strip_await(n.value), self.t.local_env(fi))
                        rs = []
                        for c in cal:
                            for r in body_walk(c.node):
                                if isinstance(r, ast.Return) and isinstance(r.value, ast.Tuple) and i < len(r.value.elts):
                                    rs.append(self.ends_crlf(r.value.elts[i], c, depth + 1, r))
                        if rs:
                            return _join(x[0] for x in rs), "; ".join(x[1] for x in rs if x[0] != YES) or "tuple element of callee ends with CRLF"
        return None

    # ------------------------------------------------------------------
    def elems_end_crlf(self, e: ast.AST, fi: FuncInfo, depth: int = 0, at: ast.AST | None = None) -> tuple[str, str]:
        """All elements of a list-valued expression end with CRLF?"""
        e = strip_await(e)
        if depth > 6:
            return TOP, "depth"
        if isinstance(e, (ast.List, ast.Tuple)):
            rs = [self.ends_crlf(x, fi, depth + 1, at) for x in e.elts]
            return _join(r[0] for r in rs) if rs else YES, "; ".join(r[1] for r in rs if r[0] != YES) or "list literal of CRLF-terminated lines"
        if isinstance(e, (ast.ListComp, ast.GeneratorExp, ast.SetComp)):
            r = self.ends_crlf(e.elt, fi, depth + 1, at)
            return r[0], r[1] if r[0] != YES else "every element of the comprehension ends with CRLF"
        if isinstance(e, ast.Name):
            rs = []
            found = False
            for n in body_walk(fi.node):
                if isinstance(n, ast.Assign) and any(isinstance(t, ast.Name) and t.id == e.id for t in n.targets):
                    found = True
                    rs.append(self.elems_end_crlf(n.value, fi, depth + 1, n))
                elif isinstance(n, ast.AnnAssign) and isinstance(n.target, ast.Name) and n.target.id == e.id and n.value is not None:
                    found = True
                    rs.append(self.elems_end_crlf(n.value, fi, depth + 1, n))
                elif isinstance(n, ast.Call) and call_name(n) == "append" and isinstance(call_recv(n), ast.Name) and call_recv(n).id == e.id:
                    found = True
                    rs.append(self.ends_crlf(n.args[0], fi, depth + 1, n))
                elif isinstance(n, ast.Call) and call_name(n) == "extend" and isinstance(call_recv(n), ast.Name) and call_recv(n).id == e.id:
                    found = True
                    rs.append(self.elems_end_crlf(n.args[0], fi, depth + 1, n))
                elif isinstance(n, ast.Assign) and isinstance(n.targets[0], ast.Tuple):
                    for i, t in enumerate(n.targets[0].elts):
                        if isinstance(t, ast.Name) and t.id == e.id:
                            found = True
                            rs.append((TOP, "tuple unpack"))
            if isinstance(e, ast.Name) and found and _only_param_wrap(fi, e.id):
                # `if isinstance(x, str): x = [x]` on a parameter: elements are the caller's scalars/lists
                r = self._param_from_callers(e.id, fi, depth, elems=True)
                if r is not None:
                    return r
            if not found:
                r = self._param_from_callers(e.id, fi, depth, elems=True)
                if r is not None:
                    return r
                return TOP, f"{e.id} is a parameter / has no local definition"
            return _join(r[0] for r in rs), "; ".join(r[1] for r in rs if r[0] != YES) or "every appended element ends with CRLF"
        if isinstance(e, ast.Call):
            cal = self.t.resolve_call(e, self.t.local_env(fi))
            if cal:
                vs = [self.returns_crlf(c, elems=True) for c in cal]
                return _join(v for v, _ in vs), "element summary of " + ",".join(c.qual for c in cal)
            if isinstance(e.func, ast.Name) and e.func.id in ("list", "sorted") and e.args:
                return self.elems_end_crlf(e.args[0], fi, depth + 1, at)
        if isinstance(e, ast.Attribute):
            return self._attr_elems(e.attr, depth)
        # a scalar where a list is expected (str | list[str] parameters)
        v = self.ends_crlf(e, fi, depth + 1, at)
        if v[0] != TOP:
            return v
        return TOP, f"expression {norm(e, 40)}"

    def _attr_elems(self, attr: str, depth: int) -> tuple[str, str]:
        """Elements ever appended/extended/assigned into an attribute named `attr` anywhere in the repo."""
        key = "attr:" + attr
        if key in self._ret:
            return self._ret[key]
        if key in self._busy:
            return YES, "recursion (optimistic)"
        self._busy.add(key)
        rs = []
        for f2 in self.p.functions.values():
            for n in body_walk(f2.node):
                if isinstance(n, ast.Call) and call_name(n) in ("append", "extend") and isinstance(call_recv(n), ast.Attribute) and call_recv(n).attr == attr:
                    if call_name(n) == "append":
                        rs.append(self.ends_crlf(n.args[0], f2, depth + 1, n))
                    else:
                        rs.append(self.elems_end_crlf(n.args[0], f2, depth + 1, n))
                elif isinstance(n, ast.Assign) and any(isinstance(t, ast.Attribute) and t.attr == attr for t in n.targets):
                    rs.append(self.elems_end_crlf(n.value, f2, depth + 1, n))
                elif isinstance(n, ast.AnnAssign) and isinstance(n.target, ast.Attribute) and n.target.attr == attr and n.value is not None:
                    rs.append(self.elems_end_crlf(n.value, f2, depth + 1, n))
        self._busy.discard(key)
        out = (_join(r[0] for r in rs), "; ".join(r[1] for r in rs if r[0] != YES) or f"everything stored into .{attr} ends with CRLF") if rs else (TOP, f"nothing stored into .{attr}")
        self._ret[key] = out
        return out

    def _param_from_callers(self, name: str, fi: FuncInfo, depth: int, elems: bool):
        args = [a.arg for a in fi.node.args.args]
        if name not in args:
            return None
        pos = args.index(name)
        if fi.cls and args and args[0] in ("self", "cls"):
            pos -= 1
        key = f"param:{fi.key}:{name}:{elems}"
        if key in self._ret:
            return self._ret[key]
        if key in self._busy:
            return YES, "recursion (optimistic)"
        self._busy.add(key)
        rs = []
        for f2 in self.p.functions.values():
            for c in calls_in(f2.node):
                if call_name(c) != fi.name:
                    continue
                cal = self.t.resolve_call(c, self.t.local_env(f2))
                if fi not in cal:
                    continue
                a = None
                for k in c.keywords:
                    if k.arg == name:
                        a = k.value
                if a is None and 0 <= pos < len(c.args) and not any(isinstance(x, ast.Starred) for x in c.args[: pos + 1]):
                    a = c.args[pos]
                if a is None:
                    continue
                rs.append(self.elems_end_crlf(a, f2, depth + 1, c) if elems else self.ends_crlf(a, f2, depth + 1, c))
        self._busy.discard(key)
        out = (_join(r[0] for r in rs), "; ".join(r[1] for r in rs if r[0] != YES) or f"every caller passes CRLF-terminated value(s) for {name}") if rs else None
        if out is not None:
            self._ret[key] = out
        return out

    def returns_crlf(self, fi: FuncInfo, elems: bool = False) -> tuple[str, str]:
        key = fi.key + (":elems" if elems else "")
        if key in self._ret:
            return self._ret[key]
        if key in self._busy:
            return TOP, "recursion"
        self._busy.add(key)
        rs = []
        for n in body_walk(fi.node):
            if isinstance(n, ast.Return) and n.value is not None:
                if isinstance(n.value, ast.Constant) and n.value.value is None:
                    continue
                rs.append(self.elems_end_crlf(n.value, fi, 1, n) if elems else self.ends_crlf(n.value, fi, 1, n))
        self._busy.discard(key)
        out = (_join(r[0] for r in rs), "; ".join(r[1] for r in rs if r[0] != YES) or "every return value ends with CRLF") if rs else (TOP, "no return value")
        self._ret[key] = out
        return out


def _only_param_wrap(fi: FuncInfo, name: str) -> bool:
    """All assignments to `name` are of the form  name = [name]."""
    if name not in [a.arg for a in fi.node.args.args]:
        return False
    for n in body_walk(fi.node):
        if isinstance(n, ast.Assign) and any(isinstance(t, ast.Name) and t.id == name for t in n.targets):
            if not (isinstance(n.value, ast.List) and len(n.value.elts) == 1 and isinstance(n.value.elts[0], ast.Name) and n.value.elts[0].id == name):
                return False
        if isinstance(n, ast.Call) and call_name(n) in ("append", "extend") and isinstance(call_recv(n), ast.Name) and call_recv(n).id == name:
            return False
    return True


# ----------------------------------------------------------------------------
def quoted_holes(expr: ast.AST):
    """Holes of a str/bytes template that sit directly between double quotes.

    Returns list of hole expressions."""
    parts = fstring_parts(expr)
    if parts is None:
        return []
    parts = merge_consts(parts)
    out = []
    for i, h in enumerate(parts):
        if isinstance(h, str):
            continue
        before = parts[i - 1] if i > 0 and isinstance(parts[i - 1], str) else ""
        after = parts[i + 1] if i + 1 < len(parts) and isinstance(parts[i + 1], str) else ""
        if before.endswith('"') and after.startswith('"'):
            # make sure the quote before is an opening quote: odd number of quotes so far
            out.append(h)
    return out


def paren_balance(expr: ast.AST) -> int | None:
    parts = fstring_parts(expr)
    if parts is None:
        return None
    bal = 0
    for x in parts:
        if isinstance(x, str):
            bal += x.count("(") - x.count(")")
    return bal
