"""Thorough tier: cross-check of the engine's call resolution against mypy's type-checked program.

mypy 2.x is one of the repository's own dev dependencies and therefore present in /venv; it is used here as a library
(nothing of the repository is imported or run).  For every call expression in the functions a property's rules analysed,
the callee the engine's light-weight typer resolved (asv.types.Typer.resolve_call) is compared with the callee mypy
resolved from full type information:

  agree        - mypy's callee is among the engine's candidates (or is an override/base of one)
  engine-only  - mypy could not name a repo callee (Any-typed receiver, dynamic attribute): nothing to compare
  mypy-only    - mypy names a repo callee, the engine resolved nothing: the engine is blind at this site (counted)
  disagree     - both resolved, to unrelated functions: the engine's call graph is wrong at this site

Only `disagree` matters for soundness of the who-may-call / reachability rules; it fails the thorough check as an
ANALYSIS-ERROR (exit 2), never as a violation.
"""
from __future__ import annotations

import ast
import io
import os
import sys
from contextlib import redirect_stderr, redirect_stdout

from .loader import PKG

_CACHE: dict[str, dict] = {}
# attributes of mypy nodes that point at *definitions elsewhere* (not syntactic children): never followed
_REF_ATTRS = {"node", "info", "type", "defn", "def_var", "var", "original_def", "impl", "unanalyzed_type", "type_annotation", "analyzed", "expanded", "type_guard", "type_is", "type_var", "fullname", "name", "names", "imports", "defs_"}


def available() -> bool:
    try:
        import mypy.build  # noqa: F401

        return True
    except Exception:  # noqa: BLE001
        return False


_ATTRS: dict[type, list[str]] = {}


def _children(n):
    """Syntactic children of a mypy node (statements, expressions, arguments, patterns) - never definitions elsewhere."""
    from mypy.nodes import Argument, Expression, Statement
    from mypy.patterns import Pattern

    ok = (Statement, Expression, Argument, Pattern)
    t = type(n)
    names = _ATTRS.get(t)
    if names is None:
        names = []
        for name in dir(t):
            if name.startswith("_") or name in _REF_ATTRS:
                continue
            try:
                d = getattr(t, name)
            except Exception:  # noqa: BLE001
                continue
            if callable(d) and not isinstance(d, property) and type(d).__name__ not in ("member_descriptor", "getset_descriptor"):
                continue
            names.append(name)
        _ATTRS[t] = names
    for name in names:
        try:
            v = getattr(n, name)
        except Exception:  # noqa: BLE001
            continue
        if isinstance(v, ok):
            yield v
        elif isinstance(v, (list, tuple)):
            for x in v:
                if isinstance(x, ok):
                    yield x
                elif isinstance(x, (list, tuple)):
                    for y in x:
                        if isinstance(y, ok):
                            yield y


def resolved_callees(repo: str) -> dict:
    """Run mypy once over <repo>/asimap; returns {(module, line, col): callee fullname}.  Member calls are resolved through
    the receiver's type: for `x.m(...)` with x: C the fullname is taken from the type's method table."""
    if repo in _CACHE:
        return _CACHE[repo]
    from mypy import build
    from mypy.find_sources import create_source_list
    from mypy.nodes import CallExpr, MemberExpr, RefExpr
    from mypy.options import Options
    from mypy.types import Instance, get_proper_type

    opts = Options()
    opts.preserve_asts = True
    opts.export_types = True
    opts.incremental = False
    opts.cache_dir = os.devnull
    opts.ignore_missing_imports = True
    opts.follow_imports = os.environ.get("ASV_MYPY_FOLLOW", "skip")  # third-party packages stay Any: only repo callees matter
    opts.python_version = sys.version_info[:2]
    opts.check_untyped_defs = True
    cwd = os.getcwd()
    os.chdir(repo)
    buf = io.StringIO()
    try:
        with redirect_stdout(buf), redirect_stderr(buf):
            srcs = create_source_list([PKG], opts)
            srcs = [s for s in srcs if ".test" not in (s.module or "")]
            res = build.build(srcs, opts)
    finally:
        os.chdir(cwd)
    out: dict = {}
    types = res.types
    for modname, mf in res.files.items():
        if not modname.startswith(PKG + ".") or ".test" in modname:
            continue
        mod = modname.split(".", 1)[1]
        seen = set()
        todo = list(mf.defs)
        while todo:
            n = todo.pop()
            if id(n) in seen:
                continue
            seen.add(id(n))
            if isinstance(n, CallExpr):
                c = n.callee
                full = None
                if isinstance(c, RefExpr) and c.fullname:
                    full = c.fullname
                if full is None and isinstance(c, MemberExpr):
                    rt = types.get(c.expr)
                    rt = get_proper_type(rt) if rt is not None else None
                    if isinstance(rt, Instance):
                        for base in rt.type.mro:
                            if c.name in base.names:
                                full = f"{base.fullname}.{c.name}"
                                break
                if full:
                    out[(mod, n.line, n.column, n.end_line, n.end_column)] = full
            todo.extend(_children(n))
    _CACHE[repo] = out
    return out


def _related(p, mine: set[str], theirs: str) -> bool:
    """mypy's callee `theirs` ("mbox.Mailbox.store", or a class "mbox.NoSuchMailbox") is covered by the engine's candidates."""
    if theirs in mine or theirs + ".__init__" in mine:
        return True
    tcls = theirs.split(".")[-1]
    if tcls in p.classes:
        # instantiation: the engine names the __init__ that the class inherits
        mro = [x.name for x in p.mro(tcls)]
        for m in mine:
            parts = m.split(".")
            if parts[-1] == "__init__" and parts[-2] in mro:
                return True
        return False
    tparts = theirs.rsplit(".", 1)
    if len(tparts) == 2:
        tc = tparts[0].split(".")[-1]
        for m in mine:
            mp_ = m.rsplit(".", 1)
            if len(mp_) == 2 and mp_[1] == tparts[1]:
                mc = mp_[0].split(".")[-1]
                if mc in p.classes and tc in p.classes and (mc in [x.name for x in p.mro(tc)] or tc in [x.name for x in p.mro(mc)]):
                    return True  # override / base of the same method
    return False


def cross_check(p, typer, env_of, functions) -> dict:
    """Compare engine and mypy callees for every call in `functions` (FuncInfo list)."""
    from .astutil import calls_in

    mp = resolved_callees(p.repo)
    stats = {"calls": 0, "agree": 0, "engine_only": 0, "mypy_only": [], "external": 0, "unresolved_both": 0, "over_approx": [], "disagree": []}
    for fi in functions:
        env = env_of(p, fi)
        for c in calls_in(fi.node):
            stats["calls"] += 1
            mine = {f.key for f in typer.resolve_call(c, env)}
            full = mp.get((fi.module, c.lineno, c.col_offset, c.end_lineno, c.end_col_offset))
            theirs = None
            if full and full.startswith(PKG + "."):
                theirs = full.split(".", 1)[1]  # "mbox.Mailbox.store"
            elif full:
                stats["external"] += 1
                if mine and isinstance(c.func, ast.Attribute):
                    # the engine maps a call that mypy resolves to a non-repo function (e.g. Process.terminate) onto a repo
                    # function of the same name: an over-approximation of the call graph (extra edge), listed, not fatal
                    stats["over_approx"].append({"site": f"{fi.module}:{fi.qual}:{c.lineno}", "engine": sorted(mine), "mypy": full})
                continue
            if theirs is None:
                if mine:
                    stats["engine_only"] += 1
                else:
                    stats["unresolved_both"] += 1
                continue
            if not mine:
                stats["mypy_only"].append({"site": f"{fi.module}:{fi.qual}:{c.lineno}", "mypy": theirs})
                continue
            if _related(p, mine, theirs):
                stats["agree"] += 1
            else:
                stats["disagree"].append({"site": f"{fi.module}:{fi.qual}:{c.lineno}", "engine": sorted(mine), "mypy": theirs})
    return stats
