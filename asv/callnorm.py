"""Normal form for calls of the package's own functions: how an argument is passed - by position, by keyword, a default
written out - says nothing about what is passed.  Calls whose callee name belongs to exactly one signature of the package are
rewritten to: positional for the leading parameters that are supplied (by position or by keyword), keywords for the rest,
arguments that equal the declared default dropped.  The same rewrite is applied to rule patterns, and `astutil.kwarg()`
finds an argument by name wherever it ended up."""
from __future__ import annotations

import ast

SIGS: dict[str, tuple[list[str], dict[str, ast.AST]]] = {}  # callee name -> (parameter names without self/cls, defaults)
_SKIP = {"__init__", "get", "add", "append", "update", "pop", "remove", "copy", "search", "match", "sub", "split", "join", "format", "replace", "write", "read", "close", "push", "run", "start", "new", "list", "set", "open"}


def build(trees: dict) -> None:
    SIGS.clear()
    seen: dict[str, list] = {}
    for tree in trees.values():
        for n in ast.walk(tree):
            if isinstance(n, (ast.FunctionDef, ast.AsyncFunctionDef)):
                a = n.args
                if a.vararg or a.kwarg or a.posonlyargs:
                    seen.setdefault(n.name, []).append(None)
                    continue
                params = [x.arg for x in a.args]
                if params and params[0] in ("self", "cls"):
                    params = params[1:]
                names = [x.arg for x in a.args]
                defaults = {}
                for nm, d in zip(names[len(names) - len(a.defaults):], a.defaults):
                    defaults[nm] = d
                kwonly = [x.arg for x in a.kwonlyargs]
                for nm, d in zip(kwonly, a.kw_defaults):
                    if d is not None:
                        defaults[nm] = d
                seen.setdefault(n.name, []).append((params, defaults, kwonly))
    for name, sigs in seen.items():
        if len(sigs) == 1 and sigs[0] is not None and name not in _SKIP and not name.startswith("__"):
            SIGS[name] = sigs[0]
    # Mailbox.copy / Mailbox.append / Mailbox.search are the package's own and unique: admit them when unique
    for name in sorted(_SKIP):
        sigs = seen.get(name)
        if sigs and len(sigs) == 1 and sigs[0] is not None:
            SIGS["#" + name] = sigs[0]  # only used when a keyword of the call names one of its parameters


def _same(a, b) -> bool:
    return isinstance(a, ast.Constant) and isinstance(b, ast.Constant) and type(a.value) is type(b.value) and a.value == b.value or (isinstance(a, ast.Tuple) and isinstance(b, ast.Tuple) and not a.elts and not b.elts)


def _callee(call):
    f = call.func
    return f.attr if isinstance(f, ast.Attribute) else (f.id if isinstance(f, ast.Name) else None)


def sig_for(call):
    nm = _callee(call)
    if nm is None:
        return None
    if nm in SIGS:
        return SIGS[nm]
    s = SIGS.get("#" + nm)
    if s and any(k.arg in s[0] or k.arg in s[2] for k in call.keywords if k.arg):
        return s
    return None


def normalise_call(call: ast.Call) -> None:
    sig = sig_for(call)
    if sig is None:
        return
    params, defaults, kwonly = sig
    if any(isinstance(a, ast.Starred) for a in call.args) or any(k.arg is None for k in call.keywords):
        return
    if len(call.args) > len(params):
        return
    kw = {k.arg: k.value for k in call.keywords}
    if any(k not in params and k not in kwonly for k in kw):
        return
    if any(p in kw for p in params[: len(call.args)]):
        return  # would be a TypeError at run time: leave it
    given = {p: v for p, v in zip(params, call.args)}
    given.update({k: v for k, v in kw.items() if k in params})
    # drop arguments that equal the declared default
    for p in list(given):
        if p in defaults and _same(given[p], defaults[p]):
            del given[p]
    kwo = {k: v for k, v in kw.items() if k in kwonly and not (k in defaults and _same(v, defaults[k]))}
    new_args, rest = [], {}
    contiguous = True
    for p in params:
        if p in given and contiguous:
            new_args.append(given[p])
        else:
            contiguous = False
            if p in given:
                rest[p] = given[p]
    call.args = new_args
    call.keywords = [ast.keyword(arg=k, value=v) for k, v in list(rest.items()) + list(kwo.items())]


def normalise_tree(tree) -> None:
    if not SIGS:
        return
    for n in ast.walk(tree):
        if isinstance(n, ast.Call):
            normalise_call(n)


def find_arg(call: ast.Call, name: str):
    """the argument bound to parameter `name`, wherever the normal form put it"""
    for k in call.keywords:
        if k.arg == name:
            return k.value
    sig = sig_for(call)
    if sig is None:
        nm = _callee(call)
        sig = SIGS.get("#" + nm) if nm else None
    if sig and name in sig[0]:
        i = sig[0].index(name)
        if i < len(call.args) and not any(isinstance(a, ast.Starred) for a in call.args[: i + 1]):
            return call.args[i]
    return None
