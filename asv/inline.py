"""Folding of *new* helper functions into their callers before the rules look at the program.

The rules are anchored on the functions of the reference tree (asv/reference_functions.json).  "Extract method" is the most
common behaviour-preserving refactoring: a few statements of an anchored function move into a new private helper that is
called in their place.  Analysed as written, the clause-carrying statements are then in a function no rule knows, and the
rules would report a missing construct.  So, before the program model is built:

  a function that is NOT in the reference list, is defined in the same module (same class) as all of its callers, is only
  ever *called* (never passed around), is not a generator, not recursive, has no nested definitions and returns only in
  positions the expansion below can express, is substituted for its calls (parameters bound to the arguments, its locals
  renamed where they would clash) and its definition is dropped.

Everything else is left alone.  Nothing is executed; this is a source-to-source expansion on the syntax tree, used only for
analysis.  The expansion over-approximates nothing and hides nothing: the statements are the helper's own, in the order
they would run.  When a call site cannot be expanded the helper is kept as it is (and the rules see it as an unknown
function - they may then raise a finding, which is the fail-closed side).
"""
from __future__ import annotations

import ast
import copy
import json
import os

_REF = os.path.join(os.path.dirname(os.path.abspath(__file__)), "reference_functions.json")


def reference_functions() -> set[str] | None:
    if not os.path.exists(_REF):
        return None
    with open(_REF) as fh:
        return set(json.load(fh))


class _Abort(Exception):
    pass


def _contains(node, types) -> bool:
    return any(isinstance(x, types) for x in ast.walk(node))


def _has_return(stmts) -> bool:
    for s in stmts:
        for x in ast.walk(s):
            if isinstance(x, ast.Return):
                return True
    return False


def _expand(stmts: list[ast.stmt], bind) -> list[ast.stmt]:
    """The helper's statements with every `return e` replaced by bind(e); statements after an `if` that may return are
    duplicated into both arms (continuation passing)."""
    out: list[ast.stmt] = []
    for i, st in enumerate(stmts):
        rest = stmts[i + 1:]
        if isinstance(st, ast.Return):
            out.extend(bind(st.value))
            return out
        if isinstance(st, ast.If) and _has_return([st]):
            body = _expand(list(st.body) + copy.deepcopy(rest), bind)
            orelse = _expand(list(st.orelse) + copy.deepcopy(rest), bind)
            out.append(ast.copy_location(ast.If(test=st.test, body=body or [ast.Pass()], orelse=orelse), st))
            return out
        if _has_return([st]):
            raise _Abort("return inside a loop / try / with")
        out.append(st)
    out.extend(bind(None))
    return out


class _Subst(ast.NodeTransformer):
    def __init__(self, mapping: dict[str, ast.expr], rename: dict[str, str]):
        self.mapping = mapping
        self.rename = rename

    def visit_Name(self, node):
        if node.id in self.mapping and isinstance(node.ctx, ast.Load):
            return copy.deepcopy(self.mapping[node.id])
        if node.id in self.rename:
            return ast.copy_location(ast.Name(id=self.rename[node.id], ctx=node.ctx), node)
        return node

    def visit_ExceptHandler(self, node):
        if node.name and node.name in self.rename:
            node.name = self.rename[node.name]
        self.generic_visit(node)
        return node


def _simple(e) -> bool:
    if isinstance(e, (ast.Name, ast.Constant)):
        return True
    if isinstance(e, ast.Attribute):
        return _simple(e.value)
    return False


def _stored_names(fn) -> set[str]:
    out = set()
    for x in ast.walk(fn):
        if isinstance(x, ast.Name) and isinstance(x.ctx, (ast.Store, ast.Del)):
            out.add(x.id)
        elif isinstance(x, ast.ExceptHandler) and x.name:
            out.add(x.name)
    return out


def _instantiate(helper, call: ast.Call, is_method: bool, caller_names: set[str], bind) -> list[ast.stmt]:
    a = helper.args
    if a.vararg or a.kwarg:
        raise _Abort("*args/**kwargs")
    params = [x.arg for x in a.posonlyargs + a.args]
    static = any(isinstance(d, ast.Name) and d.id == "staticmethod" for d in helper.decorator_list)
    if is_method and not static:
        params = params[1:]  # self / cls: same object at the call site
    defaults = dict(zip(params[len(params) - len(a.defaults):], a.defaults)) if a.defaults else {}
    kwonly = {x.arg: d for x, d in zip(a.kwonlyargs, a.kw_defaults)}
    if any(isinstance(x, ast.Starred) for x in call.args) or any(k.arg is None for k in call.keywords):
        raise _Abort("star arguments")
    if len(call.args) > len(params):
        raise _Abort("too many positional arguments")
    actual: dict[str, ast.expr] = {}
    for p_, v in zip(params, call.args):
        actual[p_] = v
    for k in call.keywords:
        if k.arg in actual or (k.arg not in params and k.arg not in kwonly):
            raise _Abort("keyword mismatch")
        actual[k.arg] = k.value
    for p_ in params + list(kwonly):
        if p_ not in actual:
            d = defaults.get(p_) if p_ in params else kwonly.get(p_)
            if d is None:
                raise _Abort(f"missing argument {p_}")
            actual[p_] = d
    stored = _stored_names(helper)
    pre: list[ast.stmt] = []
    mapping: dict[str, ast.expr] = {}
    rename: dict[str, str] = {}
    tag = "__" + helper.name.strip("_")
    for p_, v in actual.items():
        if _simple(v) and p_ not in stored:
            mapping[p_] = v
        else:
            nm = p_ if p_ not in caller_names else p_ + tag
            rename[p_] = nm
            pre.append(ast.copy_location(ast.Assign(targets=[ast.Name(id=nm, ctx=ast.Store())], value=copy.deepcopy(v)), call))
    # The helper's other locals keep their names: code that was cut out of this very function used the function's own
    # names, and the rules' patterns bind one pattern variable to one program variable.  (A helper local that happens to
    # share a name with an unrelated caller local is merged with it - harmless for the structural rules.)
    body = [s for s in copy.deepcopy(helper.body) if not (isinstance(s, ast.Expr) and isinstance(s.value, ast.Constant) and isinstance(s.value.value, str))]
    sub = _Subst(mapping, rename)
    body = [sub.visit(s) for s in body]
    if bind is None:
        out = pre + body
        if not (body and isinstance(body[-1], (ast.Return, ast.Raise))):
            out.append(ast.Return(value=ast.Constant(None)))
    else:
        out = pre + _expand(body, bind)
    for s in out:
        ast.fix_missing_locations(s)
    return out or [ast.copy_location(ast.Pass(), call)]


def _call_of(e):
    """(call, awaited?) if e is `f(..)` or `await f(..)`."""
    if isinstance(e, ast.Await) and isinstance(e.value, ast.Call):
        return e.value, True
    if isinstance(e, ast.Call):
        return e, False
    return None, False


def inline_new_helpers(trees: dict[str, ast.Module], reference: set[str] | None) -> list[str]:
    """Mutates the module trees; returns the keys of the helpers that were folded away."""
    if reference is None:
        return []
    folded: list[str] = []
    for _round in range(3):
        progress = False
        for mod, tree in trees.items():
            # definitions: (key, owner body list, class name | None, node)
            defs = []
            for n in tree.body:
                if isinstance(n, (ast.FunctionDef, ast.AsyncFunctionDef)):
                    defs.append((f"{mod}.{n.name}", tree.body, None, n))
                elif isinstance(n, ast.ClassDef):
                    for m in n.body:
                        if isinstance(m, (ast.FunctionDef, ast.AsyncFunctionDef)):
                            defs.append((f"{mod}.{n.name}.{m.name}", n.body, n.name, m))
            for key, owner, cls, h in defs:
                if key in reference or h.name.startswith("__"):
                    continue
                if any(not (isinstance(d, ast.Name) and d.id in ("staticmethod", "classmethod")) for d in h.decorator_list):
                    continue
                if _contains(ast.Module(body=h.body, type_ignores=[]), (ast.Yield, ast.YieldFrom, ast.FunctionDef, ast.AsyncFunctionDef, ast.ClassDef, ast.Lambda, ast.Global, ast.Nonlocal)):
                    continue
                # every reference to the name, anywhere in the package, must be a direct call in this module / class
                sites = []  # (function node containing it, call)
                ok = True
                for m2, t2 in trees.items():
                    for x in ast.walk(t2):
                        if isinstance(x, ast.Attribute) and x.attr == h.name:
                            if m2 != mod or cls is None or not (isinstance(x.value, ast.Name) and x.value.id in ("self", "cls", cls)):
                                ok = False
                        elif isinstance(x, ast.Name) and x.id == h.name and isinstance(x.ctx, ast.Load):
                            if m2 != mod or cls is not None:
                                ok = False
                        elif isinstance(x, ast.Constant) and isinstance(x.value, str) and x.value == h.name:
                            ok = False  # getattr by name etc.
                if not ok:
                    continue
                try:
                    n_sites = _fold_calls(tree, h, cls)
                except _Abort:
                    continue
                if n_sites:
                    owner.remove(h)
                    folded.append(key)
                    progress = True
        if not progress:
            break
    return folded


def _is_call_to(call: ast.Call, h, cls) -> bool:
    f = call.func
    if cls is None:
        return isinstance(f, ast.Name) and f.id == h.name
    return isinstance(f, ast.Attribute) and f.attr == h.name and isinstance(f.value, ast.Name) and f.value.id in ("self", "cls", cls)


def _fold_calls(tree: ast.Module, h, cls) -> int:
    """Expand every call of h in `tree`.  All-or-nothing: works on a deep copy first."""
    # 1. check feasibility on a trial copy of the functions that call h
    count = 0
    hosts = []
    for fn in ast.walk(tree):
        if isinstance(fn, (ast.FunctionDef, ast.AsyncFunctionDef)) and fn is not h:
            if any(isinstance(x, ast.Call) and _is_call_to(x, h, cls) for x in ast.walk(fn)):
                if any(fn is not g and any(x is fn for x in ast.walk(g)) for g in hosts):
                    continue
                hosts.append(fn)
    for fn in hosts:
        if any(isinstance(x, ast.Call) and _is_call_to(x, h, cls) for x in ast.walk(ast.Module(body=h.body, type_ignores=[]))):
            raise _Abort("recursive")
        if isinstance(h, ast.AsyncFunctionDef) and not isinstance(fn, ast.AsyncFunctionDef):
            raise _Abort("coroutine called from a plain function")
    plans = []
    for fn in hosts:
        trial = copy.deepcopy(fn)
        n = _fold_in_function(trial, h, cls)
        if any(isinstance(x, ast.Call) and _is_call_to(x, h, cls) for x in ast.walk(trial)):
            raise _Abort("a call site could not be expanded")
        plans.append((fn, trial, n))
    for fn, trial, n in plans:
        fn.body = trial.body
        count += n
    return count


_TEMP = [0]


def _fold_in_function(fn, h, cls) -> int:
    caller_names = _stored_names(fn) | {a.arg for a in fn.args.posonlyargs + fn.args.args + fn.args.kwonlyargs}
    n_done = 0

    def do_list(stmts: list[ast.stmt]) -> list[ast.stmt]:
        nonlocal n_done
        out: list[ast.stmt] = []
        for st in stmts:
            # recurse into compound statements first
            for fld in ("body", "orelse", "finalbody"):
                sub = getattr(st, fld, None)
                if isinstance(sub, list) and sub and isinstance(sub[0], ast.stmt) and not isinstance(st, (ast.FunctionDef, ast.AsyncFunctionDef, ast.ClassDef)):
                    setattr(st, fld, do_list(sub))
            for hd in getattr(st, "handlers", []) or []:
                hd.body = do_list(hd.body)
            for case in getattr(st, "cases", []) or []:
                case.body = do_list(case.body)
            # calls in this statement's own expressions
            exprs = _own_exprs(st)
            calls = [x for e in exprs for x in ast.walk(e) if isinstance(x, ast.Call) and _is_call_to(x, h, cls)]
            if not calls:
                out.append(st)
                continue
            if isinstance(st, (ast.While,)) or len(calls) > 1:
                raise _Abort("call in a loop test / several calls in one statement")
            call = calls[0]
            awaited_parent = next((x for e in exprs for x in ast.walk(e) if isinstance(x, ast.Await) and x.value is call), None)
            site = awaited_parent or call
            if isinstance(h, ast.AsyncFunctionDef) and awaited_parent is None:
                raise _Abort("coroutine not awaited at the call site")
            # whole-statement forms
            if isinstance(st, ast.Expr) and st.value is site:
                out.extend(_instantiate(h, call, cls is not None, caller_names, lambda e: ([] if e is None or isinstance(e, (ast.Constant, ast.Name)) else [ast.Expr(value=e)])))
                n_done += 1
                continue
            if isinstance(st, ast.Return) and st.value is site:
                # `return helper(..)`: the helper's own returns are the caller's returns, wherever they stand
                out.extend(_instantiate(h, call, cls is not None, caller_names, None))
                n_done += 1
                continue
            if isinstance(st, ast.Assign) and st.value is site:
                tg = st.targets
                def _bind_assign(e, tg=tg):
                    if isinstance(e, ast.Name) and len(tg) == 1 and isinstance(tg[0], ast.Name) and tg[0].id == e.id:
                        return []  # `x = helper()` whose helper builds and returns its own `x`
                    return [ast.Assign(targets=copy.deepcopy(tg), value=e if e is not None else ast.Constant(None))]

                out.extend(_instantiate(h, call, cls is not None, caller_names, _bind_assign))
                n_done += 1
                continue
            if isinstance(st, ast.AnnAssign) and st.value is site and isinstance(st.target, ast.Name):
                tgt = st.target
                out.extend(_instantiate(h, call, cls is not None, caller_names, lambda e, tgt=tgt: [ast.Assign(targets=[copy.deepcopy(tgt)], value=e if e is not None else ast.Constant(None))]))
                n_done += 1
                continue
            # nested in an expression: not inside a short-circuit / conditional / comprehension / lambda
            for e in exprs:
                if not _eager_position(e, site):
                    raise _Abort("call in a conditionally evaluated position")
            _TEMP[0] += 1
            tmp = f"{h.name.strip('_')}_result{_TEMP[0]}"
            caller_names.add(tmp)
            out.extend(_instantiate(h, call, cls is not None, caller_names, lambda e, tmp=tmp: [ast.Assign(targets=[ast.Name(id=tmp, ctx=ast.Store())], value=e if e is not None else ast.Constant(None))]))
            _replace(st, site, ast.Name(id=tmp, ctx=ast.Load()))
            out.append(st)
            n_done += 1
        return out

    fn.body = do_list(fn.body)
    ast.fix_missing_locations(fn)
    return n_done


def _own_exprs(st) -> list[ast.AST]:
    """Expressions evaluated by the statement itself (not by its nested statement lists)."""
    out = []
    for name, val in ast.iter_fields(st):
        if name in ("body", "orelse", "finalbody", "handlers", "cases"):
            continue
        if isinstance(val, ast.AST):
            out.append(val)
        elif isinstance(val, list):
            out.extend(v for v in val if isinstance(v, ast.AST))
    return out


def _eager_position(root, target) -> bool:
    """target is evaluated unconditionally whenever root is (no BoolOp right operand, IfExp arm, comprehension, lambda)."""
    def walk(n, eager):
        if n is target:
            return eager
        if isinstance(n, ast.BoolOp):
            r = walk(n.values[0], eager)
            if r is not None:
                return r
            for v in n.values[1:]:
                r = walk(v, False)
                if r is not None:
                    return r
            return None
        if isinstance(n, ast.IfExp):
            r = walk(n.test, eager)
            if r is not None:
                return r
            for v in (n.body, n.orelse):
                r = walk(v, False)
                if r is not None:
                    return r
            return None
        if isinstance(n, (ast.ListComp, ast.SetComp, ast.DictComp)) and n.generators:
            # the first iterable of a (non-generator) comprehension is evaluated once, at once
            r = walk(n.generators[0].iter, eager)
            if r is not None:
                return r
        if isinstance(n, (ast.ListComp, ast.SetComp, ast.DictComp, ast.GeneratorExp, ast.Lambda)):
            for c in ast.iter_child_nodes(n):
                r = walk(c, False)
                if r is not None:
                    return r
            return None
        for c in ast.iter_child_nodes(n):
            r = walk(c, eager)
            if r is not None:
                return r
        return None

    r = walk(root, True)
    return True if r is None else r


def _replace(root, old, new) -> None:
    for n in ast.walk(root):
        for name, val in ast.iter_fields(n):
            if val is old:
                setattr(n, name, new)
            elif isinstance(val, list):
                for i, v in enumerate(val):
                    if v is old:
                        val[i] = new


# ----------------------------------------------------------------------------------------------------------------------
# new module-level constants ("name a magic constant"): a module-level name that did not exist on the reference tree, is
# bound exactly once to a str / bytes / number literal (or a `%`/`+` expression of such), is never rebound (no second
# assignment, no `global`, no `<module>.NAME = ...` anywhere) is folded into its uses inside the functions of its module
# and of the modules that import it by name.  The rules then see the value, as they did before the constant was named.
_REFC = os.path.join(os.path.dirname(os.path.abspath(__file__)), "reference_constants.json")


def reference_constants() -> set[str] | None:
    if not os.path.exists(_REFC):
        return None
    with open(_REFC) as fh:
        return set(json.load(fh))


def _const_value(node, known):
    if isinstance(node, ast.Constant) and isinstance(node.value, (str, bytes, int, float)) and not isinstance(node.value, bool):
        return node
    if isinstance(node, ast.Name) and node.id in known:
        return known[node.id]
    if isinstance(node, ast.BinOp) and isinstance(node.op, (ast.Add, ast.Sub, ast.Mult)):
        l, r = _const_value(node.left, known), _const_value(node.right, known)
        if l is not None and r is not None:
            try:
                v = {ast.Add: lambda a, b: a + b, ast.Sub: lambda a, b: a - b, ast.Mult: lambda a, b: a * b}[type(node.op)](l.value, r.value)
            except Exception:  # noqa: BLE001
                return None
            if isinstance(v, (str, bytes, int, float)) and (not isinstance(v, (str, bytes)) or len(v) < 4096):
                return ast.Constant(value=v)
    return None


def inline_new_constants(trees: dict, reference: set[str] | None) -> list[str]:
    if reference is None:
        return []
    # names rebound from elsewhere / declared global are not constants
    tainted = set()
    for mod, tree in trees.items():
        for n in ast.walk(tree):
            if isinstance(n, ast.Global):
                tainted.update(n.names)
            if isinstance(n, (ast.Assign, ast.AugAssign, ast.AnnAssign)):
                for t in (n.targets if isinstance(n, ast.Assign) else [n.target]):
                    if isinstance(t, ast.Attribute) and isinstance(t.value, ast.Name):
                        tainted.add(t.attr)
    folded = []
    per_mod: dict[str, dict] = {}
    for mod, tree in trees.items():
        counts: dict[str, int] = {}
        for s_ in tree.body:
            if isinstance(s_, ast.Assign):
                for t in s_.targets:
                    for x in ast.walk(t):
                        if isinstance(x, ast.Name):
                            counts[x.id] = counts.get(x.id, 0) + 1
            elif isinstance(s_, (ast.AnnAssign, ast.AugAssign)) and isinstance(s_.target, ast.Name):
                counts[s_.target.id] = counts.get(s_.target.id, 0) + 1
        known: dict = {}
        for s_ in tree.body:
            if isinstance(s_, ast.Assign) and len(s_.targets) == 1 and isinstance(s_.targets[0], ast.Name):
                nm = s_.targets[0].id
                if counts.get(nm) != 1 or nm in tainted or f"{mod}.{nm}" in reference:
                    continue
                v = _const_value(s_.value, known)
                if v is not None:
                    known[nm] = v
        if known:
            per_mod[mod] = known
    if not per_mod:
        return []
    for mod, tree in trees.items():
        avail = dict(per_mod.get(mod, {}))
        for s_ in tree.body:
            if isinstance(s_, ast.ImportFrom) and s_.module and s_.level >= 1:
                src = s_.module.split(".")[-1]
                for a in s_.names:
                    if src in per_mod and a.name in per_mod[src] and a.asname in (None, a.name):
                        avail[a.name] = per_mod[src][a.name]
        if not avail:
            continue
        for fn in [n for n in ast.walk(tree) if isinstance(n, (ast.FunctionDef, ast.AsyncFunctionDef))]:
            local = {a.arg for a in fn.args.args + fn.args.kwonlyargs + fn.args.posonlyargs}
            if fn.args.vararg:
                local.add(fn.args.vararg.arg)
            if fn.args.kwarg:
                local.add(fn.args.kwarg.arg)
            for x in ast.walk(fn):
                if isinstance(x, ast.Name) and isinstance(x.ctx, (ast.Store, ast.Del)):
                    local.add(x.id)

            class _T(ast.NodeTransformer):
                def visit_Name(self, node):
                    if isinstance(node.ctx, ast.Load) and node.id in avail and node.id not in local:
                        folded.append(f"{mod}.{node.id}")
                        return ast.copy_location(ast.Constant(value=avail[node.id].value), node)
                    return node

            _T().visit(fn)
    return sorted(set(folded))
