"""Parse /repo/asimap/*.py on every run and index modules, classes, functions.

Nothing here imports or executes asimap code.
"""
from __future__ import annotations

import ast
import hashlib
import os
from dataclasses import dataclass, field

REPO = os.environ.get("ASV_REPO", "/repo")
PKG = "asimap"


class AnalysisError(Exception):
    """The analysis itself cannot proceed (vanished anchor, unparsable file...)."""


@dataclass
class Module:
    name: str  # e.g. "mbox"
    path: str
    src: str
    sha256: str
    tree: ast.Module
    lines: list[str] = field(default_factory=list)


@dataclass
class FuncInfo:
    module: str
    cls: str | None
    name: str
    qual: str  # "Mailbox.expunge", "_helper_rename_inbox", "f.<locals>.g" -> "f.g"
    node: ast.FunctionDef | ast.AsyncFunctionDef
    parent: "FuncInfo | None" = None

    @property
    def key(self) -> str:
        return f"{self.module}.{self.qual}"

    @property
    def is_async(self) -> bool:
        return isinstance(self.node, ast.AsyncFunctionDef)

    def decorators(self) -> list[str]:
        out = []
        for d in self.node.decorator_list:
            try:
                out.append(ast.unparse(d))
            except Exception:  # pragma: no cover
                pass
        return out


@dataclass
class ClassInfo:
    module: str
    name: str
    node: ast.ClassDef
    bases: list[str]
    methods: dict[str, FuncInfo] = field(default_factory=dict)


class Program:
    def __init__(self, repo: str = REPO):
        self.repo = repo
        self.pkgdir = os.path.join(repo, PKG)
        self.modules: dict[str, Module] = {}
        self.functions: dict[str, FuncInfo] = {}  # key "mod.Qual.name"
        self.classes: dict[str, ClassInfo] = {}  # key class name (unique in repo) -> info
        self.classes_by_mod: dict[str, ClassInfo] = {}
        self._load()

    # ------------------------------------------------------------------
    def _load(self) -> None:
        if not os.path.isdir(self.pkgdir):
            raise AnalysisError(f"package directory missing: {self.pkgdir}")
        files = sorted(f for f in os.listdir(self.pkgdir) if f.endswith(".py"))
        if not files:
            raise AnalysisError("no python files found in " + self.pkgdir)
        parsed = []
        for fn in files:
            path = os.path.join(self.pkgdir, fn)
            with open(path, "rb") as fh:
                raw = fh.read()
            try:
                src = raw.decode("utf-8")
                tree = ast.parse(src, filename=path)
            except (SyntaxError, UnicodeDecodeError) as e:
                raise AnalysisError(f"cannot parse {path}: {e}") from e
            parsed.append((fn[:-3], path, src, raw, tree))
        # helper functions that did not exist on the reference tree are folded into their callers (see asv/inline.py)
        from .inline import inline_new_helpers, reference_functions

        self.folded_helpers: list[str] = []
        try:
            self.folded_helpers = inline_new_helpers({n: t for n, _, _, _, t in parsed}, reference_functions())
        except RecursionError:
            self.folded_helpers = []
        from .inline import inline_new_constants, reference_constants

        self.folded_constants: list[str] = inline_new_constants({n: t for n, _, _, _, t in parsed}, reference_constants())
        from . import callnorm

        callnorm.build({n: t for n, _, _, _, t in parsed})
        for _n, _p, _s, _r, t_ in parsed:
            callnorm.normalise_tree(t_)
        for name, path, src, raw, tree in parsed:
            from .canon import canon_module

            tree = canon_module(tree)
            m = Module(name, path, src, hashlib.sha256(raw).hexdigest(), tree, src.splitlines())
            self.modules[name] = m
            self._index(m)

    def _index(self, m: Module) -> None:
        def visit(body, cls: ClassInfo | None, parent: FuncInfo | None, prefix: str):
            for node in body:
                if isinstance(node, ast.ClassDef):
                    ci = ClassInfo(m.name, node.name, node, [ast.unparse(b) for b in node.bases])
                    # first definition wins for the by-name table; keep module table too
                    self.classes.setdefault(node.name, ci)
                    self.classes_by_mod[f"{m.name}.{node.name}"] = ci
                    visit(node.body, ci, None, prefix + node.name + ".")
                elif isinstance(node, (ast.FunctionDef, ast.AsyncFunctionDef)):
                    qual = prefix + node.name
                    fi = FuncInfo(m.name, cls.name if cls else None, node.name, qual, node, parent)
                    key = f"{m.name}.{qual}"
                    # overloads: the last definition is the implementation
                    self.functions[key] = fi
                    if cls is not None and parent is None:
                        cls.methods[node.name] = fi
                    visit(node.body, cls, fi, qual + ".")
                elif isinstance(node, (ast.If, ast.Try, ast.With)):
                    # module-level conditional definitions (TYPE_CHECKING etc.)
                    for sub in ast.iter_child_nodes(node):
                        if isinstance(sub, list):
                            continue
                    for fld in ("body", "orelse", "finalbody"):
                        visit(getattr(node, fld, []) or [], cls, parent, prefix)
                    for h in getattr(node, "handlers", []) or []:
                        visit(h.body, cls, parent, prefix)

        visit(m.tree.body, None, None, "")

    # ------------------------------------------------------------------
    def func(self, key: str) -> FuncInfo:
        """Anchor lookup: vanished anchor is an analysis error, never a pass."""
        try:
            return self.functions[key]
        except KeyError:
            raise AnalysisError(f"anchor function vanished: {key}") from None

    def maybe_func(self, key: str) -> FuncInfo | None:
        return self.functions.get(key)

    def cls(self, name: str) -> ClassInfo:
        try:
            return self.classes[name]
        except KeyError:
            raise AnalysisError(f"anchor class vanished: {name}") from None

    def module(self, name: str) -> Module:
        try:
            return self.modules[name]
        except KeyError:
            raise AnalysisError(f"anchor module vanished: {name}") from None

    def funcs_in(self, module: str, cls: str | None = "*") -> list[FuncInfo]:
        out = []
        for fi in self.functions.values():
            if fi.module != module:
                continue
            if cls != "*" and fi.cls != cls:
                continue
            out.append(fi)
        return out

    def mro(self, cname: str) -> list[ClassInfo]:
        """Linearised bases restricted to classes defined in the repo."""
        out, seen, todo = [], set(), [cname]
        while todo:
            c = todo.pop(0)
            if c in seen or c not in self.classes:
                continue
            seen.add(c)
            ci = self.classes[c]
            out.append(ci)
            for b in ci.bases:
                b = b.split("[")[0].split(".")[-1]
                todo.append(b)
        return out

    def resolve_method(self, cname: str, meth: str) -> FuncInfo | None:
        for ci in self.mro(cname):
            if meth in ci.methods:
                return ci.methods[meth]
        return None

    def subclasses(self, cname: str) -> set[str]:
        out = set()
        for c in self.classes:
            if any(ci.name == cname for ci in self.mro(c)):
                out.add(c)
        return out

    def module_constant(self, module: str, name: str):
        """Evaluate a module-level literal constant (fail closed)."""
        m = self.module(module)
        for node in m.tree.body:
            tgt = None
            if isinstance(node, ast.Assign) and len(node.targets) == 1 and isinstance(node.targets[0], ast.Name):
                tgt, val = node.targets[0].id, node.value
            elif isinstance(node, ast.AnnAssign) and isinstance(node.target, ast.Name) and node.value is not None:
                tgt, val = node.target.id, node.value
            if tgt == name:
                return val
        raise AnalysisError(f"anchor constant vanished: {module}.{name}")

    def stats(self) -> dict:
        return {
            "modules": {n: m.sha256 for n, m in self.modules.items()},
            "n_modules": len(self.modules),
            "n_classes": len(self.classes_by_mod),
            "n_functions": len(self.functions),
            "n_lines": sum(len(m.lines) for m in self.modules.values()),
        }
