"""C06 - every command is answered exactly once, promptly.

Structural clauses decided (necessary conditions, see DESIGN.md section 3/C06):
 R6.1 exactly one tagged reply per path through BaseClientHandler.command
 R6.2 the admission hand-shake completes on every exit of the management loop
 R6.3 no admission wait on a mailbox without a management task
 R6.4 the proxy read loop is left only on BYE/transport/framing, never on a client error
 R6.6 bounded expansion of client-supplied integers in sequence_set_to_list
 R6.7 the mailbox-activation rendez-vous is released on every exit
"""
from __future__ import annotations

import ast

from .. import flow
from ..astutil import (
    polarity_atoms,
    body_walk,
    call_name,
    call_recv,
    calls_in,
    dotted,
    fstring_parts,
    merge_consts,
    kwarg,
    names_in,
    norm,
    strip_await,
    walk_no_nested,
)
from ..loader import AnalysisError
from .common import (
    admission_items,
    dispatch_targets,
    env_of,
    first_hole_is_tag,
    is_push_call,
    local_defs,
    parmap,
    typer,
    where,
)

PROP = "C06"
EXPLANATION = (
    "Static path analysis of the reply and admission machinery: (R6.1) over the statement CFG of "
    "BaseClientHandler.command, with exception edges, every path to a normal return pushes exactly one line whose "
    "first hole is the command's tag (IDLE arm: none here, exactly one in do_done) and nothing is pushed after it; "
    "(R6.2) in Mailbox.management_task every path - including any-call-may-raise edges into every except arm and "
    "cancellation - from the dequeue of a command back to the loop head or out of the function passes "
    "imap_cmd.ready.set(); ready_and_okay marks completion in a finally; shutdown releases every drained command; "
    "(R6.3) every object Mailbox.new can return has a management task, or ready_and_okay refuses to wait without one; "
    "(R6.4) the read loops are not left from the handler of a client (BadCommand) error; (R6.6) range expansion of "
    "client integers is bounded by seq_max; (R6.7) the activation event in get_mailbox is set and removed on every "
    "exit including exceptional ones. Decides these structural clauses, not the behaviour (latency bound, "
    "absence of every lost wake-up under all schedules)."
    ' R6.6 accepts, for the expansions that are bounded only for non-UID sets, that every caller which may pass uid_cmd true hands over a set that went through clip_sequence_set with the same maximum, and checks that this helper rewrites each range as (low, min(high, max)) or drops it.'
)
RULE_TEXT = (
    "obligations are enumerated from the code: one per CFG exit class of command(), per exit of the management "
    "loop after the dequeue, per return path of Mailbox.new, per loop-leaving edge of the read loops, per range() "
    "site, per exit of the activation region; non-trivial = needed a CFG path query"
)
ASSUMPTIONS = [
    "asyncio primitives behave as documented (Event.set wakes waiters; Queue.get returns queued items in order)",
    "logging calls do not raise",
    "not decided: the numeric latency bound; starvation of the 10 ms admission polling loop under all schedules",
]


# ----------------------------------------------------------------------------
def _tagged_push_nodes(ctx, fi, g):
    """CFG nodes of `fi` that push a line starting with <cmd>.tag; and all push nodes."""
    tagged, pushes = set(), set()
    for n in g.nodes:
        if n.ast is None or n.kind in ("with_exit", "finally", "join", "dispatch", "handler"):
            continue
        a = n.ast if n.kind != "with_enter" else None
        if a is None:
            continue
        for c in calls_in(a):
            if not is_push_call(c):
                continue
            pushes.add(n.id)
            for arg in c.args:
                v = arg.value if isinstance(arg, ast.Starred) else arg
                if first_hole_is_tag(v):
                    tagged.add(n.id)
                elif isinstance(v, ast.Name) or (
                    isinstance(v, ast.Call) and isinstance(v.func, ast.Attribute) and isinstance(v.func.value, ast.Name)
                ):
                    nm = v.id if isinstance(v, ast.Name) else v.func.value.id
                    # nearest preceding assignment to the name in an enclosing statement list
                    d = _nearest_def(fi, c, nm)
                    if d is not None and first_hole_is_tag(d):
                        tagged.add(n.id)
    return tagged, pushes


def _nearest_def(fi, node, name):
    """Value of the closest assignment to `name` preceding `node` in an enclosing block."""
    par = parmap(fi)
    cur = node
    while cur in par:
        p = par[cur]
        for fld in ("body", "orelse", "finalbody"):
            lst = getattr(p, fld, None)
            if isinstance(lst, list) and cur in lst:
                i = lst.index(cur)
                for s in reversed(lst[:i]):
                    if isinstance(s, ast.Assign) and any(isinstance(t, ast.Name) and t.id == name for t in s.targets):
                        return s.value
                    if isinstance(s, ast.AnnAssign) and isinstance(s.target, ast.Name) and s.target.id == name:
                        return s.value
        if isinstance(p, ast.ExceptHandler) and cur in p.body:
            i = p.body.index(cur)
            for s in reversed(p.body[:i]):
                if isinstance(s, ast.Assign) and any(isinstance(t, ast.Name) and t.id == name for t in s.targets):
                    return s.value
        cur = p
    return None


def r6_1(ctx):
    p = ctx.p
    fi = p.func("client.BaseClientHandler.command")
    g = ctx.cfg(fi)
    tagged, pushes = _tagged_push_nodes(ctx, fi, g)
    ctx.floor("R6.1", len(tagged), 5, "tagged reply pushes in command()")

    # (a) after a tagged push nothing else is pushed (so: at most one tagged line, untagged data precedes it)
    for t in sorted(tagged):
        seen = flow.reach(g, [t], flow.ALL)
        ctx.paths_explored += len(seen)
        later = [n for n in pushes if n in seen and n != t]
        # a node can reach itself only through a loop
        if t in {e.dst for m in seen for e in g.out[m] if m != t or e.dst == t} and any(
            e.dst == t for m in seen for e in g.out[m]
        ):
            pass
        if later:
            b = later[0]
            ctx.bad(
                "R6.1", fi.module, fi.qual, norm(g.nodes[b].ast),
                "a push is reachable after the tagged reply was sent (second reply / data after the tagged line)",
                g.nodes[b].line, flow.fmt_path(g, flow.path_to(g, seen, b)),
            )
        else:
            ctx.ok("R6.1", where(fi), f"nothing pushed after tagged reply @{g.nodes[t].line}: {norm(g.nodes[t].ast, 70)}")

    # (b) every path to a normal return passes a tagged push, except the `result is False` arm
    def classify(e):
        if isinstance(e, ast.Compare) and len(e.ops) == 1 and isinstance(e.ops[0], ast.Is):
            if isinstance(e.comparators[0], ast.Constant) and e.comparators[0].value is False:
                return "idle_arm"
            if isinstance(e.comparators[0], ast.Constant) and e.comparators[0].value is None:
                return "result_none"
        return None

    hit = flow.feasible_paths_exist(
        g, g.entry, {g.exit}, classify, labels=flow.ALL, avoid=lambda n: n in tagged,
        accept=lambda n, facts: facts.get("idle_arm") is not True,
    )
    ctx.paths_explored += 1
    if hit:
        path, facts = hit
        last = [n for n in path if g.nodes[n].kind in ("return", "stmt", "handler")][-1]
        ctx.bad(
            "R6.1", fi.module, fi.qual, norm(g.nodes[last].ast),
            "command() can return normally without pushing a tagged reply",
            g.nodes[last].line, flow.fmt_path(g, path),
        )
    else:
        ctx.ok("R6.1", where(fi), "every normal return of command() is preceded by exactly one tagged push (IDLE arm excepted)")

    # (c) exceptional exits: each re-raising handler pushed a tagged line or is a transport/cancel arm
    allowed_silent = {"ConnectionResetError", "CancelledError", "KeyboardInterrupt"}
    tr = [n for n in ast.walk(fi.node) if isinstance(n, ast.Try) and any(
        isinstance(c, ast.Call) and isinstance(c.func, ast.Call) and call_name(c.func) == "getattr"
        for s in n.body for c in ast.walk(s))]
    ctx.require(tr, "command(): dispatch try-block with getattr(self, f'do_...') not found")
    for h in tr[0].handlers:
        names = {norm(t).split(".")[-1] for t in (h.type.elts if isinstance(h.type, ast.Tuple) else [h.type])} if h.type else {"<bare>"}
        hnodes = [n for n in g.nodes_for(h)]
        if not hnodes:
            continue
        seen = flow.reach(g, hnodes, flow.ALL, avoid=lambda n: n in tagged)
        ctx.paths_explored += len(seen)
        silent_exit = g.exit in seen or g.raise_exit in seen
        # is there a path from the handler that never pushes a tagged line?
        normal_seen = flow.reach(g, hnodes, flow.NORMAL, avoid=lambda n: n in tagged)
        silent_normal = g.exit in normal_seen or any(
            g.nodes[m].kind == "raise" for m in normal_seen
        )
        if silent_normal and not (names <= allowed_silent):
            ctx.bad(
                "R6.1", fi.module, fi.qual, "except " + "|".join(sorted(names)),
                "this error arm can finish without pushing a tagged reply",
                h.lineno,
            )
        else:
            ctx.ok("R6.1", where(fi), "error arm 'except %s' answers with a tagged line (or is a transport/cancel arm)" % "|".join(sorted(names)))

    # (d) handlers: only do_done pushes a tag-prefixed line; `return False` only in do_idle
    n_handlers = 0
    for cname in ("BaseClientHandler", "PreAuthenticated", "Authenticated"):
        ci = p.cls(cname)
        for m, mfi in ci.methods.items():
            if not m.startswith("do_"):
                continue
            n_handlers += 1
            ctx.analysed(mfi)
            tg = [c for c in calls_in(mfi.node) if is_push_call(c) and any(first_hole_is_tag(a) for a in c.args)]
            if m == "do_done":
                gd = ctx.cfg(mfi)
                tn = {n.id for n in gd.nodes if n.ast is not None and any(c in tg for c in calls_in(n.ast))} if tg else set()
                w = flow.escapes_without(gd, gd.entry, lambda n: n in tn, [gd.exit])
                if w or not tg:
                    ctx.bad("R6.1", mfi.module, mfi.qual, "do_done", "do_done can return without the tagged 'OK IDLE terminated'", mfi.node.lineno)
                else:
                    ctx.ok("R6.1", where(mfi), "do_done pushes the tagged completion of IDLE on every normal path")
            elif tg:
                ctx.bad("R6.1", mfi.module, mfi.qual, norm(tg[0]), "a handler other than do_done pushes a tagged line (command() adds its own)", tg[0].lineno)
            for r in body_walk(mfi.node):
                if isinstance(r, ast.Return) and isinstance(r.value, ast.Constant) and r.value.value is False and m != "do_idle":
                    ctx.bad("R6.1", mfi.module, mfi.qual, norm(r), "returns False (suppresses the tagged reply) outside do_idle", r.lineno)
    ctx.ok("R6.1", "client:*", f"{n_handlers} do_* handlers: no tagged push / no `return False` outside do_done/do_idle", nontrivial=False)


# ----------------------------------------------------------------------------
def _is_ready_set(node, var=None):
    """expression/statement contains <var>.ready.set()"""
    for c in calls_in(node):
        if call_name(c) == "set" and isinstance(c.func, ast.Attribute):
            r = c.func.value
            if isinstance(r, ast.Attribute) and r.attr == "ready":
                if var is None or (isinstance(r.value, ast.Name) and r.value.id == var):
                    return True
    return False


def r6_2(ctx):
    p = ctx.p
    fi = p.func("mbox.Mailbox.management_task")
    g = ctx.cfg(fi)
    # the dequeue: <x> = await self.task_queue.get()
    deq = []
    for n in g.nodes:
        if n.kind == "stmt" and isinstance(n.ast, ast.Assign):
            v = strip_await(n.ast.value)
            if isinstance(v, ast.Call) and call_name(v) == "get" and dotted(call_recv(v) or ast.Name("?")) == "self.task_queue":
                if isinstance(n.ast.targets[0], ast.Name):
                    deq.append((n.id, n.ast.targets[0].id))
    ctx.floor("R6.2", len(deq), 1, "task_queue.get() dequeue in management_task")
    for nid, var in deq:
        ready = {n.id for n in g.nodes if n.ast is not None and n.kind in ("stmt", "return") and _is_ready_set(n.ast, var)}
        ctx.require(ready, f"management_task: no {var}.ready.set() found")
        # loop head(s): test nodes of enclosing while loops; exits
        heads = [n.id for n in g.nodes if n.kind == "test" and isinstance(n.stmt, ast.While)]
        targets = heads + [g.exit, g.raise_exit]
        # start from normal successors of the dequeue (the command is bound only when get() returned)
        starts = [e.dst for e in g.out[nid] if e.label in flow.NORMAL]
        seen = flow.reach(g, starts, flow.ALL, avoid=lambda n: n in ready)
        ctx.paths_explored += len(seen)
        # 'starts' themselves may be a ready node (not today)
        seen = {k: v for k, v in seen.items() if k not in ready}
        bad_targets = [t for t in targets if t in seen]
        # classify by the last handler / exit reached for a readable report
        reported = set()
        for t in bad_targets:
            path = flow.path_to(g, seen, t)
            arm = None
            for m in path:
                if g.nodes[m].kind == "handler":
                    arm = g.nodes[m]
            label = arm.text if arm is not None else ("falls through" if t in heads else g.nodes[t].text)
            tgt = "loop head" if t in heads else g.nodes[t].text
            key = (label, tgt)
            if key in reported:
                continue
            reported.add(key)
            ctx.bad(
                "R6.2", fi.module, fi.qual, f"{label} -> {tgt}",
                f"after a command was dequeued, exit via '{label}' reaches {tgt} without {var}.ready.set(): "
                "the waiting command is only ever finished by the 120 s watchdog",
                arm.line if arm is not None else g.nodes[nid].line,
                flow.fmt_path(g, path),
            )
        if not bad_targets:
            ctx.ok("R6.2", where(fi), f"every path (incl. exception and cancellation edges) from the dequeue @{g.nodes[nid].line} passes {var}.ready.set()")
        # count the exits examined
        for t in targets:
            if t not in bad_targets:
                ctx.ok("R6.2", where(fi), f"exit class '{g.nodes[t].text}' only reachable after ready.set()", nontrivial=True)

    # companion: ready_and_okay marks completion in a finally post-dominating the enqueue
    rk = p.func("parse.IMAPClientCommand.ready_and_okay")
    ctx.analysed(rk)
    ok = False
    for t in ast.walk(rk.node):
        if isinstance(t, ast.Try) and t.finalbody:
            has_put = any(isinstance(c, ast.Call) and call_name(c) in ("put_nowait", "put") for s in t.body for c in ast.walk(s))
            sets_completed = any(
                isinstance(s, ast.Assign) and norm(s.targets[0]) == "self.completed" and isinstance(s.value, ast.Constant) and s.value.value is True
                for s in t.finalbody
            )
            done = any(isinstance(c, ast.Call) and call_name(c) == "task_done" for s in t.finalbody for c in ast.walk(s))
            if has_put and sets_completed and done:
                ok = True
    if ok:
        ctx.ok("R6.2", where(rk), "enqueue is inside try; finally sets completed=True and calls task_done()")
    else:
        ctx.bad("R6.2", rk.module, rk.qual, "finally: self.completed = True; task_done()", "ready_and_okay does not mark the command completed in a finally covering the enqueue", rk.node.lineno)
    # the wait must be `await self.ready.wait()` before yield
    waits = [c for c in calls_in(rk.node) if call_name(c) == "wait" and norm(call_recv(c)) == "self.ready"]
    if waits:
        ctx.ok("R6.2", where(rk), "admission waits on self.ready before yielding")
    else:
        ctx.bad("R6.2", rk.module, rk.qual, "await self.ready.wait()", "ready_and_okay no longer waits for the management task", rk.node.lineno)

    # shutdown drains the queue and releases each command
    sd = p.func("mbox.Mailbox.shutdown")
    ctx.analysed(sd)
    from .common import pm_of as _pm_of
    drained = _pm_of(p, sd).has("while True:\n    imap_cmd = self.task_queue.get_nowait()\n    imap_cmd.ready.set()")
    for w in ast.walk(sd.node):
        if isinstance(w, ast.While):
            gets = [s for s in w.body if isinstance(s, ast.Assign) and isinstance(strip_await(s.value), ast.Call) and call_name(strip_await(s.value)) in ("get_nowait", "get")]
            if gets and isinstance(gets[0].targets[0], ast.Name):
                v = gets[0].targets[0].id
                if any(_is_ready_set(s, v) for s in w.body):
                    drained = True
    sets_deleted = any(isinstance(s, ast.Assign) and norm(s.targets[0]) == "self.deleted" and isinstance(s.value, ast.Constant) and s.value.value is True for s in body_walk(sd.node))
    if drained and sets_deleted:
        ctx.ok("R6.2", where(sd), "shutdown sets deleted=True and sets ready for every drained command")
    else:
        ctx.bad("R6.2", sd.module, sd.qual, "drain loop: imap_cmd.ready.set()", "Mailbox.shutdown no longer releases queued commands (deleted flag / ready.set in drain loop)", sd.node.lineno)


# ----------------------------------------------------------------------------
def r6_3(ctx):
    p = ctx.p
    new = p.func("mbox.Mailbox.new")
    g = ctx.cfg(new)
    rk = p.func("parse.IMAPClientCommand.ready_and_okay")

    def creates_task(n):
        a = n.ast
        if n.kind != "stmt" or not isinstance(a, ast.Assign):
            return False
        return any(isinstance(t, ast.Attribute) and t.attr == "mgmt_task" for t in a.targets) and any(
            call_name(c) == "create_task" for c in calls_in(a)
        )

    tasknodes = {n.id for n in g.nodes if creates_task(n)}
    ctx.require(tasknodes, "Mailbox.new: creation of mgmt_task not found")
    w = flow.escapes_without(g, g.entry, lambda n: n in tasknodes, [g.exit])
    ctx.paths_explored += 1
    # alternative discharge: ready_and_okay tests for a live management task before waiting
    guard = False
    for n in body_walk(rk.node):
        if isinstance(n, ast.If) and "mgmt_task" in norm(n.test, 400) and any(isinstance(s, ast.Raise) for s in ast.walk(n)):
            guard = True
    if w is None:
        ctx.ok("R6.3", where(new), "every return path of Mailbox.new creates the management task")
    elif guard:
        ctx.ok("R6.3", where(rk), "ready_and_okay refuses to wait on a mailbox without a live management task")
    else:
        # is every admission site guarded individually?  (\Noselect test that raises, dominating the admission)
        ctx.bad(
            "R6.3", new.module, new.qual, "return mbox (no mgmt_task)",
            "Mailbox.new can return a mailbox without a management task (\\Noselect arm) and ready_and_okay waits on it "
            "unconditionally: SELECT/STATUS/DELETE/RENAME/APPEND/COPY naming a \\Noselect placeholder after a restart "
            "are only finished by the watchdog",
            new.node.lineno, flow.fmt_path(g, w),
        )
    # count admission sites as instances
    sites = 0
    for fi in p.functions.values():
        for _w, c in admission_items(fi):
            sites += 1
    ctx.floor("R6.3", sites, 14, "ready_and_okay admission sites")
    ctx.call_sites += sites


# ----------------------------------------------------------------------------
def _loop_exits(ctx, fi, loop_pred, client_err_names, rule):
    """Edges leaving the read loop from within a handler of a client error."""
    g = ctx.cfg(fi)
    loops = [n for n in ast.walk(fi.node) if isinstance(n, ast.While) and loop_pred(n)]
    ctx.require(loops, f"{fi.key}: read loop not found")
    loop = loops[0]
    n_exits = 0
    for h in [x for x in ast.walk(loop) if isinstance(x, ast.ExceptHandler)]:
        names = {norm(t).split(".")[-1] for t in (h.type.elts if isinstance(h.type, ast.Tuple) else [h.type])} if h.type else set()
        if not (names & client_err_names):
            continue
        n_exits += 1
        leaves = []
        for s in h.body:
            for n in walk_no_nested(s):
                if isinstance(n, (ast.Return, ast.Break)):
                    leaves.append(n)
                if isinstance(n, ast.Assign) and any(norm(t) in ("self.client_connected", "client_connected") for t in n.targets):
                    if isinstance(n.value, ast.Constant) and n.value.value is False:
                        leaves.append(n)
        # `return True` in a function whose result means "keep the connection" is not a leave
        leaves = [l for l in leaves if not (isinstance(l, ast.Return) and isinstance(l.value, ast.Constant) and l.value.value is True)]
        # a ConnectionError nested arm may legitimately return False
        par = parmap(fi)
        real = []
        for l in leaves:
            inner = None
            q = par.get(l)
            while q is not None and q is not h:
                if isinstance(q, ast.ExceptHandler):
                    inner = q
                    break
                q = par.get(q)
            if inner is not None and inner.type is not None and "Connection" in norm(inner.type):
                continue
            real.append(l)
        if real:
            ctx.bad(
                rule, fi.module, fi.qual, f"except {'|'.join(sorted(names))}: {norm(real[0])}",
                "the session is terminated from the handler of a client (BadCommand) error: after the BAD reply the "
                "connection is dropped without BYE",
                real[0].lineno,
            )
        else:
            ctx.ok(rule, where(fi), f"'except {'|'.join(sorted(names))}' answers and stays in the read loop")
    return n_exits


def r6_4(ctx):
    p = ctx.p
    n = 0
    fi = p.func("user_server.IMAPClientProxy.run")
    n += _loop_exits(ctx, fi, lambda w: "client_connected" in norm(w.test), {"BadCommand"}, "R6.4")
    fi2 = p.func("server.IMAPSubprocessInterface.unauthenticated")
    ctx.analysed(fi2)
    # front end: BadCommand arm must `return True` on its normal path
    for h in [x for x in ast.walk(fi2.node) if isinstance(x, ast.ExceptHandler)]:
        if h.type is not None and "BadCommand" in norm(h.type):
            n += 1
            g = ctx.cfg(fi2)
            rets = [s for s in ast.walk(h) if isinstance(s, ast.Return)]
            bad = [r for r in rets if not (isinstance(r.value, ast.Constant) and r.value.value is True) and not _inside_conn_handler(r, h, fi2)]
            if bad:
                ctx.bad("R6.4", fi2.module, fi2.qual, "except BadCommand: " + norm(bad[0]), "pre-auth BadCommand arm closes the connection instead of keeping the session", bad[0].lineno)
            else:
                ctx.ok("R6.4", where(fi2), "pre-auth BadCommand arm keeps the connection (return True)")
    ctx.floor("R6.4", n, 2, "BadCommand handlers in read loops")
    # POP3 proxy: BadPOP3Command arm continues
    fi3 = p.func("pop3_client.POP3ClientProxy.run")
    _loop_exits(ctx, fi3, lambda w: "client_connected" in norm(w.test), {"BadPOP3Command"}, "R6.4")


def _inside_conn_handler(node, outer, fi):
    par = parmap(fi)
    q = par.get(node)
    while q is not None and q is not outer:
        if isinstance(q, ast.ExceptHandler) and q.type is not None and "Connection" in norm(q.type):
            return True
        q = par.get(q)
    return False


# ----------------------------------------------------------------------------
def r6_6(ctx):
    """range(a, b) whose bounds derive from seq_set elements must be bounded by seq_max."""
    p = ctx.p
    fi = p.func("utils.sequence_set_to_list")
    g = ctx.cfg(fi)
    par = parmap(fi)
    ranges = [c for c in calls_in(fi.node) if isinstance(c.func, ast.Name) and c.func.id == "range"]
    ctx.floor("R6.6", len(ranges), 1, "range() expansions in sequence_set_to_list")
    args = {a.arg for a in fi.node.args.args}
    ctx.require({"seq_max", "uid_cmd"} <= args, "sequence_set_to_list lost its seq_max/uid_cmd parameters", anchor=True)
    pending = []
    for k_site, rc in enumerate(sorted(ranges, key=lambda c: (c.lineno, c.col_offset)), 1):
        # the size of range(a, b) is bounded when its *stop* argument is (the start is >= 0 by the < 1 guards / parser)
        stop = rc.args[1] if len(rc.args) >= 2 else rc.args[0]
        vars_ = sorted(names_in(stop) - {"range"})
        # accepted idioms for a bound on variable v, on every path reaching the range:
        #  (1) v = min(v, seq_max [+k])  (clamp)        (2) a dominating guard  `v > seq_max ... raise`  not conditioned on uid_cmd
        unbounded = []
        for v in vars_:
            if v == "seq_max":
                continue
            if _clamped(fi, rc, v, par) or _guarded_unconditionally(fi, rc, v, par):
                continue
            unbounded.append(v)
        if unbounded:
            pending.append((k_site, rc, unbounded))
        else:
            ctx.ok("R6.6", where(fi), f"{norm(rc)} bounded by seq_max on all paths")
    if not pending:
        return
    # The expansions are bounded only when uid_cmd is false.  Accepted discharge: every caller that may pass a true
    # uid_cmd hands over a set whose ranges were cut down to the same maximum by the clip helper.
    helper_ok, why = _clip_helper(ctx)
    sites = []
    for cf in p.functions.values():
        if cf.module.startswith("test"):
            continue
        for c in calls_in(cf.node):
            if call_name(c) == "sequence_set_to_list" and cf.key != fi.key:
                sites.append((cf, c))
    ctx.floor("R6.6", len(sites), 3, "call sites of sequence_set_to_list")
    bad_sites = []
    for cf, c in sites:
        ctx.analysed(cf)
        ctx.call_sites += 1
        flag = c.args[2] if len(c.args) >= 3 else kwarg(c, "uid_cmd")
        if flag is None or (isinstance(flag, ast.Constant) and flag.value is False):
            ctx.ok("R6.6", where(cf), f"{norm(c, 70)}: uid_cmd is false, ranges beyond seq_max raise Bad", nontrivial=False)
            continue
        if not c.args or len(c.args) < 2:
            bad_sites.append((cf, c, "positional set/max arguments missing"))
            continue
        how = _clipped_arg(cf, c, c.args[0], c.args[1], flag)
        if how and helper_ok:
            ctx.ok("R6.6", where(cf), f"{norm(c, 60)}: {how}")
        else:
            bad_sites.append((cf, c, how or "set not passed through clip_sequence_set with the same maximum"))
    if helper_ok and not bad_sites:
        for k_site, rc, unbounded in pending:
            ctx.ok("R6.6", where(fi), f"{norm(rc)}: unbounded under uid_cmd, but every uid caller clips its set first ({why})")
        return
    if not helper_ok:
        for k_site, rc, unbounded in pending:
            ctx.bad(
                "R6.6", fi.module, fi.qual, f"range expansion #{k_site} of a client-supplied pair",
                f"range expansion bounded only when uid_cmd is false: for UID commands {', '.join(unbounded)} come "
                "straight from the client (e.g. `UID FETCH 1:4000000000`) and a list of that size is built "
                f"synchronously inside the management task ({why})",
                rc.lineno,
            )
        return
    for cf, c, msg in bad_sites:
        ctx.bad(
            "R6.6", cf.module, cf.qual, f"unclipped uid set -> {norm(c.func)}({norm(c.args[0], 40) if c.args else ''}, ...)",
            "sequence_set_to_list expands every range of a set that may hold numbers far beyond the mailbox "
            f"(`UID FETCH 1:4000000000`): {msg}",
            c.lineno,
        )


def _clip_helper(ctx):
    """clip_sequence_set: every tuple element leaves as (low, min(high, seq_max)) or is dropped; nothing is expanded."""
    p = ctx.p
    try:
        h = p.func("utils.clip_sequence_set")
    except Exception:  # noqa: BLE001
        return False, "no clip helper in utils"
    ctx.analysed(h)
    args = [a.arg for a in h.node.args.args]
    if len(args) < 2:
        return False, "clip helper lost its maximum parameter"
    mx = args[1]
    if any(isinstance(c.func, ast.Name) and c.func.id in ("range", "list") for c in calls_in(h.node)):
        return False, "clip helper expands ranges itself"
    loops = [n for n in body_walk(h.node) if isinstance(n, ast.For)]
    if len(loops) != 1 or not isinstance(loops[0].target, ast.Name):
        return False, "clip helper: expected one loop over the set"
    elt = loops[0].target.id
    ok_tuple = False
    for n in walk_no_nested(loops[0]):
        if isinstance(n, ast.If) and isinstance(n.test, ast.Call) and call_name(n.test) == "isinstance" and norm(n.test.args[0]) == elt and "tuple" in norm(n.test.args[1]):
            last = n.body[-1]
            if isinstance(last, ast.Assign) and norm(last.targets[0]) == elt and isinstance(last.value, ast.Tuple) and len(last.value.elts) == 2:
                hi = last.value.elts[1]
                if isinstance(hi, ast.Call) and isinstance(hi.func, ast.Name) and hi.func.id == "min" and any(norm(a) == mx for a in hi.args):
                    # no other way out of the tuple branch than `continue` (dropping the element)
                    if not n.orelse and all(not isinstance(x, (ast.Break, ast.Return)) for x in walk_no_nested(n)):
                        ok_tuple = True
    if not ok_tuple:
        return False, "clip helper does not rewrite every range as (low, min(high, max))"
    # only `elt` (after the rewrite) is appended
    apps = [c for c in calls_in(h.node) if call_name(c) in ("append", "add", "extend")]
    if not apps or any(call_name(c) == "extend" or norm(c.args[0]) != elt for c in apps):
        return False, "clip helper emits something other than the rewritten element"
    # tuples must not be emitted before the rewrite: the append follows the tuple branch in the loop body
    body = loops[0].body
    for c in apps:
        st = next((s_ for s_ in body if any(x is c for x in ast.walk(s_))), None)
        tb = next((s_ for s_ in body if isinstance(s_, ast.If) and isinstance(s_.test, ast.Call) and call_name(s_.test) == "isinstance"), None)
        if st is None or tb is None or body.index(st) < body.index(tb):
            return False, "clip helper appends the element before bounding it"
    return True, "utils.clip_sequence_set rewrites each range as (low, min(high, max)) or drops it"


def _clipped_arg(cf, call, setarg, maxarg, flag) -> str | None:
    """The set argument of a sequence_set_to_list call is clip_sequence_set(<x>, <same max>) - directly, or through a local
    that is reassigned from such a call by an earlier sibling statement that runs whenever `flag` is true."""
    def is_clip(e):
        return isinstance(e, ast.Call) and call_name(e) == "clip_sequence_set" and len(e.args) >= 2 and norm(e.args[1]) == norm(maxarg)

    if is_clip(setarg):
        return "set clipped in place"
    if not isinstance(setarg, ast.Name):
        return None
    par = parmap(cf)
    cur = call
    while cur in par:
        pr = par[cur]
        for fld in ("body", "orelse", "finalbody"):
            lst = getattr(pr, fld, None)
            if isinstance(lst, list) and cur in lst:
                for s_ in reversed(lst[: lst.index(cur)]):
                    # x = clip(...)  unconditionally
                    if isinstance(s_, ast.Assign) and norm(s_.targets[0]) == setarg.id:
                        return "set clipped by the preceding assignment" if is_clip(s_.value) else None
                    if isinstance(s_, ast.If) and any(isinstance(x, ast.Assign) and norm(x.targets[0]) == setarg.id for x in walk_no_nested(s_)):
                        if norm(s_.test) == norm(flag) and not s_.orelse and len(s_.body) >= 1:
                            a = [x for x in s_.body if isinstance(x, ast.Assign) and norm(x.targets[0]) == setarg.id]
                            if a and is_clip(a[-1].value):
                                return f"set clipped under `if {norm(flag)}:` before the call"
                        return None
                    # the maximum must not be changed between clip and call
                    if any(isinstance(x, (ast.Assign, ast.AugAssign)) and norm(maxarg) in [norm(t) for t in (x.targets if isinstance(x, ast.Assign) else [x.target])] for x in walk_no_nested(s_)):
                        return None
        cur = pr
    return None


def _clamped(fi, site, v, par):
    """v reassigned from min(.., seq_max..) in a statement preceding `site` in an enclosing block."""
    cur = site
    while cur in par:
        pr = par[cur]
        for fld in ("body", "orelse"):
            lst = getattr(pr, fld, None)
            if isinstance(lst, list) and cur in lst:
                for s in lst[: lst.index(cur)]:
                    for n in walk_no_nested(s):
                        if isinstance(n, ast.Assign) and any(isinstance(t, ast.Name) and t.id == v for t in n.targets):
                            for c in calls_in(n.value):
                                if isinstance(c.func, ast.Name) and c.func.id == "min" and "seq_max" in names_in(c):
                                    return True
                        if isinstance(n, ast.Assign) and isinstance(n.targets[0], ast.Tuple):
                            # start, end = min(..), min(..)
                            for t, val in zip(n.targets[0].elts, getattr(n.value, "elts", [])):
                                if isinstance(t, ast.Name) and t.id == v:
                                    for c in calls_in(val):
                                        if isinstance(c.func, ast.Name) and c.func.id == "min" and "seq_max" in names_in(c):
                                            return True
        cur = pr
    return False


def _guarded_unconditionally(fi, site, v, par):
    cur = site
    while cur in par:
        pr = par[cur]
        for fld in ("body", "orelse"):
            lst = getattr(pr, fld, None)
            if isinstance(lst, list) and cur in lst:
                for s in lst[: lst.index(cur)]:
                    if isinstance(s, ast.If) and any(isinstance(x, ast.Raise) for x in s.body):
                        t = s.test
                        if "uid_cmd" in names_in(t):
                            continue
                        for cmp_ in ast.walk(t):
                            if isinstance(cmp_, ast.Compare) and v in names_in(cmp_) and "seq_max" in names_in(cmp_):
                                return True
        cur = pr
    return False


# ----------------------------------------------------------------------------
def r6_7(ctx):
    p = ctx.p
    fi = p.func("user_server.IMAPUserServer.get_mailbox")
    g = ctx.cfg(fi)
    # acquire: self.activating_mailboxes[name] = event
    acq = []
    for n in g.nodes:
        if n.kind == "stmt" and isinstance(n.ast, ast.Assign):
            t = n.ast.targets[0]
            if isinstance(t, ast.Subscript) and norm(t.value) == "self.activating_mailboxes" and isinstance(n.ast.value, ast.Name):
                acq.append((n.id, n.ast.value.id))
    ctx.floor("R6.7", len(acq), 1, "activation rendez-vous registration")
    for nid, ev in acq:
        rel = {
            n.id for n in g.nodes
            if n.ast is not None and n.kind == "stmt" and any(
                call_name(c) == "set" and isinstance(c.func, ast.Attribute) and isinstance(c.func.value, ast.Name) and c.func.value.id == ev
                for c in calls_in(n.ast)
            )
        }
        ctx.require(rel, f"get_mailbox: {ev}.set() not found")
        dele = {
            n.id for n in g.nodes
            if n.kind == "stmt" and (
                (isinstance(n.ast, ast.Delete) and any(isinstance(t, ast.Subscript) and norm(t.value) == "self.activating_mailboxes" for t in n.ast.targets))
                or any(call_name(c) == "pop" and norm(call_recv(c)) == "self.activating_mailboxes" for c in calls_in(n.ast))
            )
        }
        for what, must in (("event.set()", rel), ("removal from activating_mailboxes", dele)):
            ctx.require(must, f"get_mailbox: {what} not found")
            # flag locals: assigned from bool constants, or computed once from a test (`creating = name not in ...`)
            flags = {
                s_.targets[0].id for s_ in body_walk(fi.node)
                if isinstance(s_, ast.Assign) and len(s_.targets) == 1 and isinstance(s_.targets[0], ast.Name)
                and ((isinstance(s_.value, ast.Constant) and isinstance(s_.value.value, bool)) or isinstance(s_.value, (ast.Compare, ast.BoolOp)) or (isinstance(s_.value, ast.UnaryOp) and isinstance(s_.value.op, ast.Not)))
            }
            # the branch conditions under which the registration runs hold when the search starts there
            init = flow.facts_at(g, nid, flow.name_classify(flags), labels=flow.ALL, kills=flow.name_kills(g, flags), gens=flow.const_bool_gens(g))
            hit = flow.feasible_paths_exist(
                g, nid, {g.exit, g.raise_exit}, flow.name_classify(flags), initial=init, labels=flow.ALL,
                avoid=lambda n: n in must, gens=flow.const_bool_gens(g), kills=flow.name_kills(g, flags),
            )
            ctx.paths_explored += 1
            if hit:
                path, _facts = hit
                t = path[-1]
                ctx.bad(
                    "R6.7", fi.module, fi.qual, f"{what} skipped on exit to {g.nodes[t].text}",
                    f"if activation fails (e.g. Mailbox.new raises) {what} never happens: every later command naming "
                    "this mailbox waits on the stale event until the watchdog",
                    g.nodes[nid].line, flow.fmt_path(g, path),
                )
            else:
                ctx.ok("R6.7", where(fi), f"{what} on every exit (incl. exceptional) after registration @{g.nodes[nid].line}")
    # waiters must tolerate a failed activation: no unguarded self.active_mailboxes[name] after event.wait()
    waits = [c for c in calls_in(fi.node) if call_name(c) == "wait"]
    ctx.require(waits, "get_mailbox: event.wait() not found")


def r6_8(ctx):
    """Sibling agreement of the selected-state guards: every handler that works on `self.mbox` (its admission names
    self.mbox, or it is CLOSE/UNSELECT) begins by refusing - with a tagged NO/BAD - when the session is not in the SELECTED
    state, and by saying BYE when the selected mailbox has gone.  Arm-exact: a negated guard refuses the command exactly when
    it is legal and lets it through, onto `self.mbox is None`, when it is not (AttributeError -> no tagged reply path of its
    own)."""
    p = ctx.p
    ci = p.cls("Authenticated")
    n = 0
    for m, fi in sorted(ci.methods.items()):
        if not m.startswith("do_"):
            continue
        on_selected = any(norm(c.args[0]) == "self.mbox" for _, c in admission_items(fi) if c.args) or m in ("do_close", "do_unselect")
        if not on_selected:
            continue
        n += 1
        ctx.analysed(fi)
        state_ok = mbox_ok = False
        for st in fi.node.body:
            if not isinstance(st, ast.If):
                continue
            for a, pos in polarity_atoms(st.test):
                if isinstance(a, ast.Compare) and norm(a.left) == "self.state" and "SELECTED" in norm(a.comparators[0]):
                    refuses_when_not_selected = (isinstance(a.ops[0], ast.NotEq) and pos) or (isinstance(a.ops[0], ast.Eq) and not pos)
                    if refuses_when_not_selected and any(isinstance(b, ast.Raise) for b in st.body):
                        state_ok = True
                # `self.mbox is None` / `not self.mbox`
                if isinstance(a, ast.Compare) and norm(a.left) == "self.mbox" and isinstance(a.comparators[0], ast.Constant) and a.comparators[0].value is None:
                    gone = (isinstance(a.ops[0], ast.Is) and pos) or (isinstance(a.ops[0], ast.IsNot) and not pos)
                    if gone and any(isinstance(b, ast.Return) for b in st.body):
                        mbox_ok = True
                if isinstance(a, ast.Attribute) and norm(a) == "self.mbox":
                    if not pos and any(isinstance(b, (ast.Return, ast.Raise)) for b in st.body):
                        mbox_ok = True
                    if pos and m == "do_unselect":
                        mbox_ok = True  # UNSELECT: `if self.mbox: unselect it` - nothing to refuse
        if state_ok and mbox_ok:
            ctx.ok("R6.8", where(fi), "refuses outside the SELECTED state; leaves when the selected mailbox is gone")
        else:
            what = [] if state_ok else ["`if self.state != ClientState.SELECTED: raise No/Bad`"]
            what += [] if mbox_ok else ["`if self.mbox is None: ... return`"]
            ctx.bad(
                "R6.8", fi.module, fi.qual, " and ".join(what) + " missing or negated",
                f"{m[3:].upper()} does not start with the guard(s) its sibling handlers have ({', '.join(what)}): the command is refused exactly "
                "when it is legal, or runs on a session without a selected mailbox and dies on `self.mbox` being None",
                fi.node.lineno,
            )
    ctx.floor("R6.8", n, 9, "handlers that operate on the selected mailbox")


DELIVER = {
    # handler -> (how the data is produced, minimum number of pushes that carry it)
    "client.Authenticated.do_search": ("search",),
    "client.Authenticated.do_fetch": ("fetch",),
    "client.Authenticated.do_store": ("store",),
    "client.Authenticated.do_status": ("next_uid", "num_msgs"),
    "client.Authenticated.do_select": ("selected",),
    "client.Authenticated.do_list": ("list",),
}


def r6_10(ctx):
    """COPY / MOVE hand their phony APPEND to the *destination* mailbox's queue.  A mailbox that has been deleted has no
    management task any more (DELETE cancels it and wakes what was queued, once): a command queued on it afterwards is never
    admitted and is answered by the watchdog only.  So the `dst_mbox.deleted` test must still be true when the command is
    queued - no suspension point between the test and `ready_and_okay(dst_mbox)` (other sessions' DELETE runs at every one)."""
    p = ctx.p
    fi = p.func("mbox.Mailbox.copy")
    g = ctx.cfg(fi)
    adm = set()
    for w, c in admission_items(fi):
        if c.args and norm(c.args[0]) != "self":
            recv = norm(c.args[0])
            adm.update(n for n in g.nodes_for(w) if g.nodes[n].kind == "with_enter")
    ctx.require(adm, "copy(): admission on the destination mailbox not found")
    tests = {n.id for n in g.nodes if n.kind == "test" and n.ast is not None and any(isinstance(a, ast.Attribute) and a.attr == "deleted" and norm(a.value) == recv for a in ast.walk(n.ast))}
    if not tests:
        ctx.bad("R6.10", fi.module, fi.qual, f"if {recv}.deleted: raise", "copy() queues its APPEND on the destination without testing that the destination still exists: on a deleted mailbox nobody serves the queue and the COPY/MOVE is answered by the watchdog only", fi.node.lineno)
        return
    stale = None
    for w in [n.id for n in g.nodes if n.awaits and n.id not in adm]:
        seen = flow.reach(g, [w], flow.NORMAL, avoid=lambda x: x in tests)
        if (set(seen) & adm) and w not in tests:
            stale = w
            break
    ctx.paths_explored += 1
    # ... and the test *acts*: the admission is reached only with `deleted` known to be false (the arm on which it is true
    # leaves - a test whose refusing arm was emptied protects nothing)
    def _cls(e, recv=recv):
        return "deleted" if isinstance(e, ast.Attribute) and e.attr == "deleted" and norm(e.value) == recv else None

    unacted = flow.feasible_paths_exist(g, g.entry, adm, _cls, labels=flow.NORMAL, accept=lambda _n, facts: facts.get("deleted") is not False) if stale is None else None
    ctx.paths_explored += 1
    if unacted:
        ctx.bad("R6.10", fi.module, fi.qual, f"if {recv}.deleted: raise ...", f"copy() tests `{recv}.deleted` but still reaches ready_and_okay({recv}) when it is true: the APPEND is queued on a mailbox whose queue nobody serves and COPY/MOVE is answered by the watchdog only", g.nodes[unacted[0][-1]].line, flow.fmt_path(g, unacted[0]))
        return
    if stale is not None:
        ctx.bad("R6.10", fi.module, fi.qual, f"suspension point between `if {recv}.deleted` and ready_and_okay({recv})", f"copy() can suspend (`{norm(g.nodes[stale].ast, 60)}`) after it tested that the destination exists and before it queues its APPEND there: a DELETE of the destination that completes in between leaves the APPEND on a queue nobody serves - COPY/MOVE hangs until the watchdog answers", g.nodes[stale].line)
    else:
        ctx.ok("R6.10", where(fi), f"`{recv}.deleted` is tested with no suspension point before the APPEND is queued on the destination")


def r6_11(ctx):
    """Mailbox.shutdown() ends the management task and wakes whatever is still queued.  A command the task had already
    dequeued is woken by the task's own `finally: ready.set()` the moment the task is cancelled - and then looks at
    `mbox.deleted` to learn that it must answer NO.  So `self.deleted = True` is set before anything that can wake a command:
    before the task is cancelled / awaited and before any other suspension point of shutdown()."""
    p = ctx.p
    fi = p.func("mbox.Mailbox.shutdown")
    g = ctx.cfg(fi)
    flag = [n.id for n in g.nodes if n.ast is not None and n.kind == "stmt" and isinstance(n.ast, ast.Assign) and any(norm(t) == "self.deleted" for t in n.ast.targets) and isinstance(n.ast.value, ast.Constant) and n.ast.value.value is True]
    wake = [n.id for n in g.nodes if n.ast is not None and n.kind == "stmt" and any(call_name(c) == "cancel" for c in calls_in(n.ast))] + [n.id for n in g.nodes if n.awaits]
    ctx.require(flag, "Mailbox.shutdown: `self.deleted = True` not found")
    ctx.require(wake, "Mailbox.shutdown: cancel / await of the management task not found")
    early = [w for w in wake if flow.escapes_without(g, g.entry, lambda n: n in flag, [w], flow.ALL) is not None]
    ctx.paths_explored += len(wake)
    if early:
        ctx.bad("R6.11", fi.module, fi.qual, f"{norm(g.nodes[early[0]].ast, 60)} before self.deleted = True", "shutdown() can cancel / await the management task (or suspend) before it has marked the mailbox deleted: a command the task had already taken off the queue is woken by the task's `finally` while `deleted` is still false, runs on the dying mailbox and leaves its session selected on a mailbox nobody serves - its next command is answered by the watchdog only", g.nodes[early[0]].line)
    else:
        ctx.ok("R6.11", where(fi), "shutdown() marks the mailbox deleted before it cancels the management task or suspends")


def r6_7b(ctx):
    """get_mailbox() activates a mailbox once; everybody else who asks for it meanwhile waits on an event and then looks the
    mailbox up in `active_mailboxes`.  The waiters are released only after the mailbox has been published there: released
    first, a waiter finds nothing (NO "unable to activate" for a mailbox that exists) and a later caller builds a *second*
    Mailbox object - its own queue, management task and client table - for the same folder."""
    p = ctx.p
    fi = p.func("user_server.IMAPUserServer.get_mailbox")
    g = ctx.cfg(fi)
    made = [n.id for n in g.nodes if n.ast is not None and n.kind == "stmt" and isinstance(n.ast, ast.Assign) and any(call_name(c) == "new" and "Mailbox" in norm(call_recv(c) or ast.Name("")) for c in calls_in(n.ast))]
    pub = {n.id for n in g.nodes if n.ast is not None and n.kind == "stmt" and isinstance(n.ast, ast.Assign) and any(isinstance(t, ast.Subscript) and norm(t.value) == "self.active_mailboxes" for t in n.ast.targets)}
    rel = [n.id for n in g.nodes if n.ast is not None and n.kind == "stmt" and any(call_name(c) == "set" and "event" in norm(call_recv(c) or ast.Name("")) for c in calls_in(n.ast))]
    ctx.require(made and pub and rel, "get_mailbox: Mailbox.new / active_mailboxes[name] = mbox / event.set() not found")
    w = None
    for m_ in made:
        for r_ in rel:
            # the normal completion of Mailbox.new(): leave the node by its normal edge
            starts = [e.dst for e in g.out[m_] if e.label in flow.NORMAL]
            seen = flow.reach(g, starts, flow.NORMAL, avoid=lambda x: x in pub)
            ctx.paths_explored += 1
            if r_ in seen:
                w = r_
    if w is not None:
        ctx.bad("R6.7", fi.module, fi.qual, "event.set() reachable before self.active_mailboxes[name] = mbox", "the sessions waiting for a mailbox's activation are released before the mailbox is in `active_mailboxes`: a waiter is told the mailbox cannot be activated, and the next caller activates the folder a second time - two Mailbox objects with separate queues for one folder, whose sessions are no longer serialised against each other", g.nodes[w].line)
    else:
        ctx.ok("R6.7", where(fi), "a freshly activated mailbox is published in active_mailboxes before the waiters on its activation event are released")


def r6_9(ctx):
    """"...after all untagged data belonging to it": in each handler that produces untagged data, what the mailbox operation
    returned (SEARCH hits, FETCH items, STORE's flag lines, the STATUS values, the SELECT preamble, the LIST entries) flows
    into a push to the client (def-use from the producing call / attribute to an argument of <x>.client.push)."""
    p = ctx.p
    n = 0
    for key, srcs in DELIVER.items():
        fi = p.func(key)
        ctx.analysed(fi)
        n += 1
        tainted: set[str] = set()
        # seeds: names bound from a call / attribute named in srcs
        def produces(e):
            return any((isinstance(x, ast.Call) and call_name(x) in srcs) or (isinstance(x, ast.Attribute) and x.attr in srcs) for x in ast.walk(e))

        changed = True
        rounds = 0
        while changed and rounds < 6:
            changed = False
            rounds += 1
            for s_ in body_walk(fi.node):
                tg, val = [], None
                if isinstance(s_, ast.Assign):
                    tg, val = s_.targets, s_.value
                elif isinstance(s_, ast.AugAssign):
                    tg, val = [s_.target], s_.value
                elif isinstance(s_, (ast.For, ast.AsyncFor)):
                    tg, val = [s_.target], s_.iter
                elif isinstance(s_, ast.Call) and call_name(s_) in ("append", "extend", "add") and isinstance(call_recv(s_), ast.Name) and s_.args:
                    tg, val = [call_recv(s_)], s_.args[0]
                if val is None:
                    continue
                if produces(val) or (names_in(val) & tainted):
                    for t in tg:
                        for x in ast.walk(t):
                            if isinstance(x, ast.Name) and x.id not in tainted:
                                tainted.add(x.id)
                                changed = True
        delivered = [c for c in calls_in(fi.node) if is_push_call(c) and any((names_in(a) & tainted) or produces(a) for a in c.args)]
        if delivered:
            ctx.ok("R6.9", where(fi), f"data produced by {'/'.join(srcs)} reaches {norm(delivered[0].func)}(...)")
        else:
            ctx.bad("R6.9", fi.module, fi.qual, f"{'/'.join(srcs)} -> push", f"what {'/'.join(srcs)} produces no longer reaches a push to the client: the command is answered OK without its untagged data", fi.node.lineno)
    ctx.floor("R6.9", n, 6, "handlers that produce untagged data")


def _num_eval(e, env, consts):
    """Value of a small arithmetic expression over numbers, names in env/consts, min/max; None when not evaluable."""
    if isinstance(e, ast.Constant) and isinstance(e.value, (int, float)) and not isinstance(e.value, bool):
        return e.value
    if isinstance(e, ast.Name):
        return env.get(e.id, consts.get(e.id))
    if isinstance(e, ast.Attribute):
        return env.get(norm(e), consts.get(e.attr))
    if isinstance(e, ast.UnaryOp) and isinstance(e.op, ast.USub):
        v = _num_eval(e.operand, env, consts)
        return None if v is None else -v
    if isinstance(e, ast.BinOp):
        l, r = _num_eval(e.left, env, consts), _num_eval(e.right, env, consts)
        if l is None or r is None:
            return None
        try:
            if isinstance(e.op, ast.Add): return l + r
            if isinstance(e.op, ast.Sub): return l - r
            if isinstance(e.op, ast.Mult): return l * r
            if isinstance(e.op, ast.Div): return l / r
            if isinstance(e.op, ast.FloorDiv): return l // r
            if isinstance(e.op, ast.Pow): return l ** r if abs(r) < 64 else None
        except (ZeroDivisionError, OverflowError):
            return None
        return None
    if isinstance(e, ast.Call) and isinstance(e.func, ast.Name) and e.func.id in ("min", "max", "float", "int") and e.args and not e.keywords:
        vs = [_num_eval(a, env, consts) for a in e.args]
        if any(v is None for v in vs):
            return None
        return {"min": min, "max": max, "float": lambda *a: float(a[0]), "int": lambda *a: int(a[0])}[e.func.id](*vs)
    return None


def _test_eval(t, env, consts):
    if isinstance(t, ast.Compare) and len(t.ops) == 1:
        l, r = _num_eval(t.left, env, consts), _num_eval(t.comparators[0], env, consts)
        if l is None or r is None:
            return None
        op = t.ops[0]
        return {ast.Gt: l > r, ast.GtE: l >= r, ast.Lt: l < r, ast.LtE: l <= r, ast.Eq: l == r, ast.NotEq: l != r}.get(type(op))
    if isinstance(t, ast.UnaryOp) and isinstance(t.op, ast.Not):
        v = _test_eval(t.operand, env, consts)
        return None if v is None else (not v)
    if isinstance(t, ast.BoolOp):
        vs = [_test_eval(v, env, consts) for v in t.values]
        if isinstance(t.op, ast.And):
            return False if any(v is False for v in vs) else (None if any(v is None for v in vs) else True)
        return True if any(v is True for v in vs) else (None if any(v is None for v in vs) else False)
    return None


def _policy_returns(stmts, env, consts, out):
    """Collect the (abandon, delay) pairs the policy can return with the retry count fixed in env; True when every path
    through stmts has returned."""
    for s in stmts:
        if isinstance(s, ast.Return):
            out.append(s.value)
            return True
        if isinstance(s, ast.Assign) and len(s.targets) == 1 and isinstance(s.targets[0], ast.Name):
            v = _num_eval(s.value, env, consts)
            if v is not None:
                env = dict(env)
                env[s.targets[0].id] = v
            else:
                env = {k: v_ for k, v_ in env.items() if k != s.targets[0].id}
        elif isinstance(s, ast.If):
            tv = _test_eval(s.test, env, consts)
            if tv is True:
                if _policy_returns(s.body, env, consts, out):
                    return True
            elif tv is False:
                if _policy_returns(s.orelse, env, consts, out):
                    return True
            else:
                a = _policy_returns(s.body, env, consts, out)
                b = _policy_returns(s.orelse, env, consts, out) if s.orelse else False
                if a and b:
                    return True
        elif isinstance(s, (ast.Try, ast.With, ast.For, ast.While, ast.Match)):
            out.append(None)  # not a shape this evaluator follows
    return False


def r6_12(ctx):
    """A db write that hits sqlite's transient `readonly database` error is retried by aioretry under
    Database._execute_retry_policy, inside the command that issued it - so inside the command's COMMAND_TIMEOUT watchdog.
    The policy gives up after finitely many failures and the pauses it asks for add up to less than the watchdog: otherwise the
    command (and everything queued behind it on the mailbox) is answered by the watchdog's BAD instead of its own reply.
    Decided by evaluating the policy's arithmetic for fails = 1, 2, ... (tests on the exception are taken both ways)."""
    p = ctx.p
    fi = p.func("db.Database._execute_retry_policy")
    ctx.analysed(fi)
    dec = [f for f in p.functions.values() if f.module == "db" and any("retry" in norm(d) and "_execute_retry_policy" in norm(d) for d in f.node.decorator_list)]
    ctx.floor("R6.12", len(dec), 1, "db methods retried under _execute_retry_policy")
    consts = {}
    for mod in ("db", "client"):
        for s in p.modules[mod].tree.body:
            if isinstance(s, ast.Assign) and len(s.targets) == 1 and isinstance(s.targets[0], ast.Name):
                v = _num_eval(s.value, {}, consts if mod == "db" else {})
                if v is not None and (mod == "db" or s.targets[0].id == "COMMAND_TIMEOUT"):
                    consts[s.targets[0].id] = v
    limit = consts.get("COMMAND_TIMEOUT")
    ctx.require(limit is not None, "client.COMMAND_TIMEOUT is no longer a numeric constant", anchor=True)
    arg = fi.node.args.args[1].arg if len(fi.node.args.args) > 1 else "info"
    total = 0.0
    gave_up = None
    for fails in range(1, 65):
        out = []
        _policy_returns(fi.node.body, {f"{arg}.fails": fails}, consts, out)
        delays = []
        for rv in out:
            if rv is None or not (isinstance(rv, ast.Tuple) and len(rv.elts) == 2):
                ctx.bad("R6.12", fi.module, fi.qual, norm(rv, 60) if rv is not None else "compound statement", "the retry policy is no longer a chain of tests and `return abandon, delay` pairs: its total pause cannot be bounded", fi.node.lineno)
                return
            ab, d = rv.elts
            if isinstance(ab, ast.Constant) and ab.value is True:
                continue
            dv = _num_eval(d, {f"{arg}.fails": fails}, consts)
            if dv is None:
                ctx.bad("R6.12", fi.module, fi.qual, norm(rv, 60), "the pause before a retry is not an arithmetic expression of the failure count and constants: it cannot be bounded against the command watchdog", rv.lineno)
                return
            delays.append(dv)
        if not delays:
            gave_up = fails
            break
        total += max(delays)
    if gave_up is None:
        ctx.bad("R6.12", fi.module, fi.qual, "info.fails > N", "the retry policy never gives up (no failure count at which every path returns abandon=True): a persistent db error keeps the command - and the mailbox's queue - waiting for ever", fi.node.lineno)
    elif total >= limit:
        ctx.bad("R6.12", fi.module, fi.qual, f"sum of pauses = {total:g}s over {gave_up - 1} retries", f"the pauses of the db retry policy add up to {total:g}s, not less than the {limit:g}s command watchdog: one transient `readonly database` error turns the command's reply into `BAD Command timed out` and stalls the commands queued behind it", fi.node.lineno)
    else:
        ctx.ok("R6.12", where(fi), f"gives up at the {gave_up}th failure; pauses add up to {total:g}s < COMMAND_TIMEOUT {limit:g}s")



def r6_13(ctx):
    """A command the parser refuses is still a command the session sent: it is answered with a BAD that carries its tag
    whenever the parser got as far as the tag (the command object keeps it) - `*` only when there is none.  Both callers of
    parse() - the front end before LOGIN, the per-user process after it - build their BAD from `<command>.tag`.  An untagged
    `* BAD` alone leaves the client waiting for a response with its tag for ever."""
    p = ctx.p
    n = 0
    for key in ("server.IMAPSubprocessInterface.unauthenticated", "user_server.IMAPClientProxy.run"):
        fi = p.func(key)
        ctx.analysed(fi)
        for t in [x for x in body_walk(fi.node) if isinstance(x, ast.Try)]:
            hs = [h for h in t.handlers if h.type is not None and any(norm(tt).split(".")[-1] in ("BadCommand",) for tt in (h.type.elts if isinstance(h.type, ast.Tuple) else [h.type]))]
            for h in hs:
                n += 1
                pushes = [c for c in ast.walk(h) if isinstance(c, ast.Call) and call_name(c) == "push"]
                reads_tag = any(isinstance(x, ast.Attribute) and x.attr == "tag" for x in ast.walk(h))
                tagged = False
                for c in pushes:
                    for a in c.args:
                        parts = merge_consts(fstring_parts(a) or [])
                        if parts and not isinstance(parts[0], str) and len(parts) > 1 and isinstance(parts[1], str) and parts[1].startswith(" BAD"):
                            tagged = True
                if pushes and reads_tag and tagged:
                    ctx.ok("R6.13", where(fi), "a refused command is answered `<its tag> BAD ...` (`*` only when no tag was read)")
                else:
                    ctx.bad("R6.13", fi.module, fi.qual, norm(pushes[0], 70) if pushes else "except BadCommand", "a command the parser refuses is answered with an untagged `* BAD` only (the handler does not use the command's tag): the client waits for a response with that tag for ever", h.lineno)
    ctx.floor("R6.13", n, 2, "BadCommand handlers of the callers of parse()")


def r6_14(ctx):
    """The front end refuses a literal or a command that is too big with a BAD.  The command it refuses has a tag - the first
    word of what is buffered - and the client waits for a response that carries it: each such refusal is built from the
    buffered command's tag, not sent as a constant `* BAD ...`.  (Two refusals have no tag to give: an empty line, and a
    line longer than the stream takes, of which nothing has been read yet.)"""
    p = ctx.p
    fi = p.func("server.IMAPClient.start")
    ctx.analysed(fi)
    par = parmap(fi)
    n = 0
    for c in calls_in(fi.node):
        if call_name(c) != "push" or not c.args:
            continue
        consts = [k.value for k in ast.walk(c.args[0]) if isinstance(k, ast.Constant) and isinstance(k.value, (bytes, str))]
        text = b"".join(k if isinstance(k, bytes) else k.encode("latin-1") for k in consts)
        if b"BAD" not in text:
            continue
        cur, in_overrun = c, False
        while cur in par:
            cur = par[cur]
            if isinstance(cur, ast.ExceptHandler) and cur.type is not None and "LimitOverrunError" in norm(cur.type):
                in_overrun = True
        if in_overrun or b"empty message" in text:
            ctx.ok("R6.14", where(fi), f"{norm(c, 50)}: no tag to give (nothing of the command has been read)", nontrivial=False)
            continue
        n += 1
        a = c.args[0]
        bare = isinstance(a, ast.Constant) or (isinstance(a, ast.JoinedStr) and all(isinstance(v, ast.Constant) for v in a.values))
        starts_star = text.lstrip().startswith(b"* BAD")
        if bare or starts_star:
            ctx.bad("R6.14", fi.module, fi.qual, norm(c, 80), "a command is refused for its size with a constant `* BAD ...`: its tag is known (the first word of the buffered command) and the client is waiting for a response that carries it - for a synchronising literal it has sent nothing else and waits for ever", c.lineno)
        else:
            ctx.ok("R6.14", where(fi), f"{norm(c, 60)}: the refusal carries the buffered command's tag")
    ctx.floor("R6.14", n, 3, "size refusals of a buffered command")


def run(ctx):
    ctx.do(r6_1)
    ctx.do(r6_2)
    ctx.do(r6_3)
    ctx.do(r6_4)
    ctx.do(r6_6)
    ctx.do(r6_7)
    ctx.do(r6_8)
    ctx.do(r6_9)
    ctx.do(r6_7b)
    ctx.do(r6_10)
    ctx.do(r6_11)
    ctx.do(r6_12)
    ctx.do(r6_13)
    ctx.do(r6_14)
    from . import c07 as _c07
    ctx.do(_c07.r7_8)  # one tagged reply per command: error texts cannot carry a line break into the reply
    from . import c01
    ctx.do(c01.r1_5)
    # R6.5 = C08 R8.1 (a non-BadCommand exception from parse() skips every reply path); admission relation and
    # release-before-acquire are necessary for every command to be answered without the watchdog
    from . import c08, c10
    ctx.do(c08.r8_1)
    ctx.do(c10.r10_2)
    ctx.do(c10.r10_5)
    ctx.do(c10.r10_9)
    ctx.do(c10.r10_8)  # the wait loops of the admission queue make progress
    from . import c19 as _c19s
    ctx.do(_c19s.r19_4)  # the size counter is per command: a later, legal command is not dropped without its tagged reply
    ctx.trust("frozen: transport/cancel arms of command() that may stay silent = ConnectionResetError, CancelledError, KeyboardInterrupt")
    ctx.trust("frozen: logging calls (logger.*/self.log.*) are non-raising")

LEVEL_TEXT = (
    "Static path analysis (CFG with exception and cancellation edges) of the reply/admission machinery: decides the "
    "structural necessary conditions R6.1-R6.7 - exactly-one tagged push per path, ready.set() on every exit after a "
    "dequeue, management task on every Mailbox.new return, read loops not left on client errors, bounded range "
    "expansion, activation event released on all exits. A lost wake-up is a path that lacks a call, which is what a "
    "path rule sees on all paths at once; the latency bound itself is not decided."
)
LEVEL_NOTE = (
    "Decides structural clauses only, not the behaviour: no numeric time bound, no schedule enumeration. Trusted: "
    "CPython ast; asyncio Event/Queue semantics; logging does not raise; frozen table of transport/cancel arms."
)
TECHNIQUE = "CFG must-pass-through with exception edges; typestate of Mailbox.new; interval idiom check"
DESIGN_REF = "DESIGN.md section 3 / C06"
