"""C02 - UIDs strictly ascending, never reused; UIDNEXT / UIDVALIDITY honest.

 R2.1 who-may-write next_uid, each store in a monotone form
 R2.2 every value entering <Mailbox>.uids comes from the allocator (next_uid read before its increment), the db
      restore, [] or a slice of itself
 R2.3 uid_vv only from get_next_uid_vv() or the db; the global counter only grows and is committed
 R2.4 stores to next_uid / uids / uid_vv are followed by a commit before the function returns
 R2.5 reconcile branches that reset uids do not touch next_uid (shares R2.1 forms)
"""
from __future__ import annotations

import ast

from .. import flow
from ..astutil import (
    assigned_targets,
    body_walk,
    call_name,
    call_recv,
    calls_in,
    names_in,
    norm,
    strip_await,
    walk_no_nested,
)
from .common import env_of, parmap, typer, where

PROP = "C02"
EXPLANATION = (
    "Who-may-write and def-use provenance rules over every store to next_uid, uids and uid_vv in the repository: "
    "(R2.1) next_uid is stored only by the frozen writer set and only as `= 1` (constructor), db restore, "
    "`+= <positive constant>`, `= max(...)` or `= <obj>.uids[-1] + 1` guarded by a non-empty test and preceded by "
    "`uids.extend(range(next_uid, next_uid + n))`; (R2.2) every value appended/extended/assigned into a mailbox's uids "
    "is [], a slice of itself, expand_sequence of the db row, or is data-dependent on next_uid read before its "
    "increment; (R2.3) Mailbox.uid_vv is assigned only from get_next_uid_vv() or the db row, the global counter is only "
    "incremented and its UPDATE is committed before the value is returned, and both the create branch of "
    "_restore_from_db and the \\Noselect branch of delete pass through get_next_uid_vv; (R2.4) every function that "
    "stores to these fields reaches a commit on every normal path after the store. Decides these clauses, not the "
    "history-long ledger of revealed UIDs."
)
RULE_TEXT = (
    "instances: every AST store to an attribute named next_uid / uid_vv and every mutation of an attribute named uids "
    "(assignment, del, append/extend/insert, slice), discovered on each run; non-trivial = needed def-use or a CFG query"
)
ASSUMPTIONS = [
    "attributes named next_uid / uids / uid_vv anywhere in asimap/*.py denote the UID state (no other class uses these names)",
    "not decided: arithmetic over histories and restarts (ledger of every UID ever revealed)",
]
LEVEL_TEXT = (
    "Static who-may-write + def-use provenance over all stores to the UID state (next_uid, uids, uid_vv): a UID can be "
    "reused only if some store lowers the cursor or some value enters uids that was not drawn from it, and both are "
    "visible as code shapes on every line; the ledger over histories is not decided."
)
LEVEL_NOTE = "Structural clauses only; frozen writer tables with reasons live in asv/rules/c02.py. Trusted: CPython ast."
TECHNIQUE = "who-may-write + def-use provenance + must-pass-through(commit)"
DESIGN_REF = "DESIGN.md section 3 / C02"

NEXT_UID_WRITERS = {
    "mbox.Mailbox.__init__": "constructor default before the db restore",
    "mbox.Mailbox._restore_from_db": "value read back from the mailboxes row",
    "mbox.Mailbox.check_new_msgs_and_flags": "allocation of UIDs for new message keys",
    "mbox._helper_rename_inbox": "allocation while moving INBOX content to the new mailbox",
}
UIDS_WRITERS = {
    "mbox.Mailbox.__init__", "mbox.Mailbox._restore_from_db", "mbox.Mailbox.check_new_msgs_and_flags",
    "mbox.Mailbox.expunge", "mbox.Mailbox.delete", "mbox._helper_rename_inbox",
}
UID_VV_WRITERS = {
    "mbox.Mailbox.__init__", "mbox.Mailbox._restore_from_db", "mbox.Mailbox.delete",
    "user_server.IMAPUserServer.__init__", "user_server.IMAPUserServer._restore_from_db",
    "user_server.IMAPUserServer.get_next_uid_vv",
}


def _stores(p, attr):
    """(fi, stmt, target) for every store to an attribute named attr."""
    out = []
    for fi in p.functions.values():
        for n in body_walk(fi.node):
            if isinstance(n, (ast.Assign, ast.AugAssign, ast.AnnAssign, ast.Delete)):
                for t in assigned_targets(n):
                    base = t
                    while isinstance(base, ast.Subscript):
                        base = base.value
                    if isinstance(base, ast.Attribute) and base.attr == attr:
                        out.append((fi, n, t))
    return out


def _enclosing_if_tests(node, fi):
    par = parmap(fi)
    out = []
    cur = node
    while cur in par:
        pr = par[cur]
        if isinstance(pr, ast.If) and cur in pr.body:
            out.append(pr.test)
        cur = pr
    return out


def _prev_stmts(node, fi):
    """Statements preceding `node` in its own and enclosing blocks (nearest first)."""
    par = parmap(fi)
    out = []
    cur = node
    while cur in par:
        pr = par[cur]
        for fld in ("body", "orelse", "finalbody"):
            lst = getattr(pr, fld, None)
            if isinstance(lst, list) and cur in lst:
                out.extend(reversed(lst[: lst.index(cur)]))
        cur = pr
    return out


def r2_1(ctx):
    p = ctx.p
    st = _stores(p, "next_uid")
    ctx.floor("R2.1", len(st), 3, "stores to next_uid")
    for fi, n, t in st:
        ctx.analysed(fi)
        obj = norm(t.value)
        if fi.key not in NEXT_UID_WRITERS:
            ctx.bad("R2.1", fi.module, fi.qual, norm(n), f"{fi.qual} is not one of the functions allowed to move the UID cursor ({', '.join(sorted(NEXT_UID_WRITERS))})", n.lineno)
            continue
        form = None
        if isinstance(n, ast.AugAssign):
            if isinstance(n.op, ast.Add) and isinstance(n.value, ast.Constant) and isinstance(n.value.value, int) and n.value.value > 0:
                form = "+= positive constant"
        elif isinstance(n, ast.Assign):
            v = n.value
            if fi.name == "__init__" and isinstance(v, ast.Constant) and v.value == 1:
                form = "constructor default 1"
            elif isinstance(n.targets[0], ast.Tuple) and fi.name == "_restore_from_db":
                form = "db row unpack"
            elif isinstance(v, ast.Call) and isinstance(v.func, ast.Name) and v.func.id == "max" and any(norm(a) == norm(t) for a in v.args):
                form = "max(self.next_uid, ...)"
            elif (
                isinstance(v, ast.BinOp) and isinstance(v.op, ast.Add)
                and isinstance(v.right, ast.Constant) and v.right.value == 1
                and norm(v.left) == f"{obj}.uids[-1]"
            ):
                # guarded by non-empty uids and preceded by extend(range(next_uid, next_uid + n))
                guarded = any(norm(x) == f"{obj}.uids" for x in _enclosing_if_tests(n, fi))
                ext = False
                for s in _prev_stmts(n, fi):
                    for c in calls_in(s):
                        if call_name(c) == "extend" and norm(call_recv(c)) == f"{obj}.uids":
                            ext = _from_cursor_range(fi, c.args[0], obj, s)
                if guarded and ext:
                    form = "uids[-1] + 1 after extend(range(next_uid, ...)) under `if uids`"
        if form:
            ctx.ok("R2.1", where(fi), f"{norm(n, 70)}  [{form}]")
        else:
            ctx.bad("R2.1", fi.module, fi.qual, norm(n), "store to next_uid is not in a monotone form (`+= k`, `max(..)`, or `uids[-1] + 1` right after allocating from the cursor): the UID cursor can move backwards and a UID can be handed out twice", n.lineno)


def _from_cursor_range(fi, expr, obj, before_stmt) -> bool:
    """expr is range(obj.next_uid, obj.next_uid + k) / list(...) of it, or a local so defined."""
    e = strip_await(expr)
    if isinstance(e, ast.Name):
        for s in _prev_stmts(before_stmt, fi):
            if isinstance(s, ast.Assign) and any(isinstance(t, ast.Name) and t.id == e.id for t in s.targets):
                return _from_cursor_range(fi, s.value, obj, s)
        return False
    if isinstance(e, ast.Call) and isinstance(e.func, ast.Name) and e.func.id == "list" and e.args:
        return _from_cursor_range(fi, e.args[0], obj, before_stmt)
    if isinstance(e, ast.Call) and isinstance(e.func, ast.Name) and e.func.id == "range" and len(e.args) == 2:
        a, b = e.args
        cur = f"{obj}.next_uid"
        if norm(a) != cur:
            return False
        return isinstance(b, ast.BinOp) and isinstance(b.op, ast.Add) and norm(b.left) == cur
    return False


def r2_2(ctx):
    p = ctx.p
    n_sites = 0
    # assignments / deletions
    for fi, n, t in _stores(p, "uids"):
        ctx.analysed(fi)
        n_sites += 1
        obj = norm(t.value) if isinstance(t, ast.Attribute) else norm(t.value.value)
        if fi.key not in UIDS_WRITERS:
            ctx.bad("R2.2", fi.module, fi.qual, norm(n), f"{fi.qual} is not one of the functions allowed to change a mailbox's UID list", n.lineno)
            continue
        ok = None
        if isinstance(n, ast.Delete):
            ok = "deletion of one position"
        elif isinstance(n, (ast.Assign, ast.AnnAssign)):
            v = n.value
            if isinstance(v, ast.List) and not v.elts:
                ok = "[]"
            elif isinstance(v, ast.Subscript) and norm(v.value) == f"{obj}.uids" and isinstance(v.slice, ast.Slice):
                ok = "slice of itself"
            elif isinstance(v, ast.IfExp) and isinstance(strip_await(v.body), ast.Call) and call_name(strip_await(v.body)) == "expand_sequence" and fi.name == "_restore_from_db":
                ok = "db restore"
            elif isinstance(v, ast.Name):
                ok = _local_list_from_cursor(fi, v.id, n)
        if ok:
            ctx.ok("R2.2", where(fi), f"{norm(n, 70)}  [{ok}]")
        else:
            ctx.bad("R2.2", fi.module, fi.qual, norm(n), "value stored into uids is not [] / a slice of itself / the db restore / drawn from next_uid before its increment", n.lineno)
    # append / extend / insert
    for fi in p.functions.values():
        for c in calls_in(fi.node):
            if call_name(c) in ("append", "extend", "insert") and isinstance(call_recv(c), ast.Attribute) and call_recv(c).attr == "uids":
                n_sites += 1
                ctx.analysed(fi)
                obj = norm(call_recv(c).value)
                par = parmap(fi)
                stmt = c
                while stmt in par and not isinstance(stmt, ast.stmt):
                    stmt = par[stmt]
                if fi.key not in UIDS_WRITERS:
                    ctx.bad("R2.2", fi.module, fi.qual, norm(c), f"{fi.qual} is not allowed to grow a mailbox's UID list", c.lineno)
                elif call_name(c) == "extend" and _from_cursor_range(fi, c.args[0], obj, stmt):
                    ctx.ok("R2.2", where(fi), f"{norm(c, 60)} extends with range(next_uid, next_uid + n)")
                else:
                    ctx.bad("R2.2", fi.module, fi.qual, norm(c), "uids grown with values that are not range(next_uid, next_uid + n)", c.lineno)
    ctx.floor("R2.2", n_sites, 8, "mutations of uids")


def _local_list_from_cursor(fi, name, at_stmt):
    """local list `name` only grows by  name.append(X.next_uid)  immediately followed by  X.next_uid += 1."""
    inits = []
    appends = []
    for n in body_walk(fi.node):
        if isinstance(n, ast.Assign) and any(isinstance(t, ast.Name) and t.id == name for t in n.targets):
            inits.append(n)
        if isinstance(n, ast.Call) and call_name(n) in ("append", "extend", "insert") and isinstance(call_recv(n), ast.Name) and call_recv(n).id == name:
            appends.append(n)
    if not inits or not all(isinstance(i.value, ast.List) and not i.value.elts for i in inits):
        return None
    if not appends:
        return None
    par = parmap(fi)
    for a in appends:
        if call_name(a) != "append" or len(a.args) != 1:
            return None
        arg = a.args[0]
        if not (isinstance(arg, ast.Attribute) and arg.attr == "next_uid"):
            return None
        stmt = a
        while not isinstance(stmt, ast.stmt):
            stmt = par[stmt]
        blk = par[stmt]
        lst = None
        for fld in ("body", "orelse"):
            l = getattr(blk, fld, None)
            if isinstance(l, list) and stmt in l:
                lst = l
        if lst is None:
            return None
        i = lst.index(stmt)
        nxt = lst[i + 1] if i + 1 < len(lst) else None
        if not (isinstance(nxt, ast.AugAssign) and norm(nxt.target) == norm(arg) and isinstance(nxt.op, ast.Add) and isinstance(nxt.value, ast.Constant) and nxt.value.value == 1):
            return None
    return f"local list filled by append({norm(appends[0].args[0])}) immediately followed by `+= 1`"


def r2_3(ctx):
    p = ctx.p
    st = _stores(p, "uid_vv")
    ctx.floor("R2.3", len(st), 5, "stores to uid_vv")
    for fi, n, t in st:
        ctx.analysed(fi)
        if fi.key not in UID_VV_WRITERS:
            ctx.bad("R2.3", fi.module, fi.qual, norm(n), f"{fi.qual} is not allowed to assign a UIDVALIDITY", n.lineno)
            continue
        form = None
        if isinstance(n, ast.Assign):
            v = strip_await(n.value)
            if isinstance(v, ast.Call) and call_name(v) == "get_next_uid_vv":
                form = "fresh value from get_next_uid_vv()"
            elif fi.name == "__init__" and isinstance(v, ast.Constant) and v.value == 0:
                form = "constructor default"
            elif fi.name == "_restore_from_db" and (isinstance(n.targets[0], ast.Tuple) or (isinstance(v, ast.Call) and isinstance(v.func, ast.Name) and v.func.id == "int" and "results" in norm(v))):
                form = "db row"
        elif isinstance(n, ast.AugAssign) and fi.name == "get_next_uid_vv":
            if isinstance(n.op, ast.Add) and isinstance(n.value, ast.Constant) and isinstance(n.value.value, int) and n.value.value > 0:
                form = "global counter += positive constant"
        if form is None and isinstance(n, ast.Assign) and fi.name == "get_next_uid_vv":
            # compute-then-store: `nxt = self.uid_vv + 1; self.uid_vv = nxt`
            v = n.value
            if isinstance(v, ast.Name):
                defs = [a for a in ast.walk(fi.node) if isinstance(a, ast.Assign) and len(a.targets) == 1 and isinstance(a.targets[0], ast.Name) and a.targets[0].id == v.id]
                if len(defs) == 1 and defs[0].lineno < n.lineno:
                    v = defs[0].value
            if isinstance(v, ast.BinOp) and isinstance(v.op, ast.Add):
                l, r = v.left, v.right
                if isinstance(l, ast.Constant):
                    l, r = r, l
                if norm(l) == norm(n.targets[0]) and isinstance(r, ast.Constant) and isinstance(r.value, int) and not isinstance(r.value, bool) and r.value > 0:
                    form = "global counter = itself + positive constant"
        if form:
            ctx.ok("R2.3", where(fi), f"{norm(n, 70)}  [{form}]")
        else:
            ctx.bad("R2.3", fi.module, fi.qual, norm(n), "UIDVALIDITY assigned from something other than get_next_uid_vv() / the db row (a re-created name could repeat an earlier UIDVALIDITY)", n.lineno)
    # get_next_uid_vv: increment, committed UPDATE, then return the new value
    gv = p.func("user_server.IMAPUserServer.get_next_uid_vv")
    g = ctx.cfg(gv)
    upd = {
        n.id for n in g.nodes
        if n.ast is not None and any(
            call_name(c) == "execute" and c.args and isinstance(c.args[0], ast.Constant) and "update user_server" in str(c.args[0].value).lower()
            and any(k.arg == "commit" and isinstance(k.value, ast.Constant) and k.value.value is True for k in c.keywords)
            for c in calls_in(n.ast)
        )
    }
    if not upd:
        # alternative: execute followed by explicit commit
        upd = {n.id for n in g.nodes if n.ast is not None and any(call_name(c) == "commit" for c in calls_in(n.ast))}
    w = flow.escapes_without(g, g.entry, lambda n: n in upd, [g.exit]) if upd else [g.entry]
    ctx.paths_explored += 1
    if w:
        ctx.bad("R2.3", gv.module, gv.qual, "UPDATE user_server ... commit=True", "get_next_uid_vv can return a new UIDVALIDITY that was not committed to user_server (after a restart the same value is issued again)", gv.node.lineno)
    else:
        ctx.ok("R2.3", where(gv), "new global uid_vv is committed (UPDATE user_server, commit) on every path before it is returned")
    # create branch of _restore_from_db and the \Noselect branch of delete draw a fresh value
    rdb = p.func("mbox.Mailbox._restore_from_db")
    ins = [n for n in body_walk(rdb.node) if isinstance(n, ast.Call) and call_name(n) == "execute" and n.args and isinstance(n.args[0], ast.Constant) and "insert into mailboxes" in str(n.args[0].value).lower()]
    ctx.require(ins, "_restore_from_db: INSERT INTO mailboxes not found")
    prev = _prev_stmts(_stmt(ins[0], rdb), rdb)
    if any(isinstance(s, ast.Assign) and norm(s.targets[0]) == "self.uid_vv" and any(call_name(c) == "get_next_uid_vv" for c in calls_in(s)) for s in prev):
        ctx.ok("R2.3", where(rdb), "create arm draws a fresh UIDVALIDITY before INSERT INTO mailboxes")
    else:
        ctx.bad("R2.3", rdb.module, rdb.qual, "INSERT INTO mailboxes", "a newly created mailbox row is inserted without a fresh UIDVALIDITY from get_next_uid_vv()", ins[0].lineno)
    dl = p.func("mbox.Mailbox.delete")
    nos = [n for n in body_walk(dl.node) if isinstance(n, ast.Call) and call_name(n) == "add" and n.args and isinstance(n.args[0], ast.Constant) and "Noselect" in str(n.args[0].value)]
    ctx.require(nos, "Mailbox.delete: \\Noselect arm not found")
    par = parmap(dl)
    blk = par[_stmt(nos[0], dl)]
    arm = blk.body if _stmt(nos[0], dl) in getattr(blk, "body", []) else getattr(blk, "orelse", [])
    if any(isinstance(s, ast.Assign) and s.targets and isinstance(s.targets[0], ast.Attribute) and s.targets[0].attr == "uid_vv" and any(call_name(c) == "get_next_uid_vv" for c in calls_in(s)) for s in arm):
        ctx.ok("R2.3", where(dl), "delete-to-\\Noselect draws a fresh UIDVALIDITY")
    else:
        ctx.bad("R2.3", dl.module, dl.qual, "\\Noselect arm", "a mailbox emptied to a \\Noselect placeholder keeps its UIDVALIDITY: re-created under the same name it would present old (UIDVALIDITY, UID) pairs for new messages", nos[0].lineno)


def _stmt(node, fi):
    par = parmap(fi)
    while not isinstance(node, ast.stmt):
        node = par[node]
    return node


COMMIT_EXEMPT = {
    "mbox.Mailbox.__init__": "in-memory defaults; Mailbox.new() restores/creates the row next",
    "user_server.IMAPUserServer.__init__": "in-memory default; new() restores it",
    "user_server.IMAPUserServer._restore_from_db": "value read from the db (insert arm commits)",
}


def _is_commit_node(n):
    a = n.ast
    if a is None or n.kind in ("with_exit", "finally", "handler", "dispatch", "join"):
        return False
    if n.kind == "with_enter":
        return False
    for c in calls_in(a):
        nm = call_name(c)
        if nm in ("commit_to_db", "commit"):
            return True
        if nm == "execute" and any(k.arg == "commit" and isinstance(k.value, ast.Constant) and k.value.value is True for k in c.keywords):
            return True
        if nm == "check_new_msgs_and_flags":
            # summary: the allocating path of the resync ends in commit_to_db (checked by R2.4 on that function)
            return False
    return False


def r2_4(ctx):
    p = ctx.p
    funcs = {}
    for attr in ("next_uid", "uids", "uid_vv"):
        for fi, n, t in _stores(p, attr):
            funcs.setdefault(fi.key, (fi, []))[1].append(n)
    for fi in p.functions.values():
        for c in calls_in(fi.node):
            if call_name(c) in ("append", "extend") and isinstance(call_recv(c), ast.Attribute) and call_recv(c).attr == "uids":
                funcs.setdefault(fi.key, (fi, []))[1].append(_stmt(c, fi))
    ctx.floor("R2.4", len(funcs), 7, "functions storing UID state")
    for key, (fi, stmts) in sorted(funcs.items()):
        if key in COMMIT_EXEMPT:
            ctx.ok("R2.4", where(fi), f"exempt: {COMMIT_EXEMPT[key]}", nontrivial=False)
            continue
        g = ctx.cfg(fi)
        commits = {n.id for n in g.nodes if _is_commit_node(n)}
        for s in stmts:
            for nid in g.nodes_for(s):
                if fi.name == "_restore_from_db" and isinstance(s, ast.Assign) and (isinstance(s.targets[0], ast.Tuple) or "expand_sequence" in norm(s.value)):
                    ctx.ok("R2.4", where(fi), f"{norm(s, 50)}: restored from the db, nothing new to persist", nontrivial=False)
                    continue
                w = flow.escapes_without(g, nid, lambda n: n in commits, [g.exit])
                ctx.paths_explored += 1
                if w:
                    ctx.bad("R2.4", fi.module, fi.qual, norm(s), "UID state is changed and the function can return without committing it to the database: after a restart the old cursor/list is used again (UID reuse)", s.lineno, flow.fmt_path(g, w))
                else:
                    ctx.ok("R2.4", where(fi), f"{norm(s, 50)} is followed by a commit on every normal path")


def r2_6(ctx):
    """What a session is *told*: every response template that names UIDNEXT / UIDVALIDITY (SELECT, STATUS, LIST-STATUS,
    APPENDUID, COPYUID) prints the mailbox's own next_uid / uid_vv attribute - the very variables R2.1-R2.4 keep monotone
    and committed - and a session that selects a mailbox is registered in its `clients` table (else it is told nothing more)."""
    from ..astutil import fstring_parts, merge_consts

    p = ctx.p
    want = {"UIDNEXT ": "next_uid", "UIDVALIDITY ": "uid_vv", "APPENDUID ": "uid_vv", "COPYUID ": "uid_vv"}
    counts = {k: 0 for k in want}
    for mod in ("mbox", "client"):
        for fi in p.funcs_in(mod):
            for n in body_walk(fi.node):
                if not isinstance(n, ast.JoinedStr):
                    continue
                parts = merge_consts(fstring_parts(n))
                for i, x in enumerate(parts):
                    if not isinstance(x, str) or i + 1 >= len(parts) or isinstance(parts[i + 1], str):
                        continue
                    for key, attr in want.items():
                        if x.endswith(key) or x.endswith("[" + key):
                            counts[key] += 1
                            ctx.analysed(fi)
                            h = parts[i + 1]
                            if isinstance(h, ast.Attribute) and h.attr == attr:
                                ctx.ok("R2.6", where(fi), f"`{key.strip()} {{{norm(h)}}}`", nontrivial=False)
                            else:
                                ctx.bad("R2.6", fi.module, fi.qual, f"{key.strip()} {{{norm(h, 40)}}}", f"the {key.strip()} a client is told is `{norm(h, 40)}`, not the mailbox's `{attr}`: the value reported is not the one whose monotonicity / persistence is maintained", n.lineno)
    for key, nmin in (("UIDNEXT ", 3), ("UIDVALIDITY ", 3), ("APPENDUID ", 1), ("COPYUID ", 1)):
        ctx.floor("R2.6", counts[key], nmin, f"response templates naming {key.strip()}")
    sel = p.func("mbox.Mailbox.selected")
    ctx.analysed(sel)
    from .common import pm_of
    if pm_of(p, sel).has("self.clients[client.name] = client"):
        ctx.ok("R2.6", where(sel), "the selecting session is registered in the mailbox's clients table")
    else:
        ctx.bad("R2.6", sel.module, sel.qual, "self.clients[client.name] = client", "a session that selects the mailbox is no longer registered with it: it is never told about new messages, expunges or flag changes", sel.node.lineno)


def r2_7(ctx):
    """An allocator hands out the value *it* computed.  `self.counter += 1; await <store it>; return self.counter` re-reads the
    shared counter after a suspension point: every caller that drew a value while this one waited for the database has
    advanced it, and all of them return the last one - several mailboxes created at the same moment (the folder scan
    activates new folders concurrently) share one UIDVALIDITY.  So: a function that advances an attribute of `self` and then
    awaits does not return (a value read from) that attribute afterwards; it returns a local it bound before the await."""
    p = ctx.p
    n = 0
    for fi in list(p.funcs_in("user_server")) + list(p.funcs_in("mbox")):
        if not isinstance(fi.node, ast.AsyncFunctionDef):
            continue
        incs = []
        for w in body_walk(fi.node):
            if isinstance(w, ast.AugAssign) and isinstance(w.target, ast.Attribute) and isinstance(w.target.value, ast.Name) and w.target.value.id == "self":
                incs.append((w, norm(w.target)))
            elif isinstance(w, ast.Assign) and len(w.targets) == 1 and isinstance(w.targets[0], ast.Attribute) and isinstance(w.targets[0].value, ast.Name) and w.targets[0].value.id == "self" and norm(w.targets[0]) in norm(w.value) and isinstance(w.value, ast.BinOp):
                incs.append((w, norm(w.targets[0])))
        if not incs:
            continue
        g = None
        for w, tgt in incs:
            rets = [r for r in body_walk(fi.node) if isinstance(r, ast.Return) and r.value is not None and any(isinstance(x, ast.Attribute) and norm(x) == tgt for x in ast.walk(r.value))]
            if not rets:
                continue
            g = g or ctx.cfg(fi)
            ctx.analysed(fi)
            wn = [x for x in g.nodes_for(w) if g.nodes[x].kind == "stmt"]
            ctx.require(wn, f"{fi.qual}: CFG node of `{norm(w)}` not found")
            for r in rets:
                n += 1
                rn = [x for x in g.nodes_for(r)]
                reach_all = flow.reach(g, [wn[0]], flow.NORMAL)
                quiet = flow.reach(g, [wn[0]], flow.NORMAL, avoid=lambda x: g.nodes[x].awaits and x != wn[0])
                if rn and rn[0] in reach_all and rn[0] not in quiet:
                    ctx.bad("R2.7", fi.module, fi.qual, f"{norm(w)} ... await ... {norm(r)}", f"{fi.name}() advances `{tgt}`, suspends, and then returns `{tgt}` as it is after the suspension: callers that ran in between have advanced it too, and all of them get the same (last) value - e.g. the same UIDVALIDITY for mailboxes created at the same moment", r.lineno)
                else:
                    ctx.ok("R2.7", where(fi), f"`{tgt}` is not re-read after a suspension point for the value handed out")
    # the allocator itself: binds the new value to a local before it awaits, stores and returns that local
    from .common import pm_of
    al = p.func("user_server.IMAPUserServer.get_next_uid_vv")
    ctx.analysed(al)
    pa = pm_of(p, al)
    if any(pa.has(x) for x in (
        "self.uid_vv += 1\nuid_vv = self.uid_vv\nawait self.db.execute('UPDATE user_server SET uid_vv = ?', (str(uid_vv),), commit=True)\nreturn uid_vv",
        "uid_vv = self.uid_vv + 1\nself.uid_vv = uid_vv\nawait self.db.execute('UPDATE user_server SET uid_vv = ?', (str(uid_vv),), commit=True)\nreturn uid_vv",
    )):
        ctx.ok("R2.7", where(al), "get_next_uid_vv: advance, bind to a local, persist that local, return that local")
    elif not any(f.rule == "R2.7" for f in ctx.findings):
        ctx.bad("R2.7", al.module, al.qual, "uid_vv = self.uid_vv (before the await) ... return uid_vv", "get_next_uid_vv no longer hands out the value it computed before it suspended", al.node.lineno)


def run(ctx):
    ctx.do(r2_1)
    ctx.do(r2_2)
    ctx.do(r2_3)
    ctx.do(r2_4)
    ctx.do(r2_6)
    ctx.do(r2_7)
    from . import c03, c05, c13
    ctx.do(c03.r3_1_2)
    ctx.do(c03.r3_5)
    ctx.do(c05.r5_6)
    ctx.do(c13.r13_5)
    from . import c16 as _c16
    ctx.do(_c16.r16_5)  # COPYUID reports the UID looked up for each added key
    from . import c03 as _c03b
    ctx.do(_c03b.r3_7)  # the reverse indexes every UID look-up goes through are rebuilt whenever the lists change
    from . import c12 as _c12
    ctx.do(_c12.r12_8)  # a mailbox's row (UIDVALIDITY, next_uid, UIDs) is touched through its exact key only
    from . import c11 as _c11
    ctx.do(_c11.r11_9)
    from . import c04 as _c04u
    ctx.do(_c04u.r4_9)  # APPENDUID reports the UID that was assigned (not the MH key)
    for k, v in NEXT_UID_WRITERS.items():
        ctx.trust(f"frozen next_uid writer: {k} - {v}")
    for k, v in COMMIT_EXEMPT.items():
        ctx.trust(f"frozen commit exemption: {k} - {v}")
