"""C03 - a UID always names the same message.

 R3.1 msg_keys / uids are mutated pairwise (same shape, same index) in every function
 R3.2 the reverse indexes are rebuilt after the last mutation on every normal path
 R3.3 folder packing happens only when no command is admitted, and only in _pack_if_necessary
 R3.5 pack protocol: write sequences, pack, re-read keys and sequences, rebuild, uids untouched
"""
from __future__ import annotations

import ast

from .. import flow
from ..astutil import (
    assigned_targets,
    body_walk,
    call_name,
    call_recv,
    calls_in,
    norm,
    strip_await,
    walk_no_nested,
)
from .common import parmap, where

PROP = "C03"
EXPLANATION = (
    "The binding between a UID and a message is purely positional (msg_keys[i] <-> uids[i]) plus two reverse lookup "
    "dictionaries. Decided: (R3.1) in every function that mutates one of the two lists of a mailbox object the other "
    "list receives the mutation of the same shape at the same index on that object (exception table with reasons: "
    "_pack_if_necessary, _restore_from_db); (R3.2) after the last mutation of either list the same object's "
    "_rebuild_index_dicts() is reached on every normal path before the function returns; (R3.3) _pack_if_necessary is "
    "called only from management_task, before the loop or under `not self.executing_tasks`, and MH.pack() is called "
    "nowhere else; (R3.5) inside _pack_if_necessary the order write-sequences -> pack -> re-read keys -> re-read "
    "sequences -> rebuild holds under mh_sequences_lock and uids is not stored. Decides these clauses, not that "
    "content fetched by UID is byte-identical over time."
)
RULE_TEXT = (
    "instances: every mutation (assignment, del, append/extend/insert, slice store) of an attribute named msg_keys or "
    "uids, grouped by function and by receiver object; every call of _pack_if_necessary / pack; non-trivial = needed a "
    "CFG must-pass-through or dominance query"
)
ASSUMPTIONS = [
    "mailbox.MH.pack() preserves order and count of messages (stdlib contract)",
    "not decided: identity of message content per UID across pack/rename/restart",
]
LEVEL_TEXT = (
    "Static pairing / must-pass-through rules over every mutation of the two positional lists and their reverse "
    "indexes: a UID can come to name another message only through an unpaired mutation, a stale reverse index or a "
    "pack while commands hold sequence numbers - all three are shapes of the code. Content identity is not decided."
)
LEVEL_NOTE = "Structural clauses only; exception table in asv/rules/c03.py. Trusted: CPython ast; stdlib MH.pack contract."
TECHNIQUE = "pairwise-mutation sibling check + CFG must-pass-through(rebuild) + who-may-call(pack)"
DESIGN_REF = "DESIGN.md section 3 / C03"

PAIR_EXEMPT = {
    "mbox.Mailbox._pack_if_necessary": "keys are renumbered by MH.pack (order and count preserved); uids deliberately kept",
    "mbox.Mailbox._restore_from_db": "both lists restored from the row; migration arm truncates keys to len(uids)",
    "mbox.Mailbox.__init__": "both start empty",
    "mbox.Mailbox.delete": "the folder was just emptied (aclear) and the mailbox becomes \\Noselect or is removed; "
    "no command can address its messages any more and the reconcile's length-mismatch arm resets both lists and rebuilds "
    "the indexes if the name is created again (checked: no input reaches the stale lists)",
}
REBUILD_EXEMPT = {
    "mbox.Mailbox.__init__": "lists and both dictionaries start empty",
    "mbox.Mailbox.delete": PAIR_EXEMPT["mbox.Mailbox.delete"],
}


def list_mutations(fi):
    """[(stmt_or_call, objtext, attr, shape, indextext)] for msg_keys / uids."""
    out = []
    for n in body_walk(fi.node):
        if isinstance(n, (ast.Assign, ast.AnnAssign, ast.AugAssign, ast.Delete)):
            for t in assigned_targets(n):
                idx = ""
                base = t
                if isinstance(base, ast.Subscript):
                    idx = norm(base.slice)
                    base = base.value
                if isinstance(base, ast.Attribute) and base.attr in ("msg_keys", "uids"):
                    if isinstance(n, ast.Delete):
                        shape = "del[]"
                    elif isinstance(t, ast.Subscript):
                        shape = "store[]"
                    else:
                        v = getattr(n, "value", None)
                        if isinstance(v, ast.List) and not v.elts:
                            shape = "=[]"
                        elif isinstance(v, ast.Subscript) and norm(v.value) == norm(base):
                            shape = "=self-slice"
                        else:
                            shape = "=list"
                    out.append((n, norm(base.value), base.attr, shape, idx))
        elif isinstance(n, ast.Call) and call_name(n) in ("append", "extend", "insert", "pop", "remove", "clear", "sort", "reverse"):
            r = call_recv(n)
            if isinstance(r, ast.Attribute) and r.attr in ("msg_keys", "uids"):
                out.append((n, norm(r.value), r.attr, call_name(n), ""))
    return out


def _stmt(node, fi):
    par = parmap(fi)
    while not isinstance(node, ast.stmt):
        node = par[node]
    return node


def r3_1_2(ctx):
    p = ctx.p
    per_fn = {}
    for fi in p.functions.values():
        muts = list_mutations(fi)
        if muts:
            per_fn[fi.key] = (fi, muts)
    ctx.floor("R3.1", len(per_fn), 6, "functions mutating msg_keys/uids")
    for key, (fi, muts) in sorted(per_fn.items()):
        ctx.analysed(fi)
        objs = sorted({m[1] for m in muts})
        for obj in objs:
            def _realign(m):
                # `x.uids = x.uids[-len(x.msg_keys):]` - documented repair that re-aligns the lengths
                st = m[0]
                return m[3] == "=self-slice" and isinstance(st, ast.Assign) and f"len({obj}.msg_keys)" in norm(st.value) or (
                    m[3] == "=self-slice" and isinstance(st, ast.Assign) and f"len({obj}.uids)" in norm(st.value))

            mk = sorted((m[3], m[4]) for m in muts if m[1] == obj and m[2] == "msg_keys" and not _realign(m))
            ud = sorted((m[3], m[4]) for m in muts if m[1] == obj and m[2] == "uids" and not _realign(m))
            # ---- R3.1
            if key in PAIR_EXEMPT:
                ctx.ok("R3.1", where(fi), f"{obj}: exempt - {PAIR_EXEMPT[key]}", nontrivial=False)
            elif mk == ud:
                ctx.ok("R3.1", where(fi), f"{obj}: msg_keys and uids mutated pairwise {mk}")
            else:
                only_mk = [x for x in mk if x not in ud]
                only_ud = [x for x in ud if x not in mk]
                first = [m for m in muts if m[1] == obj][0][0]
                ctx.bad(
                    "R3.1", fi.module, fi.qual, f"{obj}: msg_keys{only_mk} vs uids{only_ud}",
                    f"{obj}.msg_keys and {obj}.uids are not mutated pairwise in this function (msg_keys only: {only_mk}; "
                    f"uids only: {only_ud}): positions no longer correspond, so a UID names another message",
                    first.lineno,
                )
            # ---- R3.2
            if key in REBUILD_EXEMPT:
                ctx.ok("R3.2", where(fi), f"{obj}: exempt - {REBUILD_EXEMPT[key]}", nontrivial=False)
                continue
            g = ctx.cfg(fi)
            rebuild = {
                n.id for n in g.nodes
                if n.ast is not None and n.kind in ("stmt", "return") and any(
                    call_name(c) == "_rebuild_index_dicts" and norm(call_recv(c)) == obj for c in calls_in(n.ast)
                )
            }
            bad_m = None
            for m in muts:
                if m[1] != obj:
                    continue
                st = _stmt(m[0], fi)
                for nid in g.nodes_for(st):
                    w = flow.escapes_without(g, nid, lambda n: n in rebuild, [g.exit])
                    ctx.paths_explored += 1
                    if w and bad_m is None:
                        bad_m = (m, w)
            if bad_m:
                m, w = bad_m
                ctx.bad(
                    "R3.2", fi.module, fi.qual, f"{obj}: {norm(_stmt(m[0], fi), 80)}",
                    f"{obj}.{m[2]} is changed and the function can return without {obj}._rebuild_index_dicts(): the "
                    "reverse indexes (_uid_to_idx/_msg_key_to_idx) stay stale and UID->sequence/key lookups hit other "
                    "messages or raise",
                    m[0].lineno, flow.fmt_path(g, w),
                )
            else:
                ctx.ok("R3.2", where(fi), f"{obj}: every mutation is followed by {obj}._rebuild_index_dicts() on all normal paths")
            # ---- R3.2b: ... and on the way out through a suspension point.  A command is cancelled by its watchdog, a file
            # operation fails: the exception leaves from an `await`.  If the lists were changed before it and the rebuild lies
            # behind it, the indexes stay stale for good (the resync sees lists that agree with the folder and repairs nothing).
            def _exc_edge_ok(e, g=g):
                if e.label in flow.NORMAL:
                    return True
                return g.nodes[e.src].awaits or g.nodes[e.src].kind in ("handler", "raise") or e.label in ("catch", "uncaught", "uncaught_base")

            bad_x = None
            for m in muts:
                if m[1] != obj:
                    continue
                st = _stmt(m[0], fi)
                for nid in g.nodes_for(st):
                    w = flow.escapes_without(g, nid, lambda n: n in rebuild, [g.raise_exit], labels=flow.ALL, edge_ok=_exc_edge_ok)
                    ctx.paths_explored += 1
                    if w and bad_x is None:
                        bad_x = (m, w)
            if bad_x:
                m, w = bad_x
                ctx.bad(
                    "R3.2", fi.module, fi.qual, f"{obj}: {norm(_stmt(m[0], fi), 80)} then an await that raises",
                    f"{obj}.{m[2]} is changed and an exception leaving a later suspension point (the command's time-out, a failed file "
                    f"operation) takes the function out past {obj}._rebuild_index_dicts(): the reverse indexes keep the old positions, every "
                    "later UID / key look-up hits another message, and no resync repairs it",
                    m[0].lineno, flow.fmt_path(g, w),
                )
            else:
                ctx.ok("R3.2", where(fi), f"{obj}: no exception from a suspension point behind a mutation by-passes the rebuild")
    # _rebuild_index_dicts itself builds both maps from enumerate() of the respective list
    rb = p.func("mbox.Mailbox._rebuild_index_dicts")
    ctx.analysed(rb)
    want = {"_msg_key_to_idx": "msg_keys", "_uid_to_idx": "uids"}
    got = {}
    for s in body_walk(rb.node):
        if isinstance(s, ast.Assign) and isinstance(s.targets[0], ast.Attribute) and isinstance(s.value, ast.DictComp):
            dc = s.value
            gen = dc.generators[0]
            it = gen.iter
            if isinstance(it, ast.Call) and isinstance(it.func, ast.Name) and it.func.id == "enumerate" and isinstance(it.args[0], ast.Attribute):
                tg = gen.target
                if isinstance(tg, ast.Tuple) and len(tg.elts) == 2 and norm(dc.key) == norm(tg.elts[1]) and norm(dc.value) == norm(tg.elts[0]):
                    got[s.targets[0].attr] = it.args[0].attr
    if got == want:
        ctx.ok("R3.2", where(rb), "_rebuild_index_dicts maps element -> position for both lists")
    else:
        ctx.bad("R3.2", rb.module, rb.qual, str(got), "_rebuild_index_dicts no longer maps each list's elements to their positions", rb.node.lineno)


def r3_3(ctx):
    p = ctx.p
    callers = []
    for fi in p.functions.values():
        for c in calls_in(fi.node):
            if call_name(c) == "_pack_if_necessary":
                callers.append((fi, c))
    ctx.floor("R3.3", len(callers), 2, "calls of _pack_if_necessary")
    for fi, c in callers:
        ctx.analysed(fi)
        if fi.key != "mbox.Mailbox.management_task":
            ctx.bad("R3.3", fi.module, fi.qual, norm(c), "_pack_if_necessary called outside the management task: commands holding sequence numbers / message keys may be running", c.lineno)
            continue
        par = parmap(fi)
        in_loop = False
        guarded = False
        cur = c
        while cur in par:
            pr = par[cur]
            if isinstance(pr, (ast.While, ast.For, ast.AsyncFor)):
                in_loop = True
            if isinstance(pr, ast.If) and cur in pr.body:
                t = pr.test
                if isinstance(t, ast.UnaryOp) and isinstance(t.op, ast.Not) and norm(t.operand) == "self.executing_tasks":
                    guarded = True
            cur = pr
        if not in_loop:
            ctx.ok("R3.3", where(fi), f"pack @{c.lineno} before the command loop starts")
        elif guarded:
            ctx.ok("R3.3", where(fi), f"pack @{c.lineno} under `if not self.executing_tasks`")
        else:
            ctx.bad("R3.3", fi.module, fi.qual, norm(c), "pack inside the command loop is not guarded by `not self.executing_tasks`: files are renumbered under running commands", c.lineno)
    packs = [(fi, c) for fi in p.functions.values() for c in calls_in(fi.node) if call_name(c) == "pack" and fi.module != "hashers"]
    ctx.floor("R3.3", len(packs), 1, "MH.pack() calls")
    for fi, c in packs:
        if fi.key == "mbox.Mailbox._pack_if_necessary":
            ctx.ok("R3.3", where(fi), "MH.pack() only inside _pack_if_necessary", nontrivial=False)
        elif "struct" in norm(c.func):
            continue
        else:
            ctx.bad("R3.3", fi.module, fi.qual, norm(c), "MH.pack() called outside _pack_if_necessary", c.lineno)


def r3_5(ctx):
    p = ctx.p
    fi = p.func("mbox.Mailbox._pack_if_necessary")
    ctx.analysed(fi)
    order = []
    for n in body_walk(fi.node):
        if isinstance(n, ast.Call):
            nm = call_name(n)
            if nm in ("set_sequences_in_folder", "pack", "get_sequences_from_folder", "_rebuild_index_dicts", "commit_to_db"):
                order.append((n.lineno, n.col_offset, nm))
        if isinstance(n, ast.Assign) and any(norm(t) == "self.msg_keys" for t in n.targets):
            order.append((n.lineno, 0, "reread_keys:" + ("iterkeys" if ("iterkeys" in norm(n.value) or "keys()" in norm(n.value)) else "?")))
        if isinstance(n, (ast.Assign, ast.AugAssign, ast.Delete)) and any("self.uids" in norm(t) for t in assigned_targets(n)):
            order.append((n.lineno, 0, "STORE_UIDS"))
    seq = [x[2] for x in sorted(order)]
    want = ["set_sequences_in_folder", "pack", "reread_keys:iterkeys", "get_sequences_from_folder", "_rebuild_index_dicts", "commit_to_db"]
    # subsequence check
    it = iter(seq)
    ok = all(any(x == w for x in it) for w in want)
    if ok and "STORE_UIDS" not in seq:
        ctx.ok("R3.5", where(fi), "pack protocol order: " + " -> ".join(want))
    else:
        ctx.bad("R3.5", fi.module, fi.qual, " -> ".join(seq), "pack protocol broken (expected write sequences -> pack -> re-read keys -> re-read sequences -> rebuild indexes -> commit, uids untouched): after renumbering, keys/flags/indexes refer to other files", fi.node.lineno)
    # sequences must be re-read into self.sequences
    if any(isinstance(n, ast.Assign) and norm(n.targets[0]) == "self.sequences" and "get_sequences_from_folder" in norm(n.value) for n in body_walk(fi.node)):
        ctx.ok("R3.5", where(fi), "self.sequences re-read from the renumbered .mh_sequences")
    else:
        ctx.bad("R3.5", fi.module, fi.qual, "self.sequences = self.get_sequences_from_folder()", "after pack the in-memory sequences still hold pre-pack message numbers", fi.node.lineno)


def r3_5b(ctx):
    """A pack renumbers every message file; it keeps the UID list as it is, position by position.  That is sound only for a
    folder whose files are exactly the messages the mailbox knows: a file delivered since the last look would be swept into
    `msg_keys` without a UID (EXISTS counts one more than can be addressed, and the next resync re-numbers every UID).  So
    wherever the management task packs, it has just reconciled the folder and found nothing new: `_pack_if_necessary()` is
    reached only through `check_new_msgs_and_flags()` having returned false."""
    p = ctx.p
    n = 0
    for fi in p.funcs_in("mbox"):
        packs = [c for c in calls_in(fi.node) if call_name(c) == "_pack_if_necessary"]
        if not packs or fi.name == "_pack_if_necessary":
            continue
        ctx.analysed(fi)
        g = ctx.cfg(fi)
        par = parmap(fi)
        for c in packs:
            n += 1
            cur, in_loop = c, False
            while cur in par:
                cur = par[cur]
                if isinstance(cur, (ast.While, ast.For, ast.AsyncFor)):
                    in_loop = True
            if not in_loop:
                # start-up: Mailbox.new() reconciles the folder immediately before it starts this task
                ctx.ok("R3.5", where(fi), "start-up pack (before the command loop): the folder was reconciled by Mailbox.new() just before the task was started", nontrivial=False)
                continue
            pn = [x.id for x in g.nodes if x.ast is not None and x.kind == "stmt" and any(y is c for y in ast.walk(x.ast))]
            ctx.require(pn, f"{fi.qual}: CFG node of the pack call not found")
            resync = {x.id for x in g.nodes if x.ast is not None and x.kind == "stmt" and any(call_name(y) == "check_new_msgs_and_flags" for y in calls_in(x.ast))}
            # the variable the resync's verdict is kept in
            rv = {norm(g.nodes[r].ast.targets[0]) for r in resync if isinstance(g.nodes[r].ast, ast.Assign)}
            hit = flow.feasible_paths_exist(
                g, g.entry, set(pn), lambda e: "changed" if isinstance(e, ast.Name) and e.id in rv else None, labels=flow.ALL,  # the idle chores run in the `except TimeoutError` arm
                kills=lambda m: {"changed"} if m in resync else set(), gens=lambda m: {"resynced": True} if m in resync else {},
                accept=lambda m, f: not (f.get("resynced") is True and f.get("changed") is False),
            ) if True else None
            ctx.paths_explored += 1
            ctx.require(pn[0] in flow.reach(g, [g.entry], flow.ALL), f"{fi.qual}: the pack call is not reachable in the CFG")
            if hit is None:
                ctx.ok("R3.5", where(fi), "the folder is packed only right after a resync that found nothing new")
            else:
                ctx.bad("R3.5", fi.module, fi.qual, "_pack_if_necessary() not behind `changed = await check_new_msgs_and_flags(); if not changed`", "the folder can be packed without having been reconciled first (or although the reconcile found changes): a message delivered since the last look is renumbered into msg_keys without a UID - EXISTS counts a message nobody can address, and the next resync gives every message a new UID under the same UIDVALIDITY", c.lineno, flow.fmt_path(g, hit[0]))
    ctx.floor("R3.5b", n, 1, "places that pack the folder")


def r3_7(ctx):
    """_rebuild_index_dicts() is the one place the reverse indexes (key -> position, UID -> position) are made to agree with
    the lists.  Callers invoke it after every kind of change - also after changes that keep the lengths (a pack renumbers
    every key; a reset and refill) - so it rebuilds both maps from the lists unconditionally: no early return, no test."""
    from .common import pm_of
    p = ctx.p
    fi = p.func("mbox.Mailbox._rebuild_index_dicts")
    ctx.analysed(fi)
    body = [s for s in fi.node.body if not (isinstance(s, ast.Expr) and isinstance(s.value, ast.Constant))]
    cond = [x for x in body_walk(fi.node) if isinstance(x, (ast.If, ast.Return, ast.While, ast.Try, ast.Raise)) and not (isinstance(x, ast.Return) and x is body[-1] and x.value is None)]
    pm = pm_of(p, fi)
    both = pm.has("self._msg_key_to_idx = {k: i for i, k in enumerate(self.msg_keys)}") and pm.has("self._uid_to_idx = {u: i for i, u in enumerate(self.uids)}")
    if both and not cond:
        ctx.ok("R3.7", where(fi), "both reverse indexes are rebuilt from the lists, unconditionally")
    elif cond:
        ctx.bad("R3.7", fi.module, fi.qual, norm(cond[0], 80), "_rebuild_index_dicts() does not always rebuild: a change that keeps the lengths (a pack renumbers every key) leaves the key -> position map pointing at the old keys - EXPUNGE / QUIT then skip or remove the wrong list entries, FETCH reports another message's number", cond[0].lineno)
    else:
        ctx.bad("R3.7", fi.module, fi.qual, "{k: i for i, k in enumerate(self.msg_keys)} / {u: i for i, u in enumerate(self.uids)}", "_rebuild_index_dicts() no longer maps every key and every UID to its position in the lists", fi.node.lineno)


def r3_6(ctx):
    """msg_keys and uids are parallel lists: position i of one belongs to position i of the other.  Readers that are not queued
    behind the mailbox's commands (POP3 reads, the resync, get_msg_by_uid's staleness guard compares only `uids`) run whenever
    the writer is suspended.  So an element is removed from both lists with no suspension point in between - a removal from one
    list followed by an `await` leaves every later position of the other list naming the next message."""
    p = ctx.p
    n = 0
    for fi in p.funcs_in("mbox"):
        # a removal by position: `del self.uids[i]` or `self.uids.pop(i)` (as a statement or as the value of an assignment)
        dels = []
        for s in body_walk(fi.node):
            if isinstance(s, ast.Delete) and len(s.targets) == 1 and isinstance(s.targets[0], ast.Subscript) and norm(s.targets[0].value) in ("self.msg_keys", "self.uids"):
                dels.append((s, norm(s.targets[0].value), norm(s.targets[0].slice)))
            elif isinstance(s, (ast.Expr, ast.Assign)) and isinstance(s.value, ast.Call) and call_name(s.value) == "pop" and len(s.value.args) == 1 and norm(call_recv(s.value)) in ("self.msg_keys", "self.uids"):
                dels.append((s, norm(call_recv(s.value)), norm(s.value.args[0])))
        if not dels:
            continue
        ctx.analysed(fi)
        g = ctx.cfg(fi)
        by = {}
        for d, lst, idx in dels:
            by.setdefault(idx, {}).setdefault(lst, d)
        for idx, pair in sorted(by.items()):
            n += 1
            if len(pair) < 2:
                only = next(iter(pair.values()))
                ctx.bad("R3.6", fi.module, fi.qual, norm(only), f"position `{idx}` is removed from {next(iter(pair))} but not from its parallel list: every later UID names the next message", only.lineno)
                continue
            na = [x for x in g.nodes_for(pair["self.msg_keys"]) if g.nodes[x].kind == "stmt"]
            nb = [x for x in g.nodes_for(pair["self.uids"]) if g.nodes[x].kind == "stmt"]
            ctx.require(na and nb, f"{fi.qual}: CFG nodes of the paired deletions not found")
            first, second = (na[0], nb[0]) if nb[0] in flow.reach(g, [na[0]], flow.NORMAL) else (nb[0], na[0])
            quiet = flow.reach(g, [first], flow.NORMAL, avoid=lambda x: g.nodes[x].awaits and x != first)
            ctx.paths_explored += 1
            skipped = flow.escapes_without(g, first, lambda x: x == second, [g.exit])
            if second in quiet and skipped is None:
                ctx.ok("R3.6", where(fi), f"msg_keys[{idx}] and uids[{idx}] are removed together, no suspension point in between")
            else:
                ctx.bad("R3.6", fi.module, fi.qual, f"del self.msg_keys[{idx}] ... del self.uids[{idx}]", "the two parallel lists are not shortened in one await-free step: while the task is suspended between the two deletions msg_keys and uids are misaligned, and a reader that runs then (POP3 RETR/TOP/LIST, a snapshot taken at login) gets the next message under this UID", pair["self.uids"].lineno)
    # ... and they grow in one await-free step as well: a shutdown (or any reader) that runs while one list has the new
    # entries and the other has not persists / sees lists of different lengths - the restart "repairs" that by truncating
    # the UID list from the front, which shifts every UID
    for fi in p.funcs_in("mbox"):
        grows = {}
        for s_ in body_walk(fi.node):
            if isinstance(s_, ast.Expr) and isinstance(s_.value, ast.Call) and call_name(s_.value) in ("extend", "append") and norm(call_recv(s_.value)) in ("self.msg_keys", "self.uids"):
                grows.setdefault(norm(call_recv(s_.value)), []).append(s_)
        if len(grows) < 2:
            continue
        ctx.analysed(fi)
        g = ctx.cfg(fi)
        a = [x for x in g.nodes_for(grows["self.msg_keys"][0]) if g.nodes[x].kind == "stmt"]
        b = [x for x in g.nodes_for(grows["self.uids"][0]) if g.nodes[x].kind == "stmt"]
        ctx.require(a and b, f"{fi.qual}: CFG nodes of the paired extensions not found")
        first, second = (a[0], b[0]) if b[0] in flow.reach(g, [a[0]], flow.NORMAL) else (b[0], a[0])
        quiet = flow.reach(g, [first], flow.NORMAL, avoid=lambda x: g.nodes[x].awaits and x != first)
        n += 1
        if second in quiet:
            ctx.ok("R3.6", where(fi), "msg_keys and uids are extended together, no suspension point in between")
        else:
            ctx.bad("R3.6", fi.module, fi.qual, "self.uids.extend(...) ... await ... self.msg_keys.extend(...)", "the two parallel lists are not extended in one await-free step: a shutdown that lands in between commits lists of different lengths, and the restart's repair (drop UIDs from the front) gives every known message another UID", grows["self.msg_keys"][0].lineno)
    ctx.floor("R3.6", n, 2, "paired removals from / extensions of msg_keys and uids")


def run(ctx):
    ctx.do(r3_1_2)
    ctx.do(r3_3)
    ctx.do(r3_5)
    ctx.do(r3_5b)
    ctx.do(r3_6)
    ctx.do(r3_7)
    from . import c10, c12
    ctx.do(c10.r10_3)
    ctx.do(c10.r10_4)
    ctx.do(c10.r10_4_units)
    ctx.do(c12.r12_1)
    from . import c13, c15
    ctx.do(c13.r13_5)
    ctx.do(c15.r15_3)
    from . import c16 as _c16
    ctx.do(_c16.r16_5)  # COPY/MOVE report the UID of the key they read, looked up while it is read
    from . import c15 as _c15b
    ctx.do(_c15b.r15_4)  # a UID set denotes the UIDs it names, nothing else
    ctx.do(_c15b.r15_5)
    from . import c12 as _c12b
    ctx.do(_c12b.r12_8)  # two mailboxes never share (or lose) the row that holds their UIDs
    from . import c01 as _c01g
    ctx.do(_c01g.r1_2)  # a number sent before an EXPUNGE was announced is not resolved against the list after it
    for k, v in PAIR_EXEMPT.items():
        ctx.trust(f"frozen pairing exemption: {k} - {v}")
