"""C12 - an orderly restart changes nothing a client can see.

 R12.1 positional agreement between SQL column lists and the Python tuples bound to / unpacked from them
 R12.2 codec pairing (compact_sequence <-> expand_sequence, join <-> split, int <-> bool)
 R12.3 every client-visible persistent field is written by commit_to_db and read back by _restore_from_db
 R12.4 the orderly shutdown path reaches a commit of every active mailbox
"""
from __future__ import annotations

import ast
import re

from .. import flow
from ..astutil import atom_polarity, body_walk, call_name, call_recv, calls_in, kwarg, norm, strip_await
from .common import parmap, where

PROP = "C12"
EXPLANATION = (
    "Writer/reader agreement of the persistence code, two finite artefacts compared completely: (R12.1) the column list of "
    "`UPDATE mailboxes SET ...` in commit_to_db is matched term by term with the values tuple (column c is bound to "
    "self.<c> or its encoder), the `SELECT ... FROM mailboxes` in _restore_from_db is matched position by position with "
    "the tuple-unpack targets, likewise INSERT INTO mailboxes, the sequences INSERT/upsert/SELECT; (R12.2) a field written "
    "through compact_sequence is read through expand_sequence (uids, msg_keys, each sequences.sequence), "
    "','.join(attributes) pairs with set(x.split(',')), subscribed is re-booleaned; (R12.3) every field of the frozen "
    "table of client-visible mailbox state is among the columns written and among those read back; (R12.4) "
    "IMAPUserServer.shutdown reaches mbox.shutdown() for every active mailbox, Mailbox.shutdown reaches commit_to_db when "
    "commit_db is true (its default), the server then commits and closes the db, and run() reaches shutdown() in a finally. "
    "Decides agreement of the two tables, not expand(compact(x)) == x on values nor the mtime short-cut."
)
RULE_TEXT = "instances: each (column, bound expression) and (column, unpack target) pair; each codec pair; each persistent field; each hop of the shutdown path"
ASSUMPTIONS = ["SQL statements are string constants in the source (checked: otherwise ANALYSIS-ERROR)", "not decided: value-level round trip of the range codec; mtime short-cut"]
LEVEL_TEXT = (
    "Static table agreement between SQL constants and the tuples bound to / unpacked from them, codec pairing and "
    "field coverage, plus a must-pass-through check of the orderly shutdown path. Exhaustive over the (finite) column "
    "lists; value-level round trip of the codecs is not decided."
)
LEVEL_NOTE = "Structural clauses only. Trusted: CPython ast; SQL read by a small regex tokenizer (fails closed)."
TECHNIQUE = "writer/reader table agreement over SQL constants + CFG must-pass-through on the shutdown path"
DESIGN_REF = "DESIGN.md section 3 / C12"

PERSISTENT_FIELDS = {
    "uid_vv": "UIDVALIDITY shown by SELECT/STATUS",
    "next_uid": "UIDNEXT",
    "uids": "UID of every message",
    "msg_keys": "order of messages / binding to files",
    "attributes": "\\Noselect, \\HasChildren, \\Marked ... shown by LIST",
    "subscribed": "LSUB",
    "num_msgs": "MESSAGES of STATUS",
    "num_recent": "RECENT of STATUS",
    "mtime": "decides whether activation rescans",
}


def _sql_of(call):
    a = call.args[0] if call.args else None
    if isinstance(a, ast.Constant) and isinstance(a.value, str):
        return " ".join(a.value.split())
    if isinstance(a, ast.JoinedStr):
        return " ".join("".join(v.value if isinstance(v, ast.Constant) else "?" for v in a.values).split())
    return None


def _tuple_of(fi, expr):
    expr = strip_await(expr)
    if isinstance(expr, ast.Tuple):
        return list(expr.elts)
    if isinstance(expr, ast.Name):
        for s in body_walk(fi.node):
            if isinstance(s, ast.Assign) and norm(s.targets[0]) == expr.id and isinstance(s.value, ast.Tuple):
                return list(s.value.elts)
    return None


def _binds(col, e):
    """Does expression e bind column col?  self.<col>, encoder(self.<col>), or a local named col / derived."""
    t = norm(e, 200)
    if re.search(rf"\bself\.{col}\b", t):
        return True
    if isinstance(e, ast.Name) and e.id == col:
        return True
    return False


def r12_1(ctx):
    p = ctx.p
    ctx.exhaustive_rules.add("R12.1")
    cd = p.func("mbox.Mailbox.commit_to_db")
    rd = p.func("mbox.Mailbox._restore_from_db")
    ctx.analysed(cd)
    ctx.analysed(rd)
    written, read = set(), set()
    # --- UPDATE mailboxes SET a=?, b=? ... WHERE id=?
    upd = [c for c in calls_in(cd.node) if call_name(c) == "execute" and (_sql_of(c) or "").lower().startswith("update mailboxes set")]
    ctx.require(upd, "commit_to_db: UPDATE mailboxes not found")
    sql = _sql_of(upd[0])
    m = re.match(r"(?i)update mailboxes set (.*) where (.*)$", sql)
    ctx.require(m, "commit_to_db: cannot tokenize the UPDATE statement", anchor=True)
    cols = [x.split("=")[0].strip() for x in m.group(1).split(",")] + [x.split("=")[0].strip() for x in re.split(r"(?i)\band\b", m.group(2))]
    vals = _tuple_of(cd, upd[0].args[1]) if len(upd[0].args) > 1 else None
    ctx.require(vals is not None, "commit_to_db: bound values tuple not found")
    if len(cols) != len(vals) or sql.count("?") != len(vals):
        ctx.bad("R12.1", cd.module, cd.qual, sql[:80], f"UPDATE mailboxes has {sql.count('?')} placeholders / {len(cols)} columns but {len(vals)} bound values", upd[0].lineno)
    else:
        for c, v in zip(cols, vals):
            if _binds(c, v):
                ctx.ok("R12.1", where(cd), f"UPDATE column {c} <- {norm(v, 40)}")
                written.add(c)
            else:
                ctx.bad("R12.1", cd.module, cd.qual, f"{c}=? <- {norm(v, 60)}", f"column `{c}` of UPDATE mailboxes is bound to `{norm(v, 60)}`, not to the mailbox's {c}: after a restart the field comes back with another field's value", upd[0].lineno)
    # --- SELECT ... FROM mailboxes  <-> unpack
    sel = [c for c in calls_in(rd.node) if call_name(c) == "fetchone" and (_sql_of(c) or "").lower().startswith("select id, uid_vv") or (call_name(c) == "fetchone" and re.match(r"(?i)select .*,.* from mailboxes", _sql_of(c) or ""))]
    ctx.require(sel, "_restore_from_db: SELECT ... FROM mailboxes not found")
    ssql = _sql_of(sel[0])
    m = re.match(r"(?i)select (.*) from mailboxes", ssql)
    scols = [x.strip() for x in m.group(1).split(",")]
    row_vars = {norm(s.targets[0]) for s in body_walk(rd.node) if isinstance(s, ast.Assign) and isinstance(s.targets[0], ast.Name) and any(c is sel[0] for c in calls_in(s.value))}
    unpack = [s for s in body_walk(rd.node) if isinstance(s, ast.Assign) and isinstance(s.targets[0], ast.Tuple) and norm(s.value) in row_vars]
    ctx.require(unpack, "_restore_from_db: tuple unpack of the row not found")
    tg = unpack[0].targets[0].elts
    if len(tg) != len(scols):
        ctx.bad("R12.1", rd.module, rd.qual, ssql[:80], f"SELECT returns {len(scols)} columns but {len(tg)} targets are unpacked", unpack[0].lineno)
    else:
        for c, t in zip(scols, tg):
            tn = t.attr if isinstance(t, ast.Attribute) else (t.id if isinstance(t, ast.Name) else norm(t))
            if isinstance(t, ast.Name):
                # a local: it must be what self.<column> is (re)built from
                uses = [s2 for s2 in body_walk(rd.node) if isinstance(s2, ast.Assign) and any(norm(x) == f"self.{c}" for x in s2.targets) and t.id in {n.id for n in ast.walk(s2.value) if isinstance(n, ast.Name)}]
                tn = c if uses else f"{t.id} (never stored into self.{c})"
            if tn == c:
                ctx.ok("R12.1", where(rd), f"SELECT column {c} -> {norm(t)}")
                read.add(c)
            else:
                ctx.bad("R12.1", rd.module, rd.qual, f"{c} -> {norm(t)}", f"column `{c}` of the SELECT is unpacked into `{norm(t)}`: after a restart {tn} holds the stored {c}", unpack[0].lineno)
    # --- INSERT INTO mailboxes
    ins = [c for c in calls_in(rd.node) if call_name(c) == "execute" and (_sql_of(c) or "").lower().startswith("insert into mailboxes")]
    ctx.require(ins, "_restore_from_db: INSERT INTO mailboxes not found")
    isql = _sql_of(ins[0])
    m = re.match(r"(?i)insert into mailboxes \((.*?)\) values \((.*?)\)", isql)
    ctx.require(m, "cannot tokenize INSERT INTO mailboxes", anchor=True)
    icols = [x.strip() for x in m.group(1).split(",")]
    ivals = [x.strip() for x in m.group(2).split(",")]
    bound = [c for c, v in zip(icols, ivals) if v == "?"]
    tup = _tuple_of(rd, ins[0].args[1])
    if len(icols) != len(ivals) or tup is None or len(bound) != len(tup):
        ctx.bad("R12.1", rd.module, rd.qual, isql[:80], "INSERT INTO mailboxes: column / value / bound-tuple counts disagree", ins[0].lineno)
    else:
        for c, v in zip(bound, tup):
            okb = _binds(c, v) or (c == "num_msgs" and "keys()" in norm(v))
            if okb:
                ctx.ok("R12.1", where(rd), f"INSERT column {c} <- {norm(v, 40)}")
            else:
                ctx.bad("R12.1", rd.module, rd.qual, f"{c} <- {norm(v, 60)}", f"INSERT INTO mailboxes binds column `{c}` to `{norm(v, 60)}`", ins[0].lineno)
    # --- sequences rows
    sq_ins = [c for c in calls_in(rd.node) if call_name(c) == "execute" and "insert into sequences" in (_sql_of(c) or "").lower()]
    for c in sq_ins:
        s = _sql_of(c)
        m = re.match(r"(?i)insert into sequences ?\((.*?)\) values \((.*?)\)", s)
        tup = _tuple_of(rd, c.args[1])
        cols_ = [x.strip() for x in m.group(1).split(",")]
        vals_ = [x.strip() for x in m.group(2).split(",")]
        b = [cc for cc, vv in zip(cols_, vals_) if vv == "?"]
        want = {"name": "name", "mailbox_id": "self.id", "sequence": "compact_sequence"}
        if tup and len(b) == len(tup) and all(want[cc] in norm(v) for cc, v in zip(b, tup)):
            ctx.ok("R12.1", where(rd), "INSERT INTO sequences (name, mailbox_id, sequence) <- (name, self.id, compact_sequence(...))")
        else:
            ctx.bad("R12.1", rd.module, rd.qual, s[:80], "INSERT INTO sequences binds its columns in another order", c.lineno)
    up = [c for c in calls_in(cd.node) if call_name(c) == "execute" and "insert into sequences" in (_sql_of(c) or "").lower()]
    ctx.require(up, "commit_to_db: sequences upsert not found")
    tup = _tuple_of(cd, up[0].args[1])
    from .common import pm_of
    pmc = pm_of(p, cd)
    if tup and pmc.has("(name, self.id, sequence, sequence, self.id, name)") and pmc.has("sequence = compact_sequence(self.sequences[name])"):
        ctx.ok("R12.1", where(cd), "sequences upsert binds (name, mailbox_id, sequence | sequence, mailbox_id, name)")
    else:
        ctx.bad("R12.1", cd.module, cd.qual, norm(up[0].args[1], 100), "sequences upsert binds its six placeholders in another order: flags are stored under another sequence / mailbox", up[0].lineno)
    rs = [s for s in body_walk(rd.node) if isinstance(s, ast.AsyncFor) and "select name, sequence from sequences" in norm(s.iter, 300).lower()]
    # the row is unpacked in a statement (`name, sequence = row`) or in the loop target itself
    in_target = bool(rs) and isinstance(rs[0].target, ast.Tuple) and len(rs[0].target.elts) == 2 and _seq_row_use(rd, ast.Assign(targets=[rs[0].target], value=ast.Constant(None)))
    if rs and (in_target or any(isinstance(b, ast.Assign) and isinstance(b.targets[0], ast.Tuple) and len(b.targets[0].elts) == 2 and norm(b.value) == norm(rs[0].target) and _seq_row_use(rd, b) for b in rs[0].body)):
        ctx.ok("R12.1", where(rd), "SELECT name, sequence -> (name, sequence)")
    else:
        ctx.bad("R12.1", rd.module, rd.qual, "name, sequence = row", "sequence rows are unpacked in another order than selected", rd.node.lineno)
    return written, read


def _seq_row_use(rd, unpack):
    """name, sequence = row : the first is used as the sequences key, the second is expanded."""
    a, b = [norm(e) for e in unpack.targets[0].elts]
    t = norm(rd.node, 30000)
    return f"self.sequences[{a}] = set(expand_sequence({b}))" in t


def r12_2(ctx):
    p = ctx.p
    cd = p.func("mbox.Mailbox.commit_to_db")
    rd = p.func("mbox.Mailbox._restore_from_db")
    from .common import pm_of
    pw, pr = pm_of(p, cd), pm_of(p, rd)
    pairs = [
        ("uids", pw.has("compact_sequence(self.uids)"), pr.has("self.uids = expand_sequence(uids) if uids else []")),
        ("msg_keys", pw.has("compact_sequence(self.msg_keys)"), pr.has("self.msg_keys = expand_sequence(msg_keys) if msg_keys else []")),
        ("sequences.sequence", pw.has("sequence = compact_sequence(self.sequences[name])"), pr.has("self.sequences[name] = set(expand_sequence(sequence))")),
        ("attributes", pw.has("','.join(self.attributes)"), pr.has("self.attributes = set(attributes.split(','))")),
        ("subscribed", pw.has("self.subscribed"), pr.has("self.subscribed = bool(self.subscribed)")),
    ]
    for name, w, r in pairs:
        if w and r:
            ctx.ok("R12.2", "mbox:commit_to_db/_restore_from_db", f"{name}: writer encoder pairs with reader decoder")
        else:
            ctx.bad("R12.2", "mbox", "Mailbox.commit_to_db" if not w else "Mailbox._restore_from_db", f"codec of {name}", f"{name} is {'not written through its encoder' if not w else 'not read back through the matching decoder'}: the value restored after a restart differs from the one stored", (cd if not w else rd).node.lineno)
    # the two codec functions exist and mirror each other's separators
    cs = p.func("utils.compact_sequence")
    es = p.func("utils.expand_sequence")
    from .common import pm_of
    pc, pe = pm_of(p, cs), pm_of(p, es)
    ar = [f for f in p.functions.values() if f.key == "utils.compact_sequence.as_range"]
    par_ = pm_of(p, ar[0]) if ar else None
    if pc.has("','.join(...)") and par_ is not None and par_.has("f'{grouped_ints[0]}-{grouped_ints[-1]}'") and pe.has("contents.split(',')") and pe.has("spec.split('-')") and pe.has("range(start, stop + 1)"):
        ctx.ok("R12.2", "utils:compact_sequence/expand_sequence", "separators agree (',' between items, '-' inside a range, inclusive upper end)")
    else:
        ctx.bad("R12.2", "utils", "compact_sequence", "',' / '-' / inclusive range", "compact_sequence and expand_sequence no longer agree on separators / inclusive range end", cs.node.lineno)


def r12_3(ctx, written, read):
    for f, why in PERSISTENT_FIELDS.items():
        if f in written and f in read:
            ctx.ok("R12.3", "mbox:commit_to_db/_restore_from_db", f"{f} ({why}) is written and read back")
        else:
            side = "written by commit_to_db" if f not in written else "read back by _restore_from_db"
            ctx.bad("R12.3", "mbox", "Mailbox.commit_to_db" if f not in written else "Mailbox._restore_from_db", f"field {f}", f"client-visible field {f} ({why}) is not {side}: it changes across an orderly restart", 0)


def r12_4(ctx):
    p = ctx.p
    sd = p.func("user_server.IMAPUserServer.shutdown")
    g = ctx.cfg(sd)
    from .common import pm_of
    pms = pm_of(p, sd)
    coll = pms.find("for _mbox_name, mbox in self.active_mailboxes.items():\n    mboxes.append(mbox)") or pms.find("for mbox in self.active_mailboxes.values():\n    mboxes.append(mbox)") or pms.find("mboxes = list(self.active_mailboxes.values())") or pms.find("mboxes = [mbox for mbox in self.active_mailboxes.values()]") or pms.find("mboxes = [mbox for _mbox_name, mbox in self.active_mailboxes.items()]")
    shut = pms.find("for mbox in mboxes:\n    tg.create_task(mbox.shutdown())") or pms.find("for mbox in mboxes:\n    await mbox.shutdown()") or pms.find("for mbox2 in mboxes:\n    tg.create_task(mbox2.shutdown())")
    mb = set(g.nodes_for(shut)) if shut is not None else set()  # the loop over the collected mailboxes is reached
    dbc = {n.id for n in g.nodes if n.ast is not None and n.kind == "stmt" and "self.db.commit()" in norm(n.ast)}
    dbx = {n.id for n in g.nodes if n.ast is not None and n.kind == "stmt" and "self.db.close()" in norm(n.ast)}
    for what, s in (("mbox.shutdown() for the active mailboxes", mb), ("db.commit()", dbc)):
        if s and flow.escapes_without(g, g.entry, lambda n: n in s, [g.exit]) is None:
            ctx.ok("R12.4", where(sd), f"server shutdown reaches {what} on every normal path")
        else:
            ctx.bad("R12.4", sd.module, sd.qual, what, f"IMAPUserServer.shutdown can complete without {what}: state changed since the last commit is lost by an orderly restart", sd.node.lineno)
    ctx.paths_explored += 2
    # order: mailbox shutdowns before db close
    if mb and dbx and all(g.nodes[a].line < g.nodes[b].line for a in mb for b in dbx):
        ctx.ok("R12.4", where(sd), "mailboxes are shut down (committed) before the database is closed")
    else:
        ctx.bad("R12.4", sd.module, sd.qual, "mbox.shutdown() before db.close()", "database closed before the mailboxes were committed", sd.node.lineno)
    # all active mailboxes are collected
    if coll is not None:
        ctx.ok("R12.4", where(sd), "every entry of active_mailboxes is collected for shutdown", nontrivial=False)
    else:
        ctx.bad("R12.4", sd.module, sd.qual, "for ... in self.active_mailboxes.items(): mboxes.append(mbox)", "not every active mailbox is shut down", sd.node.lineno)
    ms = p.func("mbox.Mailbox.shutdown")
    g2 = ctx.cfg(ms)
    com = {n.id for n in g2.nodes if n.ast is not None and n.kind == "stmt" and "commit_to_db()" in norm(n.ast)}

    def cls(e):
        return "commit_db" if isinstance(e, ast.Name) and e.id == "commit_db" else None

    hit = flow.feasible_paths_exist(g2, g2.entry, {g2.exit}, cls, initial={"commit_db": True}, labels=flow.NORMAL, avoid=lambda n: n in com)
    ctx.paths_explored += 1
    dflt = [d for a, d in zip(reversed(ms.node.args.args), reversed(ms.node.args.defaults)) if a.arg == "commit_db"]
    if hit is None and com and dflt and isinstance(dflt[0], ast.Constant) and dflt[0].value is True:
        ctx.ok("R12.4", where(ms), "Mailbox.shutdown(commit_db=True by default) reaches commit_to_db on every normal path")
    else:
        ctx.bad("R12.4", ms.module, ms.qual, "if commit_db: await self.commit_to_db()", "Mailbox.shutdown can finish without committing the mailbox (or commit_db no longer defaults to True)", ms.node.lineno)
    rn = p.func("user_server.IMAPUserServer.run")
    if any(isinstance(t, ast.Try) and any("self.shutdown()" in norm(s) for s in t.finalbody) for t in ast.walk(rn.node)):
        ctx.ok("R12.4", where(rn), "run() reaches shutdown() in a finally")
    else:
        ctx.bad("R12.4", rn.module, rn.qual, "finally: await self.shutdown()", "the server's run() no longer shuts down in a finally", rn.node.lineno)


def r12_5(ctx):
    """Stale flag rows: the sequence rows deleted by commit_to_db are (rows in the db) - (sequences in memory)."""
    p = ctx.p
    cd = p.func("mbox.Mailbox.commit_to_db")
    dele = [c for c in calls_in(cd.node) if call_name(c) == "execute" and "delete from sequences" in (_sql_of(c) or "").lower()]
    ctx.require(dele, "commit_to_db: DELETE FROM sequences not found")
    sql = _sql_of(dele[0]).lower()
    if "name in" not in sql:
        ctx.ok("R12.5", where(cd), "all sequence rows of the mailbox are deleted and re-inserted")
        return
    # the names bound: follow names_to_delete
    tup = norm(dele[0].args[1], 200) if len(dele[0].args) > 1 else ""
    var = None
    for s_ in body_walk(cd.node):
        if isinstance(s_, ast.Assign) and isinstance(s_.targets[0], ast.Name) and s_.targets[0].id in tup and isinstance(s_.value, ast.BinOp) and isinstance(s_.value.op, ast.Sub):
            var = s_
    okv = False
    direct = [x for x in ast.walk(dele[0].args[1]) if isinstance(x, ast.BinOp) and isinstance(x.op, ast.Sub)] if len(dele[0].args) > 1 else []
    diff = var.value if var is not None else (direct[0] if direct else None)
    if diff is not None:
        l, r = diff.left, diff.right
        # left: filled from SELECT name FROM sequences; right: names of the in-memory sequences
        lname = norm(l)
        from_db = any(isinstance(a, ast.AsyncFor) and "select name from sequences" in norm(a.iter, 300).lower() and any(f"{lname}.add(" in norm(b) for b in a.body) for a in body_walk(cd.node))
        # ... or built in one go by a comprehension over the same query
        from_db = from_db or any(
            isinstance(s2, ast.Assign) and norm(s2.targets[0]) == lname and any(isinstance(c2, (ast.SetComp, ast.ListComp, ast.GeneratorExp)) and "select name from sequences" in norm(c2.generators[0].iter, 300).lower() for c2 in ast.walk(s2.value))
            for s2 in body_walk(cd.node)
        )
        rdef = [s2 for s2 in body_walk(cd.node) if isinstance(s2, ast.Assign) and norm(s2.targets[0]) == norm(r)]
        from_mem = bool(rdef) and "self.sequences" in norm(rdef[0].value, 300)
        okv = from_db and from_mem
    # ... on every path: a commit that returns before it has looked at the rows in the db (an "empty mailbox has nothing to
    # store" shortcut) leaves the rows of a mailbox that has just been emptied
    from .. import flow as _flow
    g = ctx.cfg(cd)
    looks = {n.id for n in g.nodes if n.ast is not None and "select name from sequences" in norm(n.ast, 400).lower()}
    dn = {n.id for n in g.nodes if n.ast is not None and n.kind == "stmt" and any(c is dele[0] for c in ast.walk(n.ast))}
    ctx.require(looks and dn, "commit_to_db: CFG nodes of the SELECT / DELETE on sequences not found")
    skip = _flow.escapes_without(g, g.entry, lambda x: x in looks, [g.exit])
    ctx.paths_explored += 1
    if skip is not None:
        ctx.bad("R12.5", cd.module, cd.qual, "return before SELECT name FROM sequences", "commit_to_db can return without having compared the sequence rows in the db with the sequences in memory: when a mailbox loses its last flag set (everything expunged, RENAME INBOX, delete to \\Noselect) its rows survive, are reloaded at the next start and land on the messages that re-use the keys", g.nodes[skip[-2]].line if len(skip) > 1 else cd.node.lineno, _flow.fmt_path(g, skip))
        okv = False
    if okv:
        ctx.ok("R12.5", where(cd), "sequence rows deleted = names present in the db minus names present in memory")
    else:
        ctx.bad("R12.5", cd.module, cd.qual, norm(var, 100) if var is not None else sql[:80], "the set of sequence rows deleted from the db is not (rows in the db) - (sequences in memory): when the in-memory sequences are replaced wholesale (RENAME INBOX, delete to \\Noselect, shrunk folder) stale flag rows survive and come back on the messages that reuse the keys after a restart", dele[0].lineno)
    # rows of the mailboxes table are removed only for really missing folders
    us = p.func("user_server.IMAPUserServer.check_folder")
    ctx.analysed(us)
    from .common import parmap
    par = parmap(us)
    for c in calls_in(us.node):
        if call_name(c) != "_remove_stale_mailbox":
            continue
        h = None
        guarded = False
        cur = c
        while cur in par:
            pr = par[cur]
            if isinstance(pr, ast.If) and cur in pr.body and "errno" in norm(pr.test) and "ENOENT" in norm(pr.test):
                guarded = True
            if isinstance(pr, ast.ExceptHandler):
                h = pr
                break
            cur = pr
        hn = norm(h.type) if h is not None and h.type is not None else ""
        if h is not None and (hn == "NoSuchMailbox" or (hn == "OSError" and guarded)):
            ctx.ok("R12.5", where(us), f"mailbox row dropped only for a missing folder (except {hn}{' + errno == ENOENT' if guarded else ''})")
        else:
            ctx.bad("R12.5", us.module, us.qual, f"except {hn}: _remove_stale_mailbox(...)", "a mailbox's row (UIDVALIDITY, UIDs, subscription) is dropped on an error that does not mean 'folder is gone' (e.g. a transient EMFILE/EACCES during the start-up scan): the folder is re-discovered as new with a new UIDVALIDITY", c.lineno)


def r12_6(ctx):
    """The start-up / periodic folder scan may create a SPECIAL-USE mailbox only when its folder is *missing*.  Mailbox.create()
    does not refuse a name that exists as a \\Noselect placeholder - it revives it - so an unguarded create() undoes a DELETE
    at the next restart."""
    p = ctx.p
    fi = p.func("user_server.IMAPUserServer.find_all_folders")
    ctx.analysed(fi)
    par = parmap(fi)
    creates = [c for c in calls_in(fi.node) if call_name(c) == "create" and norm(call_recv(c) or ast.Name("")) == "Mailbox"]
    ctx.floor("R12.6", len(creates), 1, "Mailbox.create() calls in the folder scan")
    for c in creates:
        cur, guarded = c, False
        while cur in par:
            pr = par[cur]
            if isinstance(pr, ast.If) and cur in pr.body:
                pos = atom_polarity(pr.test, lambda x: isinstance(x, ast.Call) and call_name(x) == "folder_exists" and x.args and c.args and norm(x.args[0]) == norm(c.args[0]))
                if pos is False:
                    guarded = True
            cur = pr
        if guarded:
            ctx.ok("R12.6", where(fi), f"{norm(c, 50)} only under `not self.folder_exists(<that name>)`")
        else:
            ctx.bad("R12.6", fi.module, fi.qual, norm(c, 80), "the folder scan calls Mailbox.create() for a SPECIAL-USE name without first finding its folder missing: a deleted-but-kept (\\Noselect) Archive/Junk/... becomes selectable again after a restart", c.lineno)


def r12_7(ctx):
    """The persisted lists (UIDs, message keys, every flag set) are written with compact_sequence() and read back with
    expand_sequence().  UIDs and keys are paired by position and both are ascending, so the reader returns an *ascending*
    list: a set or an unsorted list of the same numbers pairs key i with another UID after the restart."""
    from .common import pm_of
    p = ctx.p
    fi = p.func("utils.expand_sequence")
    ctx.analysed(fi)
    rets = [r for r in body_walk(fi.node) if isinstance(r, ast.Return) and r.value is not None]
    ctx.floor("R12.7", len(rets), 1, "returns of expand_sequence")
    bad = [r for r in rets if not (isinstance(r.value, ast.Call) and isinstance(r.value.func, ast.Name) and r.value.func.id == "sorted" and not any(k.arg == "reverse" for k in r.value.keywords)) and not (isinstance(r.value, ast.List) and not r.value.elts)]
    if bad:
        ctx.bad("R12.7", fi.module, fi.qual, norm(bad[0]), "expand_sequence() no longer returns its numbers in ascending order: the UID and key lists restored from the database are paired by position, so after a restart the messages of a mailbox with a sparse UID set carry each other's UIDs (and UIDNEXT is computed from the wrong element)", bad[0].lineno)
    else:
        ctx.ok("R12.7", where(fi), "expand_sequence() returns sorted(...) on every path")


# ----------------------------------------------------------------------------------------------------------------------
# R12.8  which rows a statement touches
_SQL_CALLS = ("execute", "query", "fetchone", "executemany")
# (function, atom) pairs confirmed by hand: the only pattern matches on mailbox names
_SQL_PATTERN_SITES = {
    ("mbox._helper_rename_folder", "name like ?"): "subtree of a renamed mailbox; R17.1 pins the `old/%` argument and the exact prefix filter behind it",
    ("mbox.Mailbox._list_simple", "name regexp ?"): "LIST/LSUB pattern, compiled from the client's pattern by _mbox_pattern_to_re (R17.5)",
}
_SQL_OR_SITES = {"mbox._helper_rename_folder"}


def _sql_texts(fi, c):
    """All texts the first argument of a db call can have (lower-case, blanks collapsed; opaque f-string holes are `{}`)."""
    def texts(e, depth=0):
        if isinstance(e, ast.Constant) and isinstance(e.value, str):
            return [e.value]
        if isinstance(e, ast.IfExp):
            return [t for arm in (e.body, e.orelse) for t in texts(arm, depth + 1)]
        if isinstance(e, ast.JoinedStr):
            outs = [""]
            for v in e.values:
                if isinstance(v, ast.Constant):
                    alts = [str(v.value)]
                else:
                    alts = texts(v.value, depth + 1) if isinstance(v, ast.FormattedValue) else None
                    alts = alts or ["{}"]
                outs = [o + a for o in outs for a in alts]
            return outs
        if isinstance(e, ast.BinOp) and isinstance(e.op, ast.Add):
            l, r = texts(e.left, depth + 1), texts(e.right, depth + 1)
            if l and r:
                return [a + b for a in l for b in r]
            return None
        if isinstance(e, ast.Name) and depth < 4:
            defs = [s for s in body_walk(fi.node) if isinstance(s, ast.Assign) and len(s.targets) == 1 and isinstance(s.targets[0], ast.Name) and s.targets[0].id == e.id]
            if len(defs) == 1:
                return texts(defs[0].value, depth + 1)
        return None

    got = texts(c.args[0])
    if got is None:
        return None
    return [" ".join(t.lower().split()) for t in got]


def _sql_params(fi, c):
    if len(c.args) < 2:
        return []
    a = c.args[1]
    if isinstance(a, ast.Name):
        defs = [s for s in body_walk(fi.node) if isinstance(s, ast.Assign) and len(s.targets) == 1 and isinstance(s.targets[0], ast.Name) and s.targets[0].id == a.id]
        if len(defs) == 1:
            a = defs[0].value
    if isinstance(a, (ast.Tuple, ast.List)):
        return list(a.elts)
    return None


def _id_like(e) -> bool:
    if isinstance(e, ast.Starred):
        return False
    if isinstance(e, ast.Attribute):
        return e.attr == "id" or e.attr.endswith("_id")
    if isinstance(e, ast.Name):
        return e.id == "id" or e.id.endswith("_id")
    return False


def _where_clauses(sql):
    """[(table, clause, offset of the clause in sql)] for every WHERE of the statement, innermost sub-select first; a
    sub-select is replaced by `(sub)` in the clause that contains it."""
    out = []
    work = sql
    while True:
        m = re.search(r"\(\s*select [^()]*\)", work)
        if not m:
            break
        inner = m.group(0)
        out.extend(_where_flat(inner.strip("() "), m.start()))
        sel = re.match(r"\(\s*select (\w+) from (\w+)", inner)
        tag = f"(sub:{sel.group(1)}:{sel.group(2)})" if sel else "(sub)"
        work = work[: m.start()] + tag.ljust(len(inner), "\x00") + work[m.end():]
    out.extend(_where_flat(work.replace("\x00", ""), 0))
    return out


def _where_flat(sql, off):
    out = []
    for m in re.finditer(r"\bwhere\b", sql):
        head = sql[: m.start()]
        tm = None
        for tm in re.finditer(r"\b(?:from|update|into)\s+(\w+)", head):
            pass
        table = tm.group(1) if tm else "?"
        tail = sql[m.end():]
        end = re.search(r"\b(order by|limit|group by|on conflict)\b", tail)
        clause = tail[: end.start()] if end else tail
        out.append((table, clause.strip(), off + m.end()))
    return out


def r12_8(ctx):
    """Every statement on the tables that hold a mailbox's identity (mailboxes, sequences, user_server) picks its rows by an
    exact key: `id = ?` / `name = ?` on mailboxes, `mailbox_id = ?` (and sequence `name`) on sequences - bound to a value of
    the matching kind - with no pattern operator (LIKE / REGEXP / GLOB), no COLLATE and no OR outside the two sites
    confirmed by hand.  A pattern or a case-folding comparison makes one mailbox's statement touch another mailbox's row
    (`archive` vs `Archive/2023`, `lists` vs `Lists`): rows vanish or are shared, and UIDVALIDITY / UIDs / flags /
    subscription of an untouched mailbox change across a restart; the row's own `id` of `sequences` compared with a mailbox
    id deletes nothing (or somebody else's row)."""
    p = ctx.p
    n_stmt = n_where = 0
    for fi in p.functions.values():
        if fi.module in ("db",) and fi.name not in ("get_rid_of_root_folder",):
            continue
        for c in calls_in(fi.node):
            if not (isinstance(c.func, ast.Attribute) and c.func.attr in _SQL_CALLS and c.args):
                continue
            recv = norm(c.func.value)
            if "db" not in recv and "conn" not in recv and "cursor" not in recv:
                continue
            texts = _sql_texts(fi, c)
            if texts is None:
                ctx.bad("R12.8", fi.module, fi.qual, norm(c, 90), "the text of this SQL statement is not a constant (or a conditional between constants): which rows it touches cannot be read off the source", c.lineno)
                continue
            params = _sql_params(fi, c)
            for sql in texts:
                if not re.search(r"\b(mailboxes|sequences|user_server)\b", sql):
                    continue
                n_stmt += 1
                ctx.analysed(fi)
                key = f"{fi.module}.{fi.qual}"
                if re.search(r"\bcollate\b|\bglob\b", sql):
                    ctx.bad("R12.8", fi.module, fi.qual, sql[:110], "a COLLATE / GLOB comparison selects the rows of this statement: names that differ only in case (or match the pattern) share or lose their row", c.lineno)
                    continue
                ok = True
                for table, clause, off in _where_clauses(sql):
                    n_where += 1
                    if re.search(r"\bor\b", clause) and key not in _SQL_OR_SITES:
                        ctx.bad("R12.8", fi.module, fi.qual, f"where {clause}"[:110], "an OR in the row selection outside the rename helper: the statement reaches rows beyond the one keyed", c.lineno)
                        ok = False
                        continue
                    for am in re.finditer(r"(?:^|\band\b|\bor\b)\s*((?:(?!\band\b|\bor\b).)+)", clause):
                        atom = am.group(1).strip()
                        if not atom or atom == "{}":
                            continue
                        atom_off = off + sql[off:].find(atom) if atom in sql[off:] else None
                        m = re.fullmatch(r"(\w+)\s*=\s*\?", atom)
                        if m:
                            col = m.group(1)
                            if table == "sequences" and col == "id":
                                ctx.bad("R12.8", fi.module, fi.qual, f"{table}: where {atom}", "rows of `sequences` are selected by their own row id: nothing in the server holds such an id - bound to a mailbox id it matches no row (or another mailbox's)", c.lineno)
                                ok = False
                                continue
                            if table == "mailboxes" and col == "mailbox_id":
                                ctx.bad("R12.8", fi.module, fi.qual, f"{table}: where {atom}", "`mailboxes` has no mailbox_id column", c.lineno)
                                ok = False
                                continue
                            # kind of the bound value
                            if params is not None and atom_off is not None and "{}" not in sql[:atom_off]:
                                idx = sql[:atom_off].count("?")
                                if idx < len(params) and not any(isinstance(x, ast.Starred) for x in params[:idx]):
                                    pe = params[idx]
                                    want_id = col in ("id", "mailbox_id")
                                    is_name_col = col == "name"
                                    if want_id and not _id_like(pe):
                                        ctx.bad("R12.8", fi.module, fi.qual, f"{table}: where {atom} <- {norm(pe, 40)}", "a key column is bound to something that is not a row id", c.lineno)
                                        ok = False
                                    elif is_name_col and _id_like(pe):
                                        ctx.bad("R12.8", fi.module, fi.qual, f"{table}: where {atom} <- {norm(pe, 40)}", "the name column is bound to a row id", c.lineno)
                                        ok = False
                            continue
                        if re.fullmatch(r"\w+\s*=\s*('[^']*'|\d+)", atom):
                            continue  # comparison with a constant
                        if re.fullmatch(r"attributes not like '%+ignored%+'", atom):
                            continue
                        if re.fullmatch(r"name in \((\{\}|[?, ]+)\)", atom) and table == "sequences":
                            continue
                        sm = re.fullmatch(r"mailbox_id in \(sub:(\w+):(\w+)\)", atom)
                        if sm and table == "sequences" and sm.group(1) == "id" and sm.group(2) == "mailboxes":
                            continue
                        bare = re.sub(r"\s*\{\}\s*", " ", atom).strip()
                        if (key, bare) in _SQL_PATTERN_SITES or (key.rsplit(".", 1)[0], bare) in _SQL_PATTERN_SITES:
                            continue
                        ctx.bad("R12.8", fi.module, fi.qual, f"{table}: where {atom}"[:110], "row selection by something other than an exact key (`id = ?`, `name = ?`, `mailbox_id = ?`): a pattern / range / case-folding comparison reaches the rows of other mailboxes", c.lineno)
                        ok = False
                if ok:
                    ctx.ok("R12.8", where(fi), f"{sql[:70]}: rows picked by exact key", nontrivial=False)
    ctx.floor("R12.8", n_stmt, 20, "SQL statements on mailboxes / sequences / user_server")
    ctx.floor("R12.8", n_where, 14, "WHERE clauses examined")



def r12_9(ctx):
    """`t.cancel(); await t` re-raises the CancelledError of `t` in the awaiting coroutine (a task that handles its
    cancellation by `raise`, as the management tasks do, ends cancelled).  Where the await is not inside a try that catches
    it, everything after it is skipped: IMAPUserServer.shutdown() awaited its management task that way first thing - a shutdown
    with the task still running (run() cancelled: SIGINT, a test harness, the parent) closed no client, shut down no mailbox,
    committed and closed no database.  Every await of a task the same function has just cancelled sits in a try with a
    handler for CancelledError (or is suppressed)."""
    p = ctx.p
    n = 0
    for fi in p.functions.values():
        cancelled = {}
        for c in calls_in(fi.node):
            if call_name(c) == "cancel" and not c.args and call_recv(c) is not None:
                cancelled.setdefault(norm(call_recv(c)), c)
        if not cancelled:
            continue
        par = parmap(fi)
        for a in body_walk(fi.node):
            if not isinstance(a, ast.Await):
                continue
            tgt = norm(a.value)
            if tgt not in cancelled or cancelled[tgt].lineno > a.lineno:
                continue
            n += 1
            ctx.analysed(fi)
            caught = False
            cur = a
            while cur in par:
                up = par[cur]
                if isinstance(up, ast.Try) and cur in up.body:
                    for h in up.handlers:
                        names = {"BaseException"} if h.type is None else {norm(t).split(".")[-1] for t in (h.type.elts if isinstance(h.type, ast.Tuple) else [h.type])}
                        if names & {"CancelledError", "BaseException"}:
                            caught = True
                if isinstance(up, (ast.With, ast.AsyncWith)) and any("suppress" in norm(i.context_expr) and "CancelledError" in norm(i.context_expr) for i in up.items):
                    caught = True
                cur = up
            if caught:
                ctx.ok("R12.9", where(fi), f"await {tgt} after {tgt}.cancel(): CancelledError handled")
            else:
                ctx.bad("R12.9", fi.module, fi.qual, f"{tgt}.cancel(); await {tgt}", f"`await {tgt}` re-raises the cancellation of the task this function has just cancelled and nothing catches it: the rest of {fi.name}() does not run (for the user server's shutdown: no mailbox is shut down, nothing is committed, the db is not closed)", a.lineno)
    ctx.floor("R12.9", n, 5, "awaits of a task cancelled in the same function")


def run(ctx):
    ctx.do(r12_5)
    ctx.do(r12_7)
    res = ctx.do(r12_1)
    if res is None:
        return
    written, read = res
    ctx.do(r12_2)
    ctx.do(r12_3, written, read)
    ctx.do(r12_4)
    ctx.do(r12_6)
    ctx.do(r12_8)
    ctx.do(r12_9)
    from . import c11 as _c11
    ctx.do(_c11.r11_9)  # an upgraded row comes back paired with the messages it described
    from . import c17 as _c17
    ctx.do(_c17.r17_17)  # what CREATE made is in the table: the start-up scan finds nothing new
    ctx.do(_c17.r17_16)
    from . import c13
    ctx.do(c13.r13_5)
    from . import c03 as _c03b
    ctx.do(_c03b.r3_6)  # what a shutdown commits is a pair of lists of equal length
    ctx.do(_c03b.r3_5)  # the start-up pack keeps the flag table in step with the renumbered keys
    for k, v in PERSISTENT_FIELDS.items():
        ctx.trust(f"frozen persistent field: {k} - {v}")
