"""C15 - a message set denotes the same messages in every command.

 R15.1 single interpreter of the set language (utils.sequence_set_to_list)
 R15.2 unit kinds (shared with C10 R10.4)
 R15.3 seq_max provenance at each call of the interpreter
 R15.4 shape of the canonical interpreter: '*' substitution, both range orders inclusive, out-of-range rejection for
       non-UID sets, bounded expansion (shares C06 R6.6), de-duplication (shares C05 R5.7)
"""
from __future__ import annotations

import ast

from ..astutil import body_walk, call_name, call_recv, calls_in, kwarg, names_in, norm, strip_await, walk_no_nested
from .. import flow
from .common import parmap, where

PROP = "C15"
EXPLANATION = (
    "(R15.1) a function destructures a parsed message set when it iterates over it and discriminates '*' / int / tuple "
    "elements; only utils.sequence_set_to_list may do so (the parser that builds the value and debug renderers excepted) - "
    "any other function is a second interpreter and must delegate; (R15.3) at each call of the interpreter the seq_max "
    "argument is the last UID (uids[-1], or the documented default when empty) exactly on the UID path and the message "
    "count otherwise; (R15.4) in the interpreter '*' is replaced by seq_max for single elements and both range ends, a "
    "range is expanded inclusively in whichever order it was written, numbers < 1 and - for non-UID sets - numbers > "
    "seq_max and '*' in an empty mailbox raise Bad, the result is sorted and de-duplicated. (R15.2) unit kinds are decided "
    "under C10. Decides these clauses, not exhaustive differential agreement over all small sets."
    " The clip helper in front of the interpreter (bounded expansion) must use the maximum the interpreter gets and keep the denotation ('*' = maximum, either order, only ranges entirely above the maximum dropped)."
)
RULE_TEXT = "instances: each function that destructures a message set; each call site of the interpreter; each guard/expansion statement of the interpreter"
ASSUMPTIONS = ["a parsed message set is a list of int | '*' | (start, end) tuples (parser contract, _p_msg_set)", "not decided: differential agreement on all small sets"]
LEVEL_TEXT = (
    "Static layering rule (one interpreter of the set language), call-site provenance of seq_max, and shape checks of the "
    "canonical interpreter's guards and expansions. Agreement between interpreters is obtained by there being only one."
)
LEVEL_NOTE = "Structural clauses only. Trusted: CPython ast; parser contract for the shape of a parsed set."
TECHNIQUE = "layering (who-may-destructure) + call-site provenance + guard shape check"
DESIGN_REF = "DESIGN.md section 3 / C15"

ALLOWED_DESTRUCTURE = {
    "utils.sequence_set_to_list": "the canonical interpreter",
    "parse.msg_set_to_str": "debug rendering of the parsed value",
    "parse.IMAPClientCommand._p_msg_set": "builds the value",
}


# COPY's expansion of its message set, as written in mbox.Mailbox.copy (the matcher compares canonical forms)
_COPY_EXPANSION = "if uid_command:\n    uid_list = sequence_set_to_list(clip_sequence_set(msg_set, uid_max), uid_max, uid_command)\n    msg_idxs = []\n    for uid in uid_list:\n        if uid in self._uid_to_idx:\n            msg_idx = self._uid_to_idx[uid] + 1\n            msg_idxs.append(msg_idx)\nelse:\n    msg_idxs = sequence_set_to_list(msg_set, seq_max)"

_COPY_EXPANSION_UNCLIPPED = _COPY_EXPANSION.replace("clip_sequence_set(msg_set, uid_max)", "msg_set")

def _destructures(fi):
    """Loops `for elt in <x>` whose body tests elt == '*' and isinstance(elt, tuple|int)."""
    out = []
    for n in body_walk(fi.node):
        if isinstance(n, (ast.For,)) and isinstance(n.target, ast.Name):
            v = n.target.id
            star = tup = False
            for x in walk_no_nested(n):
                if isinstance(x, ast.Compare) and isinstance(x.left, ast.Name) and x.left.id == v and any(isinstance(c, ast.Constant) and c.value == "*" for c in x.comparators):
                    star = True
                if isinstance(x, ast.Call) and isinstance(x.func, ast.Name) and x.func.id == "isinstance" and x.args and isinstance(x.args[0], ast.Name) and x.args[0].id == v and "tuple" in norm(x.args[1]):
                    tup = True
            if star and tup:
                out.append(n)
        if isinstance(n, (ast.ListComp, ast.GeneratorExp)):
            g = n.generators[0]
            if isinstance(g.target, ast.Name) and "isinstance" in norm(n.elt) and "tuple" in norm(n.elt) and fi.key not in ALLOWED_DESTRUCTURE:
                out.append(n)
    return out


def r15_1(ctx):
    p = ctx.p
    n = 0
    for fi in p.functions.values():
        if fi.module in ("hashers", "generator"):
            continue
        d = _destructures(fi)
        if not d:
            continue
        n += 1
        ctx.analysed(fi)
        if fi.key in ALLOWED_DESTRUCTURE:
            ctx.ok("R15.1", where(fi), f"destructures a message set: {ALLOWED_DESTRUCTURE[fi.key]}")
        else:
            ctx.bad(
                "R15.1", fi.module, fi.qual, norm(d[0].iter if hasattr(d[0], "iter") else d[0], 80),
                f"{fi.qual} re-implements the message-set language instead of delegating to sequence_set_to_list: the two "
                "interpreters disagree (e.g. a reversed range `5:2` matches nothing here but denotes 2..5 canonically; "
                "`*:3` compares a number with the string '*' and raises TypeError)",
                d[0].lineno,
            )
    ctx.floor("R15.1", n, 1, "functions destructuring a message set")


def r15_3(ctx):
    from .common import pm_of

    p = ctx.p
    sites = []
    for fi in p.functions.values():
        for c in calls_in(fi.node):
            if call_name(c) == "sequence_set_to_list":
                sites.append((fi, c))
    ctx.floor("R15.3", len(sites), 3, "call sites of sequence_set_to_list")
    expected = {
        "mbox.Mailbox.msg_set_to_msg_seq_set": (
            ["if from_uids:\n    seq_max = self.uids[-1] if self.uids else 1\nelse:\n    seq_max = self.num_msgs",
             "sequence_set_to_list(..., seq_max, uid_cmd=from_uids)"],
            "seq_max = uids[-1] (1 when empty) for UID sets, message count otherwise; uid_cmd passed through",
        ),
        "mbox.Mailbox.copy": (
            ["max_msg_key = self.msg_keys[-1]", "uid_vv, uid_max = self.get_uid_from_msg(max_msg_key)", "seq_max = len(self.msg_keys)",
             (_COPY_EXPANSION, _COPY_EXPANSION_UNCLIPPED)],
            "UID COPY expands against the UID of the last message, COPY against the message count",
        ),
        "search.IMAPSearch._msg_set_numbers": (
            ["sequence_set_to_list(..., set_max, uid_cmd=True)"],
            "search helper expands against the maximum its caller passes",
        ),
    }
    for fi, c in sites:
        ctx.analysed(fi)
        if fi.key not in expected:
            ctx.bad("R15.3", fi.module, fi.qual, norm(c, 100), "a new caller of the set interpreter: its seq_max / uid_cmd arguments are not in the checked table", c.lineno)
            continue
        pats, what = expected[fi.key]
        pm = pm_of(p, fi)
        missing = [x for x in pats if not (any(pm.has(y) for y in x) if isinstance(x, tuple) else pm.has(x))]
        # the set itself is handed over raw, or cut down by the clip helper against the *same* maximum (the helper replaces
        # `*` by its own maximum, so a different one would change what `*` denotes)
        a0 = c.args[0] if c.args else None
        if isinstance(a0, ast.Call):
            if not (call_name(a0) == "clip_sequence_set" and len(a0.args) >= 2 and len(c.args) >= 2 and norm(a0.args[1]) == norm(c.args[1])):
                ctx.bad("R15.3", fi.module, fi.qual, f"{fi.name}: set argument of sequence_set_to_list", f"the set is rewritten by `{norm(a0, 80)}` before it is interpreted: not the clip helper with the maximum the interpreter gets", c.lineno)
                continue
        for asg in body_walk(fi.node):
            if isinstance(asg, ast.Assign) and isinstance(asg.value, ast.Call) and call_name(asg.value) == "clip_sequence_set" and isinstance(a0, ast.Name) and norm(asg.targets[0]) == a0.id:
                if not (len(asg.value.args) >= 2 and len(c.args) >= 2 and norm(asg.value.args[1]) == norm(c.args[1])):
                    missing.append(f"{norm(asg)} clips against a different maximum than the interpreter gets")
        if not missing:
            ctx.ok("R15.3", where(fi), what)
        else:
            ctx.bad("R15.3", fi.module, fi.qual, f"{fi.name}: seq_max argument of sequence_set_to_list", f"seq_max passed to the interpreter is not (last UID on the UID path / message count otherwise) - expected shape `{(missing[0][0] if isinstance(missing[0], tuple) else missing[0]).splitlines()[0]}` not found; `*` and `n:*` then denote the wrong message", c.lineno)
    # the search helper's callers pass the context maxima (which Mailbox.search sets: C14 R14.4)
    sc = p.cls("IMAPSearch")
    for m, want in (("_match_uid", "self.ctx.uid() in self._msg_set_numbers(self.ctx.uid_max)"), ("_match_message_set", "self.ctx.msg_number in self._msg_set_numbers(self.ctx.seq_max)")):
        mfi = sc.methods.get(m)
        if mfi is not None and "_msg_set_numbers" in norm(mfi.node, 3000):
            if pm_of(p, mfi).has(f"return {want}"):
                ctx.ok("R15.3", where(mfi), f"{m}: {want}")
            else:
                ctx.bad("R15.3", mfi.module, mfi.qual, m, f"{m} no longer tests its own number against the set expanded with its own maximum", mfi.node.lineno)


def _lohi_guard(lp, has_raise_if):
    """Alternative idiom: lo/hi = min/max (or ordered swap) of start/end, then `lo < 1 or hi > seq_max`."""
    lo = hi = None
    for n in ast.walk(lp):
        if isinstance(n, ast.Assign):
            v = norm(n.value)
            if isinstance(n.targets[0], ast.Name):
                if v in ("min(start, end)", "min(end, start)"):
                    lo = n.targets[0].id
                if v in ("max(start, end)", "max(end, start)"):
                    hi = n.targets[0].id
            elif isinstance(n.targets[0], ast.Tuple) and len(n.targets[0].elts) == 2:
                a, b = [norm(e) for e in n.targets[0].elts]
                if v in ("(end, start) if start > end else (start, end)", "(start, end) if start <= end else (end, start)", "sorted((start, end))", "(min(start, end), max(start, end))"):
                    lo, hi = a, b
    if not lo or not hi:
        return False
    return has_raise_if(lambda t: f"{lo} < 1" in t and f"{hi} > seq_max" in t and "not uid_cmd" in t)


def r15_4(ctx):
    from .common import pm_of

    p = ctx.p
    fi = p.func("utils.sequence_set_to_list")
    ctx.analysed(fi)
    pm = pm_of(p, fi)
    ctx.require(pm.has("for elt in seq_set:\n    ..."), "sequence_set_to_list: loop over the set not found")

    def any_of(*pats):
        return any(pm.has(x) for x in pats)

    checks = [
        (pm.has("if elt == '*':\n    ...\n    result.append(seq_max)"), "single '*' is replaced by seq_max"),
        (pm.has("if seq_max == 0 and not uid_cmd:\n    raise Bad(...)"), "'*' in an empty mailbox is rejected for non-UID sets"),
        (pm.has("if elt < 1:\n    raise Bad(...)"), "numbers < 1 are rejected"),
        (pm.has("if elt > seq_max and not uid_cmd:\n    raise Bad(...)"), "non-UID numbers > seq_max are rejected"),
        (pm.has("start, end = elt"), "a pair is destructured into (start, end)"),
        (pm.has("if start == '*':\n    start = seq_max") and pm.has("if end == '*':\n    end = seq_max"), "'*' at either end of a range is replaced by seq_max"),
        (
            any_of(
                "if (start < 1 or end < 1 or start > seq_max or end > seq_max) and not uid_cmd:\n    raise Bad(...)",
                "if (min(start, end) < 1 or max(start, end) > seq_max) and not uid_cmd:\n    raise Bad(...)",
            )
            or (
                any_of("lo, hi = (end, start) if start > end else (start, end)", "lo, hi = (min(start, end), max(start, end))", "lo, hi = sorted((start, end))")
                and pm.has("if (lo < 1 or hi > seq_max) and not uid_cmd:\n    raise Bad(...)")
            ),
            "non-UID ranges outside 1..seq_max are rejected",
        ),
        (
            any_of(
                "if start > end:\n    result.extend(list(range(end, start + 1)))\nelse:\n    result.extend(list(range(start, end + 1)))",
                "if start > end:\n    result.extend(range(end, start + 1))\nelse:\n    result.extend(range(start, end + 1))",
                "result.extend(range(min(start, end), max(start, end) + 1))",
                "if start > end:\n    start, end = (end, start)\nresult.extend(list(range(start, end + 1)))",
                "if start > end:\n    start, end = (end, start)\nresult.extend(range(start, end + 1))",
            )
            or (
                any_of("lo, hi = (end, start) if start > end else (start, end)", "lo, hi = (min(start, end), max(start, end))", "lo, hi = sorted((start, end))")
                and any_of("result.extend(range(lo, hi + 1))", "result.extend(list(range(lo, hi + 1)))")
            ),
            "a range is expanded inclusively in whichever order it was written (a:b == b:a)",
        ),
        (any_of("return sorted(set(result))", "return sorted(frozenset(result))"), "result is sorted and de-duplicated"),
    ]
    for okv, what in checks:
        if okv:
            ctx.ok("R15.4", where(fi), what)
        else:
            ctx.bad("R15.4", fi.module, fi.qual, what, f"the canonical interpreter lost: {what}", fi.node.lineno)
    # UID sets silently skip unknown UIDs: mapping through _uid_to_idx with membership filter
    ms = p.func("mbox.Mailbox.msg_set_to_msg_seq_set")
    if pm_of(p, ms).has("[self._uid_to_idx[uid] + 1 for uid in msgs if uid in self._uid_to_idx]"):
        ctx.ok("R15.4", where(ms), "UID -> sequence number mapping skips UIDs that do not exist and adds 1 to the index")
    else:
        ctx.bad("R15.4", ms.module, ms.qual, "[self._uid_to_idx[uid] + 1 for uid in msgs if uid in self._uid_to_idx]", "UID sets are no longer mapped through the UID table with unknown UIDs skipped", ms.node.lineno)
    cp = p.func("mbox.Mailbox.copy")
    if pm_of(p, cp).has(_COPY_EXPANSION) or pm_of(p, cp).has(_COPY_EXPANSION_UNCLIPPED):
        ctx.ok("R15.4", where(cp), "COPY: UID -> sequence number mapping skips unknown UIDs (+1)")
    else:
        ctx.bad("R15.4", cp.module, cp.qual, "if uid in self._uid_to_idx: msg_idx = self._uid_to_idx[uid] + 1", "UID COPY no longer maps its set through the UID table", cp.node.lineno)
    # the clip helper (bounds range expansion, C06 R6.6) must not change what a set denotes
    if "utils.clip_sequence_set" in p.functions:
        h = p.func("utils.clip_sequence_set")
        ctx.analysed(h)
        hp = pm_of(p, h)
        hchecks = [
            (
                hp.has("start, end = (seq_max if x == '*' else x for x in elt)")
                or hp.has("start, end = [seq_max if x == '*' else x for x in elt]")
                or (hp.has("start, end = elt") and hp.has("if start == '*':\n    start = seq_max") and hp.has("if end == '*':\n    end = seq_max")),
                "clip: '*' at either end is the maximum",
            ),
            (
                hp.has("low, high = (min(start, end), max(start, end))") or hp.has("low, high = sorted((start, end))")
                or hp.has("low, high = (end, start) if start > end else (start, end)"),
                "clip: a range means the same in either order",
            ),
            (hp.has("if low > seq_max:\n    continue"), "clip: only a range that lies entirely above the maximum is dropped (n:* keeps the last message)"),
            (hp.has("elt = (low, min(high, seq_max))"), "clip: lower end kept, upper end cut to the maximum"),
        ]
        for okv, what in hchecks:
            if okv:
                ctx.ok("R15.4", where(h), what)
            else:
                ctx.bad("R15.4", h.module, h.qual, what, f"the clip helper in front of the interpreter changes what a set denotes - lost: {what}", h.node.lineno)


def r15_5(ctx):
    """COPY and MOVE hand their set to Mailbox.copy(), which interprets it again (the management task resolved it for
    admission only).  Both callers pass the command's own UID marker with it: without it `UID MOVE 5,7:8` re-reads its
    numbers as sequence numbers - the same on a fresh mailbox, other messages as soon as a UID is missing."""
    p = ctx.p
    n = 0
    for fi in p.functions.values():
        if fi.module != "client":
            continue
        for c in calls_in(fi.node):
            if call_name(c) != "copy" or not c.args:
                continue
            a0 = c.args[0]
            if not (isinstance(a0, ast.Attribute) and a0.attr == "msg_set" and isinstance(a0.value, ast.Name)):
                continue
            n += 1
            ctx.analysed(fi)
            cmdv = a0.value.id
            uid = c.args[2] if len(c.args) > 2 else kwarg(c, "uid_command")
            if uid is not None and norm(uid) == f"{cmdv}.uid_command":
                ctx.ok("R15.5", where(fi), f"copy({cmdv}.msg_set, ..., {cmdv}.uid_command): the set is re-read in the command's own number space")
            else:
                ctx.bad("R15.5", fi.module, fi.qual, norm(c, 100), f"Mailbox.copy() is given `{cmdv}.msg_set` without `{cmdv}.uid_command` (got `{norm(uid) if uid is not None else 'the default False'}`): the set of a UID command is re-read as sequence numbers - after any expunge `UID MOVE`/`UID COPY` takes other messages than UID FETCH with the same set", c.lineno)
    ctx.floor("R15.5", n, 2, "callers of Mailbox.copy() with a command's set")


def r15_6(ctx):
    """The maximum a set is interpreted against is the last element of `uids` / `msg_keys`.  A mailbox may be empty: every
    read of `<list>[-1]` in mbox.py happens where the list is known not to be empty - under a test of the list itself (or of
    num_msgs, its length), as a statement guard, a conditional expression or an early return.  (Mailbox.copy() read
    `self.msg_keys[-1]` unguarded: `UID COPY 1:* x` in an empty mailbox was answered BAD Unhandled exception while UID FETCH /
    UID STORE / UID SEARCH with the same set answer OK.)"""
    p = ctx.p
    n = 0
    for fi in p.funcs_in("mbox"):
        subs = [x for x in ast.walk(fi.node) if isinstance(x, ast.Subscript) and isinstance(x.ctx, ast.Load) and norm(x.value) in ("self.uids", "self.msg_keys") and isinstance(x.slice, ast.UnaryOp) and isinstance(x.slice.op, ast.USub) and isinstance(x.slice.operand, ast.Constant) and x.slice.operand.value == 1]
        if not subs:
            continue
        ctx.analysed(fi)
        par = parmap(fi)
        g = ctx.cfg(fi)
        for x in subs:
            n += 1
            lst = norm(x.value)
            names = {lst, "self.num_msgs", f"len({lst})"}
            # locals that are copies of one of those (`seq_max = self.num_msgs`)
            for s_ in body_walk(fi.node):
                if isinstance(s_, ast.Assign) and len(s_.targets) == 1 and isinstance(s_.targets[0], ast.Name) and norm(s_.value) in names:
                    names.add(s_.targets[0].id)

            def polarity(t):
                """True: the test holds when the list is non-empty; False: when it is empty; None: says nothing"""
                if isinstance(t, ast.UnaryOp) and isinstance(t.op, ast.Not):
                    v = polarity(t.operand)
                    return None if v is None else (not v)
                if norm(t) in names:
                    return True
                if isinstance(t, ast.Compare) and len(t.ops) == 1 and norm(t.left) not in names and norm(t.comparators[0]) in names:
                    mirror = {ast.Lt: ast.Gt, ast.Gt: ast.Lt, ast.LtE: ast.GtE, ast.GtE: ast.LtE, ast.Eq: ast.Eq, ast.NotEq: ast.NotEq}
                    if type(t.ops[0]) in mirror:
                        t = ast.Compare(left=t.comparators[0], ops=[mirror[type(t.ops[0])]()], comparators=[t.left])
                if isinstance(t, ast.Compare) and len(t.ops) == 1 and norm(t.left) in names:
                    r, op = t.comparators[0], t.ops[0]
                    if isinstance(r, ast.Constant) and r.value == 0:
                        return True if isinstance(op, (ast.Gt, ast.NotEq)) else (False if isinstance(op, (ast.Eq, ast.LtE)) else None)
                    if isinstance(r, ast.Constant) and r.value == 1 and isinstance(op, ast.GtE):
                        return True
                    # `num_msgs < <a positive limit>` (a configured size threshold, a constant >= 1) holds for the empty list
                    if isinstance(op, ast.Lt) and (isinstance(r, (ast.Attribute, ast.Name)) or (isinstance(r, ast.Constant) and isinstance(r.value, int) and r.value >= 1)):
                        return False
                    if isinstance(r, (ast.List, ast.Tuple)) and not r.elts:
                        return True if isinstance(op, ast.NotEq) else (False if isinstance(op, ast.Eq) else None)
                if isinstance(t, ast.BoolOp) and isinstance(t.op, ast.And):
                    return True if any(polarity(v) is True for v in t.values) else None
                if isinstance(t, ast.BoolOp) and isinstance(t.op, ast.Or):
                    return False if any(polarity(v) is False for v in t.values) and False else None
                return None

            guarded = False
            cur = x
            while cur in par and not guarded:
                up = par[cur]
                if isinstance(up, ast.IfExp):
                    pol = polarity(up.test)
                    if (cur is up.body and pol is True) or (cur is up.orelse and pol is False):
                        guarded = True
                if isinstance(up, (ast.If, ast.While)):
                    pol = polarity(up.test)
                    if (cur in up.body and pol is True) or (cur in up.orelse and pol is False):
                        guarded = True
                if isinstance(up, ast.BoolOp) and isinstance(up.op, ast.And) and cur in up.values and any(polarity(v) is True for v in up.values[: up.values.index(cur)]):
                    guarded = True
                cur = up
            if not guarded:
                # an earlier `if not <list>: return/raise` dominates the read
                st = x
                while not isinstance(st, ast.stmt):
                    st = par[st]
                tests = {nd.id for nd in g.nodes if nd.kind == "test" and nd.ast is not None and polarity(nd.ast) is False and isinstance(nd.stmt, ast.If) and any(isinstance(b, (ast.Return, ast.Raise, ast.Continue)) for b in nd.stmt.body)}
                nodes = g.nodes_for(st)
                if nodes and tests and flow.dominated_by(g, nodes[0], lambda z: z in tests) is None:
                    guarded = True
            if guarded:
                ctx.ok("R15.6", where(fi), f"{lst}[-1] read where the list is known not to be empty", nontrivial=False)
            else:
                ctx.bad("R15.6", fi.module, fi.qual, f"{lst}[-1]", f"`{lst}[-1]` is read with nothing on the way that excludes an empty mailbox: IndexError - the command is answered `BAD Unhandled exception` where the same set in FETCH / STORE / SEARCH names no message and is answered OK", x.lineno)
    ctx.floor("R15.6", n, 5, "reads of the last UID / message key")


def run(ctx):
    ctx.do(r15_1)
    ctx.do(r15_3)
    ctx.do(r15_4)
    ctx.do(r15_5)
    ctx.do(r15_6)
    from . import c05, c06, c10
    ctx.do(c10.r10_4)
    ctx.do(c10.r10_4_units)
    ctx.do(c10.r10_3)
    ctx.do(c06.r6_6)
    ctx.do(c05.r5_7)
    ctx.do(c05.r5_3b)
    from . import c03 as _c03
    ctx.do(_c03.r3_1_2)  # the reverse indexes every UID / key lookup goes through follow the lists
    from . import c14 as _c14
    ctx.do(_c14.r14_4)  # `*` in a SEARCH set key = the same maximum as in FETCH/STORE/COPY
    from . import c05 as _c05b
    ctx.do(_c05b.r5_3)  # UID EXPUNGE removes what its set denotes - an empty denotation removes nothing
    ctx.note("R15.2 unit kinds (UID vs sequence-number lists at operation boundaries) decided by C10 R10.4; bounded expansion by C06 R6.6")
    for k, v in ALLOWED_DESTRUCTURE.items():
        ctx.trust(f"frozen: may destructure a message set: {k} - {v}")
