"""C15 - a message set denotes the same messages in every command.

 R15.1 single interpreter of the set language (utils.sequence_set_to_list)
 R15.2 unit kinds (shared with C10 R10.4)
 R15.3 seq_max provenance at each call of the interpreter
 R15.4 shape of the canonical interpreter: '*' substitution, both range orders inclusive, out-of-range rejection for
       non-UID sets, bounded expansion (shares C06 R6.6), de-duplication (shares C05 R5.7)
"""
from __future__ import annotations

import ast

from ..astutil import body_walk, call_name, call_recv, calls_in, kwarg, names_in, norm, strip_await, walk_no_nested
from .common import where

PROP = "C15"
EXPLANATION = (
    "(R15.1) a function destructures a parsed message set when it iterates over it and discriminates '*' / int / tuple "
    "elements; only utils.sequence_set_to_list may do so (the parser that builds the value and debug renderers excepted) - "
    "any other function is a second interpreter and must delegate; (R15.3) at each call of the interpreter the seq_max "
    "argument is the last UID (uids[-1], or the documented default when empty) exactly on the UID path and the message "
    "count otherwise; (R15.4) in the interpreter '*' is replaced by seq_max for single elements and both range ends, a "
    "range is expanded inclusively in whichever order it was written, numbers < 1 and - for non-UID sets - numbers > "
    "seq_max and '*' in an empty mailbox raise Bad, the result is sorted and de-duplicated. (R15.2) unit kinds are decided "
    "under C10. Decides these clauses, not exhaustive differential agreement over all small sets."
)
RULE_TEXT = "instances: each function that destructures a message set; each call site of the interpreter; each guard/expansion statement of the interpreter"
ASSUMPTIONS = ["a parsed message set is a list of int | '*' | (start, end) tuples (parser contract, _p_msg_set)", "not decided: differential agreement on all small sets"]
LEVEL_TEXT = (
    "Static layering rule (one interpreter of the set language), call-site provenance of seq_max, and shape checks of the "
    "canonical interpreter's guards and expansions. Agreement between interpreters is obtained by there being only one."
)
LEVEL_NOTE = "Structural clauses only. Trusted: CPython ast; parser contract for the shape of a parsed set."
TECHNIQUE = "layering (who-may-destructure) + call-site provenance + guard shape check"
DESIGN_REF = "DESIGN.md section 3 / C15"

ALLOWED_DESTRUCTURE = {
    "utils.sequence_set_to_list": "the canonical interpreter",
    "parse.msg_set_to_str": "debug rendering of the parsed value",
    "parse.IMAPClientCommand._p_msg_set": "builds the value",
}


def _destructures(fi):
    """Loops `for elt in <x>` whose body tests elt == '*' and isinstance(elt, tuple|int)."""
    out = []
    for n in body_walk(fi.node):
        if isinstance(n, (ast.For,)) and isinstance(n.target, ast.Name):
            v = n.target.id
            star = tup = False
            for x in walk_no_nested(n):
                if isinstance(x, ast.Compare) and isinstance(x.left, ast.Name) and x.left.id == v and any(isinstance(c, ast.Constant) and c.value == "*" for c in x.comparators):
                    star = True
                if isinstance(x, ast.Call) and isinstance(x.func, ast.Name) and x.func.id == "isinstance" and x.args and isinstance(x.args[0], ast.Name) and x.args[0].id == v and "tuple" in norm(x.args[1]):
                    tup = True
            if star and tup:
                out.append(n)
        if isinstance(n, (ast.ListComp, ast.GeneratorExp)):
            g = n.generators[0]
            if isinstance(g.target, ast.Name) and "isinstance" in norm(n.elt) and "tuple" in norm(n.elt) and fi.key not in ALLOWED_DESTRUCTURE:
                out.append(n)
    return out


def r15_1(ctx):
    p = ctx.p
    n = 0
    for fi in p.functions.values():
        if fi.module in ("hashers", "generator"):
            continue
        d = _destructures(fi)
        if not d:
            continue
        n += 1
        ctx.analysed(fi)
        if fi.key in ALLOWED_DESTRUCTURE:
            ctx.ok("R15.1", where(fi), f"destructures a message set: {ALLOWED_DESTRUCTURE[fi.key]}")
        else:
            ctx.bad(
                "R15.1", fi.module, fi.qual, norm(d[0].iter if hasattr(d[0], "iter") else d[0], 80),
                f"{fi.qual} re-implements the message-set language instead of delegating to sequence_set_to_list: the two "
                "interpreters disagree (e.g. a reversed range `5:2` matches nothing here but denotes 2..5 canonically; "
                "`*:3` compares a number with the string '*' and raises TypeError)",
                d[0].lineno,
            )
    ctx.floor("R15.1", n, 1, "functions destructuring a message set")


P = None


def r15_3(ctx):
    global P
    p = ctx.p
    P = p
    sites = []
    for fi in p.functions.values():
        for c in calls_in(fi.node):
            if call_name(c) == "sequence_set_to_list":
                sites.append((fi, c))
    ctx.floor("R15.3", len(sites), 3, "call sites of sequence_set_to_list")
    for fi, c in sites:
        ctx.analysed(fi)
        smax = kwarg(c, "seq_max") or (c.args[1] if len(c.args) > 1 else None)
        uid = kwarg(c, "uid_cmd") or (c.args[2] if len(c.args) > 2 else None)
        uid_txt = norm(uid) if uid is not None else "False"
        okv, why = _seqmax_ok(fi, c, smax, uid_txt)
        if okv:
            ctx.ok("R15.3", where(fi), f"sequence_set_to_list(.., {norm(smax)}, uid_cmd={uid_txt}): {why}")
        else:
            ctx.bad("R15.3", fi.module, fi.qual, norm(c, 100), f"seq_max passed to the interpreter is not (last UID on the UID path / message count otherwise): {why}; `*` and `n:*` then denote the wrong message", c.lineno)


def _defs(fi, name):
    return [s for s in body_walk(fi.node) if isinstance(s, ast.Assign) and any(isinstance(t, ast.Name) and t.id == name for t in s.targets)]


def _seqmax_ok(fi, c, smax, uid_txt):
    if smax is None:
        return False, "no seq_max argument"
    st = norm(smax)
    uidpath = uid_txt not in ("False",)
    if isinstance(smax, ast.Name) and smax.id in [a.arg for a in fi.node.args.args] and fi.module == "search":
        # parameter of the search helper: what do its callers pass?
        ok_callers = []
        from ..astutil import calls_in as _ci
        for m, mfi in P.cls("IMAPSearch").methods.items():
            for c2 in _ci(mfi.node):
                if call_name(c2) == fi.name and c2.args:
                    a = norm(c2.args[0])
                    want = {"_match_uid": "self.ctx.uid_max", "_match_message_set": "self.ctx.seq_max"}.get(m)
                    if want is None or a != want:
                        return False, f"{m} passes {a}"
                    ok_callers.append(f"{m}: {a}")
        if ok_callers:
            return True, "search helper: " + "; ".join(ok_callers) + " (context maxima checked by C14 R14.4)"
        return False, "no caller found"
    if isinstance(smax, ast.Name):
        ds = _defs(fi, smax.id)
        vals = [norm(d.value) for d in ds]
        # tuple unpack `uid_vv, uid_max = self.get_uid_from_msg(max_msg_key)`
        tu = [s for s in body_walk(fi.node) if isinstance(s, ast.Assign) and isinstance(s.targets[0], ast.Tuple) and any(isinstance(e, ast.Name) and e.id == smax.id for e in s.targets[0].elts)]
        if tu and "get_uid_from_msg(max_msg_key)" in norm(tu[0].value):
            mk = _defs(fi, "max_msg_key")
            if mk and norm(mk[0].value) == "self.msg_keys[-1]" and uidpath:
                return True, "uid of the last message (get_uid_from_msg(msg_keys[-1])) on the UID path"
        # conditional definition under `if from_uids:` / else
        par_if = None
        from .common import parmap
        par = parmap(fi)
        cond_vals = {}
        for d in ds:
            pr = par.get(d)
            if isinstance(pr, ast.If):
                cond_vals[(norm(pr.test), d in pr.body)] = norm(d.value)
        if cond_vals:
            u = cond_vals.get((uid_txt, True))
            nu = cond_vals.get((uid_txt, False))
            if u and nu and u.startswith("self.uids[-1] if self.uids else") and nu in ("self.num_msgs", "len(self.msg_keys)"):
                return True, f"{smax.id} = uids[-1] (default when empty) under `{uid_txt}`, message count otherwise"
            return False, f"conditional definitions {cond_vals}"
        if len(vals) == 1 and vals[0] in ("len(self.msg_keys)", "self.num_msgs") and not uidpath:
            return True, "message count on the non-UID path"
        return False, f"{smax.id} defined as {vals}"
    if st in ("self.num_msgs", "len(self.msg_keys)") and not uidpath:
        return True, "message count on the non-UID path"
    return False, st


def _lohi_guard(lp, has_raise_if):
    """Alternative idiom: lo/hi = min/max (or ordered swap) of start/end, then `lo < 1 or hi > seq_max`."""
    lo = hi = None
    for n in ast.walk(lp):
        if isinstance(n, ast.Assign):
            v = norm(n.value)
            if isinstance(n.targets[0], ast.Name):
                if v in ("min(start, end)", "min(end, start)"):
                    lo = n.targets[0].id
                if v in ("max(start, end)", "max(end, start)"):
                    hi = n.targets[0].id
            elif isinstance(n.targets[0], ast.Tuple) and len(n.targets[0].elts) == 2:
                a, b = [norm(e) for e in n.targets[0].elts]
                if v in ("(end, start) if start > end else (start, end)", "(start, end) if start <= end else (end, start)", "sorted((start, end))", "(min(start, end), max(start, end))"):
                    lo, hi = a, b
    if not lo or not hi:
        return False
    return has_raise_if(lambda t: f"{lo} < 1" in t and f"{hi} > seq_max" in t and "not uid_cmd" in t)


def r15_4(ctx):
    p = ctx.p
    fi = p.func("utils.sequence_set_to_list")
    ctx.analysed(fi)
    body = fi.node.body
    loop = [s for s in body if isinstance(s, ast.For)]
    ctx.require(loop, "sequence_set_to_list: loop over the set not found")
    lp = loop[0]
    v = lp.target.id
    txts = [norm(x, 400) for x in ast.walk(lp)]
    alltxt = " || ".join(t for t in txts)

    def has_raise_if(pred):
        for n in ast.walk(lp):
            if isinstance(n, ast.If) and any(isinstance(b, ast.Raise) and "Bad" in norm(b) for b in n.body) and pred(norm(n.test, 400)):
                return True
        return False

    checks = [
        (any(isinstance(n, ast.If) and norm(n.test) == f"{v} == '*'" and any(f"result.append(seq_max)" in norm(b) for b in n.body) for n in ast.walk(lp)), "single '*' is replaced by seq_max"),
        (has_raise_if(lambda t: "seq_max == 0" in t and "not uid_cmd" in t), "'*' in an empty mailbox is rejected for non-UID sets"),
        (has_raise_if(lambda t: t == f"{v} < 1"), "numbers < 1 are rejected"),
        (has_raise_if(lambda t: f"{v} > seq_max" in t and "not uid_cmd" in t), "non-UID numbers > seq_max are rejected"),
        (has_raise_if(lambda t: all(k in t for k in ("start < 1", "end < 1", "start > seq_max", "end > seq_max", "not uid_cmd"))) or _lohi_guard(lp, has_raise_if), "non-UID ranges outside 1..seq_max are rejected"),
        (any(isinstance(n, ast.If) and norm(n.test) == "start == '*'" and any(norm(b) == "start = seq_max" for b in n.body) for n in ast.walk(lp)) and any(isinstance(n, ast.If) and norm(n.test) == "end == '*'" and any(norm(b) == "end = seq_max" for b in n.body) for n in ast.walk(lp)), "'*' at either end of a range is replaced by seq_max"),
    ]
    # both range orders inclusive
    rng = [n for n in ast.walk(lp) if isinstance(n, ast.If) and norm(n.test) in ("start > end", "end < start", "start <= end", "end >= start")]
    incl = False
    if rng:
        n = rng[0]
        b, o = " ".join(norm(x, 200) for x in n.body), " ".join(norm(x, 200) for x in n.orelse)
        if norm(n.test) in ("start > end", "end < start"):
            incl = "range(end, start + 1)" in b and "range(start, end + 1)" in o
        else:
            incl = "range(start, end + 1)" in b and "range(end, start + 1)" in o
    else:
        incl = any("range(min(start, end), max(start, end) + 1)" in t for t in txts)
        # ordered-swap idiom:  lo, hi = (end, start) if start > end else (start, end); range(lo, hi + 1)
        for n in ast.walk(lp):
            if isinstance(n, ast.Assign) and isinstance(n.targets[0], ast.Tuple) and len(n.targets[0].elts) == 2:
                a, b = [norm(e) for e in n.targets[0].elts]
                if norm(n.value) in ("(end, start) if start > end else (start, end)", "(start, end) if start <= end else (end, start)", "(min(start, end), max(start, end))"):
                    if any(f"range({a}, {b} + 1)" in t for t in txts):
                        incl = True
    checks.append((incl, "a range is expanded inclusively in whichever order it was written (a:b == b:a)"))
    rets = [s for s in body_walk(fi.node) if isinstance(s, ast.Return)]
    checks.append((bool(rets) and all("sorted(" in norm(r.value) and "set(" in norm(r.value) for r in rets), "result is sorted and de-duplicated"))
    for okv, what in checks:
        if okv:
            ctx.ok("R15.4", where(fi), what)
        else:
            ctx.bad("R15.4", fi.module, fi.qual, what, f"the canonical interpreter lost: {what}", fi.node.lineno)
    # UID sets silently skip unknown UIDs: mapping through _uid_to_idx with membership filter
    ms = p.func("mbox.Mailbox.msg_set_to_msg_seq_set")
    t = norm(ms.node, 6000)
    if "self._uid_to_idx[uid] + 1 for uid in msgs if uid in self._uid_to_idx" in t:
        ctx.ok("R15.4", where(ms), "UID -> sequence number mapping skips UIDs that do not exist and adds 1 to the index")
    else:
        ctx.bad("R15.4", ms.module, ms.qual, "[self._uid_to_idx[uid] + 1 for uid in msgs if uid in self._uid_to_idx]", "UID sets are no longer mapped through the UID table with unknown UIDs skipped", ms.node.lineno)
    cp = p.func("mbox.Mailbox.copy")
    t = norm(cp.node, 20000)
    if "if uid in self._uid_to_idx: msg_idx = self._uid_to_idx[uid] + 1" in t:
        ctx.ok("R15.4", where(cp), "COPY: UID -> sequence number mapping skips unknown UIDs (+1)")
    else:
        ctx.bad("R15.4", cp.module, cp.qual, "if uid in self._uid_to_idx: msg_idx = self._uid_to_idx[uid] + 1", "UID COPY no longer maps its set through the UID table", cp.node.lineno)


def run(ctx):
    r15_1(ctx)
    r15_3(ctx)
    r15_4(ctx)
    from . import c05, c06, c10
    c10.r10_4(ctx)
    c10.r10_4_units(ctx)
    c10.r10_3(ctx)
    c06.r6_6(ctx)
    c05.r5_7(ctx)
    ctx.note("R15.2 unit kinds (UID vs sequence-number lists at operation boundaries) decided by C10 R10.4; bounded expansion by C06 R6.6")
    for k, v in ALLOWED_DESTRUCTURE.items():
        ctx.trust(f"frozen: may destructure a message set: {k} - {v}")
