"""C19 - the front end relays exactly the commands the byte stream denotes.

 R19.1 no client line is read and discarded
 R19.2 the relay's read primitive cannot fail on a valid response stream
 R19.3 framing writer/reader agreement ({len}\\n + payload)
 R19.4 buffer accounting
 R19.5 '+' continuation exactly for accepted synchronising literals
 R19.6 the line terminator is removed without touching the front of the line
 R19.7 literals are taken by exact count; literal detection looks at the line just read
 R19.8 an over-long digit string as literal count is refused like any over-limit literal (no ValueError out of the loop)
"""
from __future__ import annotations

import ast

from .. import flow
from .. import regexlang as rl
from ..astutil import kwarg, body_walk, call_name, call_recv, calls_in, fstring_parts, merge_consts, names_in, norm, strip_await, walk_no_nested
from .common import parmap, where

PROP = "C19"
EXPLANATION = (
    "(R19.1) in IMAPClient.start every value returned by reader.readuntil/readline is bound and used (appended to the "
    "buffer or forwarded); a delimiter read whose value is dropped discards a client line - only a by-count read of the "
    "announced size of a refused non-synchronising literal may be discarded; (R19.2) in msgs_to_client (IMAP and POP3) the "
    "read primitive is read(n), or a readuntil whose LimitOverrunError arm stays in the loop and forwards the consumed "
    "bytes - responses contain literals with CRLF-free runs larger than the 128 KiB reader limit; (R19.3) the writer "
    "template f'{{{len(msg)}}}\\n' + msg lies in the language of the reader's RE_LITERAL_STRING_START followed by "
    "readexactly(int(group 1)) and the length hole is len() of the object written next; (R19.4) each ibuffer.append(e) is "
    "matched by ibuffer_size += len(e) (b'\\r\\n' <-> 2) and both are reset together; (R19.5) '+ ...' is pushed exactly on "
    "the path where a literal was announced, is within limits and group(2) is empty; (R19.6) the terminator is removed by "
    "an operation that cannot remove leading characters; (R19.7) the literal body is read with readexactly(<announced "
    "count>) and the literal pattern is searched in the very line just read. Decides these clauses, not independence from "
    "TCP segmentation (asyncio.StreamReader's contract)."
    ' (R19.8) the announced octet count is converted with int() inside a handler that keeps the session going: a count of more than 4300 digits is refused like any over-limit literal.'
)
RULE_TEXT = "instances: each read call of the front-end loop; each relay loop; each framing writer; each buffer append; each continuation push"
ASSUMPTIONS = ["asyncio.StreamReader: readexactly(n) returns exactly n bytes or raises; read(n) may return fewer; readuntil raises LimitOverrunError beyond the limit", "not decided: segmentation independence itself"]
LEVEL_TEXT = (
    "Static use-def, shape and agreement rules over the front-end read loop, the framing writer/reader pair and the relay "
    "loops: every rule is a necessary condition for relaying exactly the denoted commands/responses."
)
LEVEL_NOTE = "Structural clauses only. Trusted: CPython ast, re._parser; StreamReader contract."
TECHNIQUE = "use-def of read results + writer/reader (regex language) agreement + accounting pairing"
DESIGN_REF = "DESIGN.md section 3 / C19"


def _roles(ctx, fi):
    """Actual local names playing the roles line / match / announced length in IMAPClient.start (rename-invariant)."""
    from .common import pm_of

    ctx.analysed(fi)
    pm = pm_of(ctx.p, fi)
    # (what the pattern is searched in is decided by R19.7, not here)
    ok = pm.has("msg = await self.reader.readuntil(self.LINE_TERMINATOR)") and pm.has("m = RE_LITERAL_STRING_START.search(...)") and pm.has("literal_str_length = int(m.group(1))")
    ctx.require(ok, "IMAPClient.start: line read / literal detection / announced length not found")
    return {"msg": pm.name("msg"), "m": pm.name("m"), "L": pm.name("literal_str_length"), "pm": pm}


def _stmt(n, fi):
    par = parmap(fi)
    while not isinstance(n, ast.stmt):
        n = par[n]
    return n


def r19_1(ctx):
    p = ctx.p
    fi = p.func("server.IMAPClient.start")
    ctx.analysed(fi)
    n = 0
    for c in calls_in(fi.node):
        if call_name(c) in ("readuntil", "readline", "readexactly", "read") and "reader" in norm(call_recv(c) or ast.Name("")):
            n += 1
            st = _stmt(c, fi)
            if isinstance(st, ast.Expr):
                # the rest of a line that was refused because it is longer than the stream takes: its terminator has *not*
                # been read yet (LimitOverrunError leaves the data in the stream) - skipping to it is what keeps the next
                # command whole
                par_ = parmap(fi)
                cur_, in_overrun = st, False
                while cur_ in par_:
                    cur_ = par_[cur_]
                    if isinstance(cur_, ast.ExceptHandler) and cur_.type is not None and "LimitOverrunError" in norm(cur_.type):
                        in_overrun = True
                if call_name(c) in ("readexactly", "read"):
                    ctx.ok("R19.1", where(fi), f"{norm(c, 60)}: by-count read of refused literal data discarded", nontrivial=False)
                elif in_overrun:
                    ctx.ok("R19.1", where(fi), f"{norm(c, 60)}: rest of an over-long (refused) line skipped up to its own terminator")
                else:
                    ctx.bad(
                        "R19.1", fi.module, fi.qual, norm(c, 80),
                        "a delimiter-terminated read is performed and its result thrown away: after refusing an over-limit "
                        "literal the terminator was already consumed, so this drops the client's next line (for `{n}`) or the "
                        "first line of literal data (for `{n+}`), leaving the rest to be parsed as commands",
                        c.lineno,
                    )
            else:
                ctx.ok("R19.1", where(fi), f"{norm(st, 70)}: result bound")
    ctx.floor("R19.1", n, 2, "reader calls in the front-end loop")
    # refused non-synchronising literal: its data must be consumed by count (otherwise literal octets are parsed as commands)
    R = _roles(ctx, fi)
    big = [s for s in body_walk(fi.node) if isinstance(s, ast.If) and f"{R['L']} > MAX_INPUT_SIZE" in norm(s.test)]
    ctx.require(big, "start(): over-limit literal arm not found")
    arm = big[0]
    txt = " ".join(norm(s, 600) for s in arm.body)
    consumes = any(call_name(c) in ("readexactly", "read") for s in arm.body for c in calls_in(s)) and ("group(2)" in txt)
    if consumes:
        ctx.ok("R19.1", where(fi), "refused literal: data of a non-synchronising ({n+}) literal is consumed by count")
    else:
        ctx.bad(
            "R19.1", fi.module, fi.qual, "over-limit literal arm: `{n+}` data not consumed",
            "when an over-limit non-synchronising literal `{n+}` is refused its n octets (already on the wire) are not "
            "skipped by count: they are interpreted as command lines",
            arm.lineno,
        )


def r19_2(ctx):
    p = ctx.p
    for key in ("server.IMAPSubprocessInterface.msgs_to_client", "pop3_server.POP3SubprocessInterface.msgs_to_client"):
        fi = p.func(key)
        ctx.analysed(fi)
        reads = [c for c in calls_in(fi.node) if call_name(c) in ("readuntil", "read", "readline", "readexactly") and "reader" in norm(call_recv(c) or ast.Name(""))]
        ctx.require(reads, f"{key}: read call not found")
        for c in reads:
            nm = call_name(c)
            if nm == "read":
                ctx.ok("R19.2", where(fi), f"relay uses {norm(c, 50)} (cannot fail on long CRLF-free runs)")
                continue
            # readuntil: LimitOverrunError arm must stay inside the loop
            par = parmap(fi)
            loop = None
            cur = c
            while cur in par:
                if isinstance(par[cur], ast.While):
                    loop = par[cur]
                    break
                cur = par[cur]
            handled_inside = False
            if loop is not None:
                for t in [x for x in ast.walk(loop) if isinstance(x, ast.Try)]:
                    for h in t.handlers:
                        if h.type is not None and "LimitOverrunError" in norm(h.type):
                            handled_inside = True
            if handled_inside:
                ctx.ok("R19.2", where(fi), "readuntil with an in-loop LimitOverrunError arm")
            else:
                ctx.bad(
                    "R19.2", fi.module, fi.qual, norm(c, 80),
                    f"the relay reads with {nm}(CRLF): a response literal containing a CRLF-free run longer than the stream limit "
                    "(128 KiB, e.g. an unwrapped base64/binary body) raises LimitOverrunError, which is handled outside the loop "
                    "and ends the session in the middle of the response",
                    c.lineno,
                )
        # forwarded unmodified, in order
        pushes = [c for c in calls_in(fi.node) if call_name(c) == "push"]
        if pushes and all(len(c.args) == 1 and isinstance(c.args[0], ast.Name) for c in pushes):
            v = pushes[0].args[0].id
            assigned = [s for s in body_walk(fi.node) if isinstance(s, ast.Assign) and norm(s.targets[0]) == v]
            if len(assigned) == 1 and any(x in reads for x in calls_in(assigned[0].value)):
                ctx.ok("R19.2", where(fi), "what was read is pushed to the client unmodified, one push per read")
            else:
                ctx.bad("R19.2", fi.module, fi.qual, norm(pushes[0]), "relayed data is modified between read and push", pushes[0].lineno)
        else:
            ctx.bad("R19.2", fi.module, fi.qual, "push(msg)", "relay no longer pushes exactly what it read", fi.node.lineno)
        # nothing that was read is dropped: from the read, the only way round the loop or out of it that does not pass the
        # push is the one on which the chunk is empty
        if pushes and all(len(c.args) == 1 and isinstance(c.args[0], ast.Name) for c in pushes):
            from .. import flow
            v = pushes[0].args[0].id
            g = ctx.cfg(fi)
            rd = [n.id for n in g.nodes if n.ast is not None and n.kind == "stmt" and isinstance(n.ast, ast.Assign) and norm(n.ast.targets[0]) == v and any(x in reads for x in calls_in(n.ast))]
            pn = {n.id for n in g.nodes if n.ast is not None and n.kind == "stmt" and any(c in pushes for c in calls_in(n.ast))}
            loops = [w for w in ast.walk(fi.node) if isinstance(w, ast.While)]
            heads = {n.id for n in g.nodes if n.kind == "test" and any(n.ast is w.test for w in loops)}
            ctx.require(rd and pn and heads, f"{key}: read / push / loop of the relay not found")
            hit = flow.feasible_paths_exist(
                g, rd[0], heads | {g.exit}, lambda e: "chunk" if isinstance(e, ast.Name) and e.id == v else None,
                labels=flow.NORMAL, avoid=lambda n: n in pn, accept=lambda n, f: f.get("chunk") is not False,
            )
            ctx.paths_explored += 1
            if hit:
                ctx.bad("R19.2", fi.module, fi.qual, f"{v} read but not pushed", "the relay can go round its loop or leave it with a non-empty chunk it has read and not pushed: the tail of a response (the end of a literal, the tagged reply, BYE) is dropped", g.nodes[hit[0][-1]].line, flow.fmt_path(g, hit[0]))
            else:
                ctx.ok("R19.2", where(fi), "every non-empty chunk read is pushed before the next read / the end of the relay")


def _regex_src(p, mod):
    node = p.module_constant(mod, "RE_LITERAL_STRING_START")
    if isinstance(node, ast.Call) and node.args and isinstance(node.args[0], ast.Constant):
        v = node.args[0].value
        return v.decode("latin-1") if isinstance(v, bytes) else v
    return None


def _frames_ok(pat: str, accepted, refused) -> bool:
    """The pattern (searched, as the readers do) finds each accepted sample with the given groups and none of the refused."""
    import re as _re

    try:
        cre = _re.compile(pat.encode("latin-1"))
    except Exception:  # noqa: BLE001
        return False
    for sample, *groups in accepted:
        m = cre.search(sample.encode("latin-1"))
        if m is None:
            return False
        for i, gexp in enumerate(groups, 1):
            got = m.group(i) if i <= (cre.groups or 0) else None
            if (got.decode("latin-1") if got is not None else None) != gexp:
                return False
    return not any(cre.search(x.encode("latin-1")) for x in refused)


def r19_3(ctx):
    p = ctx.p
    pairs = [
        ("server.IMAPSubprocessInterface.message", "push", "user_server", "user_server.IMAPClientProxy.run"),
        ("pop3_server.POP3SubprocessInterface.message", "push_to_subprocess", "pop3_client", "pop3_client.POP3ClientProxy.run"),
    ]
    for wkey, wcall, rmod, rkey in pairs:
        w = p.func(wkey)
        r = p.func(rkey)
        ctx.analysed(w)
        ctx.analysed(r)
        wc = [c for c in calls_in(w.node) if call_name(c) == wcall and len(c.args) == 2]
        ctx.require(wc, f"{wkey}: framing write not found")
        c = wc[0]
        parts = merge_consts(fstring_parts(c.args[0]) or [])
        okw = len(parts) == 3 and parts[0] == "{" and parts[2] == "}\n" and isinstance(parts[1], ast.Call) and norm(parts[1]) == f"len({norm(c.args[1])})"
        if okw:
            ctx.ok("R19.3", where(w), f"writer frames as '{{' len({norm(c.args[1])}) '}}\\n' followed by {norm(c.args[1])} itself")
        else:
            ctx.bad("R19.3", w.module, w.qual, norm(c, 100), "the frame header is not '{' + len(<the very payload written next>) + '}\\n'", c.lineno)
        pat = _regex_src(p, rmod)
        ctx.require(pat, f"{rmod}.RE_LITERAL_STRING_START not a constant pattern", anchor=True)
        # the template "{<digits>}" before "\n" must be in the reader's language: group 1 digits-only, braces literal
        # (decided on the language, not on the spelling of the pattern: the frames the writer produces are matched, with
        # the count - digits only - in group 1)
        accepts = rl.group_digits_only(pat, 1) and _frames_ok(pat, [("{5}\n", "5"), ("{123456}\n", "123456"), ("{0}\n", "0")], [])
        rt = norm(r.node, 30000)
        from .common import pm_of
        prr = pm_of(p, r)
        reads = prr.has("msg = await self.reader.readuntil(self.LINE_TERMINATOR)") and prr.has("m = RE_LITERAL_STRING_START.search(msg)") and ((prr.has("length = int(m.group(1))") and prr.has("await self.reader.readexactly(length)")) or prr.has("await self.reader.readexactly(int(m.group(1)))"))
        lt = [s for s in p.cls(r.cls).node.body if isinstance(s, ast.Assign) and norm(s.targets[0]) == "LINE_TERMINATOR"]
        term_ok = lt and isinstance(lt[0].value, ast.Constant) and lt[0].value.value == b"\n"
        if accepts and reads and term_ok:
            ctx.ok("R19.3", where(r), f"reader: readuntil(b'\\n'), /{pat}/ group 1 digits, readexactly(int(group 1)) - accepts the writer's frames")
        else:
            ctx.bad("R19.3", r.module, r.qual, f"/{pat}/ + readexactly(length)", "the proxy's de-framing no longer matches the front end's frame format", r.node.lineno)
    # MAX_INPUT_SIZE guard on the proxy side
    r = p.func("user_server.IMAPClientProxy.run")
    from .common import pm_of
    prx = pm_of(p, r)
    if prx.has("length = int(m.group(1))") and prx.has("if length > MAX_INPUT_SIZE:\n    ...") and prx.has("await self.reader.readexactly(length)"):
        ctx.ok("R19.3", where(r), "frame length bounded by MAX_INPUT_SIZE before readexactly", nontrivial=False)
    else:
        ctx.bad("R19.3", r.module, r.qual, "if length > MAX_INPUT_SIZE", "proxy no longer bounds the frame length", r.node.lineno)


def r19_4(ctx):
    p = ctx.p
    fi = p.func("server.IMAPClient.start")
    par = parmap(fi)
    appends = [c for c in calls_in(fi.node) if call_name(c) == "append" and norm(call_recv(c)) == "self.ibuffer"]
    ctx.floor("R19.4", len(appends), 3, "ibuffer.append sites")
    # group appends by enclosing block; the sum of increments in that block must equal the sum of len() of appended items
    blocks = {}
    for c in appends:
        st = _stmt(c, fi)
        blk = par[st]
        blocks.setdefault(id(blk), (blk, []))[1].append(c)
    for _, (blk, cs) in blocks.items():
        body = blk.body if any(_stmt(c, fi) in getattr(blk, "body", []) for c in cs) else getattr(blk, "orelse", [])
        want = []
        for c in cs:
            a = c.args[0]
            if isinstance(a, ast.Constant) and isinstance(a.value, bytes):
                want.append(str(len(a.value)))
            else:
                want.append(f"len({norm(a)})")
        incs = [s for s in body if isinstance(s, ast.AugAssign) and norm(s.target) == "self.ibuffer_size" and isinstance(s.op, ast.Add)]
        got = " + ".join(norm(s.value) for s in incs)
        # compare as multisets of summands
        gs = sorted(x.strip() for s in incs for x in norm(s.value).split("+"))
        ws = sorted(want)
        if gs == ws:
            ctx.ok("R19.4", where(fi), f"appends {ws} matched by ibuffer_size += {got}")
        else:
            ctx.bad("R19.4", fi.module, fi.qual, f"append {ws} vs += {gs}", "the buffer size accounting does not match what is appended: the MAX_INPUT_SIZE limit is enforced on a wrong total (oversized commands relayed, or valid ones refused)", cs[0].lineno)
    # resets come in pairs
    res_b = [s for s in body_walk(fi.node) if isinstance(s, ast.Assign) and norm(s.targets[0]) == "self.ibuffer" and norm(s.value) == "[]"]
    res_s = [s for s in body_walk(fi.node) if isinstance(s, ast.Assign) and norm(s.targets[0]) == "self.ibuffer_size" and norm(s.value) == "0"]
    okp = len(res_b) == len(res_s) and all(any(abs(a.lineno - b.lineno) == 1 for b in res_s) for a in res_b)
    if okp:
        ctx.ok("R19.4", where(fi), f"buffer and its size are reset together ({len(res_b)} sites)")
    else:
        ctx.bad("R19.4", fi.module, fi.qual, "self.ibuffer = []; self.ibuffer_size = 0", "buffer and size counter are not reset together", fi.node.lineno)
    # the complete command is b"".join(ibuffer), handed over exactly once per command, then reset
    t = norm(fi.node, 40000)
    from .common import pm_of
    pj = pm_of(p, fi)
    if pj.has("msg = b''.join(self.ibuffer)") and pj.has("client_connected = await self.subprocess_intf.message(msg)"):
        ctx.ok("R19.4", where(fi), "assembled command = b''.join(ibuffer) handed to the message processor")
    else:
        ctx.bad("R19.4", fi.module, fi.qual, "b''.join(self.ibuffer)", "the assembled command is no longer the concatenation of the buffered pieces", fi.node.lineno)
    R = _roles(ctx, fi)
    for lim in ("self.ibuffer_size > MAX_INPUT_SIZE", f"{R['L']} > MAX_INPUT_SIZE"):
        if lim in t:
            ctx.ok("R19.4", where(fi), f"limit test `{lim}` present", nontrivial=False)
        else:
            ctx.bad("R19.4", fi.module, fi.qual, lim, f"limit test `{lim}` vanished", fi.node.lineno)


def r19_5(ctx):
    p = ctx.p
    fi = p.func("server.IMAPClient.start")
    g = ctx.cfg(fi)
    plus = [n.id for n in g.nodes if n.ast is not None and n.kind == "stmt" and any(call_name(c) == "push" and c.args and isinstance(c.args[0], ast.Constant) and isinstance(c.args[0].value, bytes) and c.args[0].value.startswith(b"+") for c in calls_in(n.ast))]
    if len(plus) != 1:
        ctx.bad("R19.5", fi.module, fi.qual, "push(b'+ ...')", f"expected exactly one continuation push, found {len(plus)}", fi.node.lineno)
        return

    R = _roles(ctx, fi)

    def cls(e):
        t = norm(e)
        if t == R["m"]:
            return "lit"
        if t == f"{R['m']}.group(2)":
            return "nonsync"
        if t == f"{R['L']} > MAX_INPUT_SIZE":
            return "toobig"
        return None

    heads = [n.id for n in g.nodes if n.kind == "test" and isinstance(n.stmt, ast.While)]
    # reaching '+' requires lit=True, toobig=False, nonsync=False
    hit = flow.feasible_paths_exist(g, heads[0], set(plus), cls, labels=flow.NORMAL, accept=lambda t, f: not (f.get("lit") is True and f.get("toobig") is False and f.get("nonsync") is False))
    ctx.paths_explored += 1
    if hit:
        ctx.bad("R19.5", fi.module, fi.qual, norm(g.nodes[plus[0]].ast), "the '+' continuation can be sent on a path where no literal was announced / it was refused / it is non-synchronising", g.nodes[plus[0]].line, flow.fmt_path(g, hit[0]))
    else:
        ctx.ok("R19.5", where(fi), "'+' only after: literal announced, within limit, synchronising")
    # and conversely the literal read is preceded by '+' on the synchronising path
    rd = [n.id for n in g.nodes if n.ast is not None and n.kind == "stmt" and f"readexactly({R['L']})" in norm(n.ast)]
    ctx.require(rd, "start(): literal read not found")
    hit = flow.feasible_paths_exist(g, heads[0], set(rd), cls, labels=flow.NORMAL, avoid=lambda n: n in plus, accept=lambda t, f: f.get("nonsync") is False)
    ctx.paths_explored += 1
    if hit:
        ctx.bad("R19.5", fi.module, fi.qual, "readexactly without '+'", "a synchronising literal is awaited without the '+' continuation having been sent: the client never sends it", g.nodes[rd[0]].line, flow.fmt_path(g, hit[0]))
    else:
        ctx.ok("R19.5", where(fi), "a synchronising literal is read only after '+' was sent")
    # group 2 of the pattern is the '+'
    pat = _regex_src(p, "server")
    if pat and _frames_ok(
        pat,
        [("A1 APPEND x {12+}", "12", "+"), ("A1 APPEND x {12}", "12", None), ("{5}", "5", None), ("a {3} b {00004+}", "00004", "+")],
        ["x {12} y", "{12+}x", "{+}", "{12++}", "{ 12}", "12}", "{12"],
    ):
        ctx.ok("R19.5", "server:<module>", f"/{pat}/: group 1 the count, group 2 the optional '+', anchored at the end of the line", nontrivial=False)
    else:
        ctx.bad("R19.5", "server", "<module>", f"/{pat}/", "literal pattern is no longer '{digits}[+]' anchored at the end of the line", 0)


def r19_5b(ctx):
    """A literal may stand anywhere an astring / nstring may: after a space, but also right after `(` or `[`
    (`ID ({4}`, `BODY.PEEK[HEADER.FIELDS ({4}`, LIST-EXTENDED patterns).  The front end finds a declaration by searching
    the line just read for `{digits}[+]` *at its end* - whatever comes before the brace.  A pattern that also constrains
    the character in front of the brace stops recognising legal declarations: the truncated line is relayed as a command
    and the client waits for a `+` that never comes (or its literal octets are read as commands)."""
    import re._parser as sre  # type: ignore[import-not-found]

    p = ctx.p
    pat = _regex_src(p, "server")
    ctx.require(pat is not None, "RE_LITERAL_STRING_START not found", anchor=True)
    src = pat.decode("latin-1") if isinstance(pat, bytes) else pat
    try:
        items = list(sre.parse(src))
    except Exception as e:  # noqa: BLE001
        ctx.bad("R19.5", "server", "<module>", f"/{src}/", f"literal pattern does not parse: {e}", 0)
        return
    first = items[0] if items else None
    if first is not None and str(first[0]) == "LITERAL" and first[1] == ord("{"):
        ctx.ok("R19.5", "server:<module>", f"/{src}/ begins with the brace itself: a declaration is recognised whatever precedes it on the line")
    else:
        ctx.bad("R19.5", "server", "<module>", f"/{src}/", "the literal pattern constrains what stands in front of `{`: a declaration that directly follows `(` or `[` (`ID ({4}`, `BODY.PEEK[HEADER.FIELDS ({4}`) is no longer recognised - the line is relayed truncated and the literal's octets are taken for commands", 0)


def r19_6_7(ctx):
    p = ctx.p
    fi = p.func("server.IMAPClient.start")
    t = norm(fi.node, 40000)
    R = _roles(ctx, fi)
    MSG = R["msg"]
    strips = [s for s in body_walk(fi.node) if isinstance(s, ast.Assign) and norm(s.targets[0]) == MSG and isinstance(s.value, (ast.Call, ast.Subscript)) and MSG in names_in(s.value) and "readuntil" not in norm(s.value) and "readexactly" not in norm(s.value) and "join" not in norm(s.value)]
    if not strips:
        ctx.bad("R19.6", fi.module, fi.qual, "terminator strip", "the line terminator is no longer removed from the line read", fi.node.lineno)
    for s in strips:
        v = s.value
        okv = False
        if isinstance(v, ast.Call) and call_name(v) in ("rstrip", "removesuffix"):
            okv = True
        if isinstance(v, ast.Subscript) and isinstance(v.slice, ast.Slice) and v.slice.lower is None:
            okv = True
        if okv:
            ctx.ok("R19.6", where(fi), f"{norm(s)} removes characters only at the end of the line")
        else:
            ctx.bad("R19.6", fi.module, fi.qual, norm(s), "the terminator is removed with an operation that also strips the *front* of the line: the line continuing a command after a literal loses its leading space, so `LOGIN {4}\\r\\nfred {6}\\r\\nsesame` is assembled without the separator", s.lineno)
    # R19.7
    if R["pm"].has("msg2 = await self.reader.readexactly(literal_str_length)") or f"= await self.reader.readexactly({R['L']})" in t:
        ctx.ok("R19.7", where(fi), "literal body read with readexactly(<announced count>)")
    else:
        ctx.bad("R19.7", fi.module, fi.qual, "readexactly(literal_str_length)", "the literal body is not read with readexactly(announced count): read(n) returns whatever is buffered, so a literal split across segments is truncated and its rest parsed as commands", fi.node.lineno)
    srch = [c for c in calls_in(fi.node) if call_name(c) == "search" and "RE_LITERAL_STRING_START" in norm(c.func)]
    ctx.require(srch, "start(): literal detection not found")
    if all(len(c.args) == 1 and norm(c.args[0]) == MSG for c in srch):
        ctx.ok("R19.7", where(fi), "literal pattern searched in the line just read; count = int(group 1)")
    else:
        ctx.bad("R19.7", fi.module, fi.qual, norm(srch[0]), "the literal pattern is searched in something other than the line just read (e.g. the last buffered piece, which may be literal *content* ending in `{n}`)", srch[0].lineno)
    if f"{MSG} = await self.reader.readuntil(self.LINE_TERMINATOR)" in t:
        lt = [s for s in p.cls("IMAPClient").node.body if isinstance(s, ast.Assign) and norm(s.targets[0]) == "LINE_TERMINATOR"]
        if lt and isinstance(lt[0].value, ast.Constant) and lt[0].value.value == b"\r\n":
            ctx.ok("R19.7", where(fi), "client lines are read up to CRLF", nontrivial=False)
        else:
            ctx.bad("R19.7", fi.module, fi.qual, "LINE_TERMINATOR", "client line terminator is no longer CRLF", fi.node.lineno)
    else:
        ctx.bad("R19.7", fi.module, fi.qual, "readuntil(self.LINE_TERMINATOR)", "client lines are no longer read up to the line terminator", fi.node.lineno)


def r19_8(ctx):
    """The announced octet count is converted with int(): a count of more than 4300 digits raises ValueError there."""
    p = ctx.p
    fi = p.func("server.IMAPClient.start")
    R = _roles(ctx, fi)
    par = parmap(fi)
    sites = [s for s in body_walk(fi.node) if isinstance(s, ast.Assign) and norm(s.targets[0]) == R["L"] and isinstance(s.value, ast.Call) and call_name(s.value) == "int"]
    ctx.floor("R19.8", len(sites), 1, "int() conversions of the announced literal count")
    pat = _regex_src(p, "server")
    ctx.require(pat is not None, "RE_LITERAL_STRING_START not found", anchor=True)
    try:
        width = rl.group_max_width(pat.decode("latin-1") if isinstance(pat, bytes) else pat, 1)
    except Exception:  # noqa: BLE001
        width = None
    # number = 1*DIGIT: a count is a literal announcement however many digits it has (leading zeros, a count beyond any
    # limit - that one must be *refused* as a literal, not relayed as the end of a command whose octets then read as commands)
    if width is not None and width < 65535:
        ctx.bad("R19.8", "server", "<module>", f"RE_LITERAL_STRING_START = {pat!r}", f"the pattern recognises a literal announcement of at most {width} digits: `{{{'0' * width}4+}}` or an over-long count is taken for the end of the command line - no `+`, no refusal - and the literal's octets are then read and relayed as commands", 1)
    for s in sites:
        cur, handler = s, None
        while cur in par:
            pr = par[cur]
            if isinstance(pr, ast.Try) and cur in pr.body:
                for h in pr.handlers:
                    names = {norm(t).split(".")[-1] for t in (h.type.elts if isinstance(h.type, ast.Tuple) else [h.type])} if h.type else {"BaseException"}
                    if names & {"ValueError", "Exception", "BaseException"}:
                        handler = h
                break
            if isinstance(pr, (ast.While, ast.For, ast.AsyncFor)):
                break  # a handler outside the read loop ends the session
            cur = pr
        if handler is not None and not any(isinstance(x, (ast.Raise, ast.Return, ast.Break)) for st in handler.body for x in walk_no_nested(st)):
            ctx.ok("R19.8", where(fi), f"{norm(s)}: digit count unbounded, ValueError handled inside the read loop (session continues)")
        else:
            ctx.bad(
                "R19.8", fi.module, fi.qual, norm(s),
                "the literal pattern admits any number of digits and int() raises ValueError beyond 4300 of them: "
                "`A1 LOGIN {99...9}` ends the connection through the catch-all handler instead of being refused with BAD",
                s.lineno,
            )


def r19_9(ctx):
    """Arm-exact shape of the refusals and of the loop's control flow in IMAPClient.start: which arm refuses, and that a
    refusal / a consumed literal goes back to reading instead of falling through to the relay."""
    from .common import pm_of

    p = ctx.p
    fi = p.func("server.IMAPClient.start")
    ctx.analysed(fi)
    pm = pm_of(p, fi)
    pm.has("msg = await self.reader.readuntil(self.LINE_TERMINATOR)")
    pm.has("m = RE_LITERAL_STRING_START.search(...)")
    pm.has("literal_str_length = int(m.group(1))")
    checks = [
        (["if msg:\n    self.ibuffer.append(msg)\n    ..."],
         "a non-empty line is kept", "the line just read is not appended exactly when it is non-empty: client lines are dropped"),
        (["if not self.ibuffer:\n    await self.push(...)\n    continue", "if not self.ibuffer:\n    await self.push(...)\nelse:\n    ..."],
         "an empty command gets BAD and the loop reads on", "the empty-command refusal fires on the wrong arm or does not go back to reading: an empty buffer is relayed / every command is refused"),
        (["if literal_str_length > MAX_INPUT_SIZE:\n    ...\n    await self.push(...)\n    ...\n    continue", "if literal_str_length >= MAX_INPUT_SIZE:\n    ...\n    await self.push(...)\n    ...\n    continue"],
         "an over-limit literal gets BAD and the loop reads on (the literal is not read)", "the over-limit literal refusal fires on the wrong arm, or falls through to reading the literal"),
        (["if m.group(2):\n    remaining = literal_str_length\n    while remaining > 0:\n        skipped = await self.reader.read(...)\n        if not skipped:\n            break\n        remaining -= len(skipped)"],
         "the octets of a refused non-synchronising literal are skipped by count (only for `{n+}`)", "the skip of a refused `{n+}` literal's octets is on the wrong arm or no longer counts down by what was read: literal octets are parsed as commands, or the connection hangs waiting for octets a `{n}` client never sends"),
        (["if self.ibuffer_size > MAX_INPUT_SIZE:\n    ...\n    await self.push(...)\n    ...\n    continue", "if self.ibuffer_size >= MAX_INPUT_SIZE:\n    ...\n    await self.push(...)\n    ...\n    continue"],
         "an over-limit command gets BAD and is not relayed", "the over-limit command refusal fires on the wrong arm or falls through to the relay"),
    ]
    for pats, okmsg, badmsg in checks:
        if any(pm.has(x) for x in pats):
            ctx.ok("R19.9", where(fi), okmsg)
        else:
            ctx.bad("R19.9", fi.module, fi.qual, pats[0].split("\n")[0], badmsg, fi.node.lineno)
    # both size tests (after a literal, and before assembling) must be arm-exact
    sz = [n for n in body_walk(fi.node) if isinstance(n, ast.If) and "ibuffer_size" in norm(n.test) and "MAX_INPUT_SIZE" in norm(n.test)]
    ctx.floor("R19.9", len(sz), 2, "size tests of the accumulated command")
    for n in sz:
        okv = isinstance(n.test, ast.Compare) and isinstance(n.test.ops[0], (ast.Gt, ast.GtE)) and norm(n.test.left) == "self.ibuffer_size" and isinstance(n.body[-1], ast.Continue) and any(call_name(c) == "push" for st in n.body for c in calls_in(st))
        if okv:
            ctx.ok("R19.9", where(fi), f"size test @{n.lineno}: refuses above the limit, then reads on", nontrivial=False)
        else:
            ctx.bad("R19.9", fi.module, fi.qual, norm(n.test), "a size test of the accumulated command no longer refuses (BAD + continue) exactly above the limit", n.lineno)
    # after a literal was consumed the loop goes back to reading (the rest of the line follows)
    mifs = [n for n in body_walk(fi.node) if isinstance(n, ast.If) and norm(n.test) == (pm.name("m") or "m")]
    if mifs and isinstance(mifs[0].body[-1], ast.Continue):
        ctx.ok("R19.9", where(fi), "after a literal the loop reads the continuation of the line before anything is relayed")
    else:
        ctx.bad("R19.9", fi.module, fi.qual, "if m: ... continue", "after consuming a literal the loop falls through to the relay: a command is passed on before its line is complete", mifs[0].lineno if mifs else fi.node.lineno)


def r19_10(ctx):
    """A command line is read with StreamReader.readuntil(), which refuses a line longer than the stream's `limit` with
    LimitOverrunError (64 KiB unless the server was told otherwise).  (a) The front end's server gives its streams
    limit=MAX_INPUT_SIZE: a line as long as a command may be is a command.  (b) The read of a line in IMAPClient.start sits in a
    try whose LimitOverrunError handler sends a BAD and goes on with the loop (no break / return / raise): the connection is not
    dropped and the commands behind the refused one are served."""
    p = ctx.p
    srv = p.func("server.IMAPServer.run")
    ctx.analysed(srv)
    ss = [c for c in calls_in(srv.node) if call_name(c) == "start_server"]
    ctx.floor("R19.10", len(ss), 1, "asyncio.start_server calls of the front end")
    for c in ss:
        lim = kwarg(c, "limit")
        if lim is not None and norm(lim) in ("MAX_INPUT_SIZE",) or (isinstance(lim, ast.BinOp) and "MAX_INPUT_SIZE" in norm(lim) and isinstance(lim.op, (ast.Add, ast.Mult))):
            ctx.ok("R19.10", where(srv), f"start_server(..., limit={norm(lim)})")
        else:
            ctx.bad("R19.10", srv.module, srv.qual, norm(c, 90), f"the client streams are created with limit={norm(lim) if lim is not None else 'the 64 KiB default'}: a command line longer than that (a long UID FETCH list, well within MAX_INPUT_SIZE) raises LimitOverrunError in readuntil() - the command is not relayed", c.lineno)
    fi = p.func("server.IMAPClient.start")
    ctx.analysed(fi)
    par = parmap(fi)
    reads = [c for c in calls_in(fi.node) if call_name(c) == "readuntil" and isinstance(_stmt(c, fi), ast.Assign)]
    ctx.floor("R19.10", len(reads), 1, "line reads in IMAPClient.start")
    for c in reads:
        handler = None
        cur = c
        while cur in par and handler is None:
            up = par[cur]
            if isinstance(up, ast.Try) and any(cur is b or any(cur is x for x in ast.walk(b)) for b in up.body):
                for h in up.handlers:
                    if h.type is not None and "LimitOverrunError" in norm(h.type):
                        handler = h
                if handler is None and isinstance(up, ast.Try):
                    pass
            if isinstance(up, (ast.While, ast.For, ast.AsyncFor)):
                break
            cur = up
        if handler is None:
            ctx.bad("R19.10", fi.module, fi.qual, norm(c, 70), "LimitOverrunError of the line read is not handled inside the read loop: a line longer than the stream takes ends the connection without a BAD, and every command behind it is dropped", c.lineno)
            continue
        says_bad = any(call_name(x) == "push" and any(isinstance(k, ast.Constant) and isinstance(k.value, (bytes, str)) and (b"BAD" in k.value if isinstance(k.value, bytes) else "BAD" in k.value) for a in x.args for k in ast.walk(a)) for x in ast.walk(handler) if isinstance(x, ast.Call))
        leaves = [x for st in handler.body for x in walk_no_nested(st) if isinstance(x, (ast.Return, ast.Raise))] + [st for st in handler.body if isinstance(st, ast.Break)]
        goes_on = bool(handler.body) and isinstance(handler.body[-1], ast.Continue)
        if says_bad and goes_on and not leaves:
            ctx.ok("R19.10", where(fi), "over-long line: BAD, skipped, the loop goes on")
        else:
            ctx.bad("R19.10", fi.module, fi.qual, "except asyncio.LimitOverrunError: ...", "the handler for an over-long line does not (send a BAD and) go on reading: the command is dropped silently or the session ends", handler.lineno)


def run(ctx):
    ctx.do(r19_8)
    ctx.do(r19_1)
    ctx.do(r19_2)
    ctx.do(r19_3)
    ctx.do(r19_4)
    ctx.do(r19_5)
    ctx.do(r19_5b)
    ctx.do(r19_6_7)
    ctx.do(r19_9)
    ctx.do(r19_10)
