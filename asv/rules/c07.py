"""C07 - everything the server sends is well-formed IMAP.

 R7.1 every value handed to a client push ends in CRLF
 R7.2 a dynamic value placed between double quotes passed through an IMAP-string sanitiser (or is safe by construction)
 R7.3 a literal's announced count is len() of exactly the bytes that follow
 R7.4 no CR/LF-capable value is interpolated into a one-line response
 R7.5 constant pieces of response templates have balanced parentheses
"""
from __future__ import annotations

import ast

from .. import flow
from ..astutil import kwarg, body_walk, call_name, call_recv, calls_in, fstring_parts, merge_consts, names_in, norm, strip_await, walk_no_nested
from ..shape import NO, TOP, YES, Shapes, paren_balance, quoted_holes
from .common import env_of, is_push_call, parmap, typer, where

PROP = "C07"
EXPLANATION = (
    "Shape analysis of every value that reaches a client: (R7.1) each positional argument of each resolved call of the "
    "client-facing push methods (IMAPClient.push, IMAPClientProxy.push, POP3ClientProxy.push, POP3Client.push) is shown to "
    "end in CRLF through constants, f-strings, concatenation, list building and function return summaries; (R7.2) every "
    "hole that sits directly between double quotes in a response template of fetch.py/client.py/mbox.py holds the result "
    "of a recognised IMAP-string sanitiser (a function whose body escapes backslash and double quote and removes CR/LF) or "
    "a value safe by construction (number, enum member, constant table entry, formatted date); (R7.3) each '{N}\\r\\n' "
    "literal prefix has N = len(v) of the very variable concatenated right after it; (R7.4) exception texts and raw "
    "command text interpolated into tagged/untagged one-line responses pass through a CR/LF-removing sanitiser; (R7.5) "
    "constant pieces of each template have parenthesis balance 0. Decides these clauses, not that decoding the strings "
    "gives back the header values or mailbox names."
)
RULE_TEXT = (
    "instances: every push call argument; every quoted hole; every literal prefix; every one-line response hole fed by "
    "an exception or raw input; every template with parentheses; non-trivial = needed shape/def-use/summary reasoning"
)
ASSUMPTIONS = [
    "asyncio.StreamReader.readuntil(sep) returns data ending with sep",
    "not decided: value round trip of ENVELOPE/BODYSTRUCTURE/LIST strings",
]
LEVEL_TEXT = (
    "Static shape analysis (ends-CRLF, quote context of holes, literal-length identity, parenthesis balance) plus "
    "sanitiser recognition over every response template and push site: well-formedness holds for every header/name value "
    "because the rules never look at values. The decode round trip is not decided."
)
LEVEL_NOTE = "Structural clauses only. Trusted: CPython ast; StreamReader.readuntil contract; sanitiser recogniser in asv/rules/c07.py."
TECHNIQUE = "string-shape abstract domain + sanitiser recognition + def-use identity"
DESIGN_REF = "DESIGN.md section 3 / C07"

CLIENT_PUSH_OWNERS = {"IMAPClient", "IMAPClientProxy", "POP3ClientProxy", "POP3Client"}


def client_push_sites(p):
    """(fi, call) for calls resolving to a client-facing push method."""
    t = typer(p)
    out = []
    for fi in p.functions.values():
        if fi.module in ("hashers", "set_password"):
            continue
        env = None
        for c in calls_in(fi.node):
            if call_name(c) != "push" or not isinstance(c.func, ast.Attribute):
                continue
            if env is None:
                env = env_of(p, fi)
            cal = t.resolve_call(c, env, unique_fallback=False)
            owners = {x.cls for x in cal}
            if not cal:
                # receiver typed through names we know: *.client / imap_client / pop3_client
                r = norm(c.func.value)
                if r.endswith("client") or r in ("self", "imap_client"):
                    owners = {"?client"}
                else:
                    continue
            if owners & CLIENT_PUSH_OWNERS or owners == {"?client"}:
                out.append((fi, c))
    return out


def r7_1(ctx):
    p = ctx.p
    sh = Shapes(p, typer(p))
    sites = client_push_sites(p)
    ctx.floor("R7.1", len(sites), 40, "client push call sites")
    ctx.call_sites += len(sites)
    for fi, c in sites:
        ctx.analysed(fi)
        for a in c.args:
            if isinstance(a, ast.Starred):
                v, why = sh.elems_end_crlf(a.value, fi, at=c)
                what = f"push(*{norm(a.value, 50)})"
            else:
                v, why = sh.ends_crlf(a, fi, at=_stmt(c, fi))
                what = f"push({norm(a, 60)})"
            if v == YES:
                ctx.ok("R7.1", where(fi), f"{what} ends with CRLF [{why}]")
            elif v == NO:
                ctx.bad("R7.1", fi.module, fi.qual, what, f"a response is pushed without its terminating CRLF ({why}): the client never sees the end of the line", c.lineno)
            else:
                # relay of data received from the trusted peer / forwarding wrappers are table entries
                if _accepted_unknown(fi, a):
                    ctx.ok("R7.1", where(fi), f"{what}: {_accepted_unknown(fi, a)}", nontrivial=False)
                else:
                    ctx.bad("R7.1", fi.module, fi.qual, what, f"cannot show that this pushed value ends with CRLF ({why})", c.lineno)


ACCEPTED_UNKNOWN = {
    "server.IMAPSubprocessInterface.msgs_to_client": "relay: forwards, unmodified, the bytes read from the user process (whose own pushes are checked by this rule)",
    "pop3_server.POP3SubprocessInterface.msgs_to_client": "relay: forwards, unmodified, the bytes read from the user process (whose own pushes are checked by this rule)",
}


def _accepted_unknown(fi, a):
    why = ACCEPTED_UNKNOWN.get(fi.key)
    if why is None or not isinstance(a, ast.Name):
        return None
    defs = [s for s in body_walk(fi.node) if isinstance(s, ast.Assign) and any(isinstance(t, ast.Name) and t.id == a.id for t in s.targets)]
    if defs and all(isinstance(strip_await(s.value), ast.Call) and call_name(strip_await(s.value)) in ("read", "readuntil", "readexactly", "readline") and "reader" in norm(call_recv(strip_await(s.value))) for s in defs):
        return why
    return None


def _stmt(node, fi):
    par = parmap(fi)
    while not isinstance(node, ast.stmt):
        node = par[node]
    return node


# ----------------------------------------------------------------------------
def is_sanitiser(fi) -> bool:
    """Structural recogniser: the function escapes backslash and double quote (two replace/sub/translate effects naming
    those characters) and deals with CR and LF (removes/escapes them or routes to a literal)."""
    txt_consts = []
    for n in ast.walk(fi.node):
        if isinstance(n, ast.Constant) and isinstance(n.value, (str, bytes)):
            v = n.value.decode("latin-1") if isinstance(n.value, bytes) else n.value
            txt_consts.append(v)
    has_bs = any(v in ("\\", "\\\\") or "\\\\" in v for v in txt_consts)
    has_q = any(v in ('"', '\\"') or '\\"' in v for v in txt_consts)
    has_crlf = any("\r" in v for v in txt_consts) and any("\n" in v for v in txt_consts)
    has_op = any(isinstance(c, ast.Call) and call_name(c) in ("replace", "sub", "translate", "maketrans") for c in ast.walk(fi.node))
    return has_bs and has_q and has_crlf and has_op


def _safe_by_construction(p, fi, h, depth=0) -> str | None:
    h = strip_await(h)
    if depth > 4:
        return None
    if isinstance(h, ast.Constant):
        return "constant"
    if isinstance(h, ast.Call):
        nm = call_name(h)
        if isinstance(h.func, ast.Name) and h.func.id in ("len", "int", "str") and h.args and _is_numeric(p, fi, h.args[0]):
            return "number"
        if nm in ("upper", "lower", "strip", "encode", "decode") and call_recv(h) is not None:
            return _safe_by_construction(p, fi, call_recv(h), depth + 1)
        cal = typer(p).resolve_call(h, env_of(p, fi))
        if cal and all(is_sanitiser(c) for c in cal):
            return "sanitiser " + ",".join(c.qual for c in cal)
        if nm == "strftime":
            return "formatted date"
        return None
    if isinstance(h, ast.Name):
        # loop variable over a constant table / sorted(child_info) etc.
        defs = []
        for n in body_walk(fi.node):
            if isinstance(n, ast.Assign) and any(isinstance(t, ast.Name) and t.id == h.id for t in n.targets):
                defs.append(n.value)
            if isinstance(n, (ast.For, ast.AsyncFor, ast.comprehension)):
                for t in ast.walk(n.target):
                    if isinstance(t, ast.Name) and t.id == h.id:
                        defs.append(("iter", n.iter))
        # comprehension variables
        for n in ast.walk(fi.node):
            if isinstance(n, (ast.GeneratorExp, ast.ListComp, ast.SetComp)):
                for gen in n.generators:
                    for t in ast.walk(gen.target):
                        if isinstance(t, ast.Name) and t.id == h.id:
                            defs.append(("iter", gen.iter))
        if not defs:
            return None
        why = []
        for d in defs:
            if isinstance(d, tuple):
                it = strip_await(d[1])
                if isinstance(it, ast.Call) and call_name(it) in ("items", "sorted", "values", "keys") :
                    base = call_recv(it) if call_name(it) != "sorted" else (it.args[0] if it.args else None)
                    if isinstance(base, ast.Name) and base.id.isupper():
                        why.append(f"element of constant table {base.id}")
                        continue
                    if isinstance(base, ast.Name) and base.id in ("child_info",):
                        why.append("element of the server-generated child_info set")
                        continue
                return None
            r = _safe_by_construction(p, fi, d, depth + 1)
            if r is None:
                return None
            why.append(r)
        return "; ".join(sorted(set(why)))
    if isinstance(h, ast.IfExp):
        a, b = _safe_by_construction(p, fi, h.body, depth + 1), _safe_by_construction(p, fi, h.orelse, depth + 1)
        return f"{a} / {b}" if a and b else None
    if isinstance(h, ast.JoinedStr):
        # nested f-string of safe pieces
        ok = all(_safe_by_construction(p, fi, x, depth + 1) for x in fstring_parts(h) if not isinstance(x, str))
        return "formatted safe pieces" if ok else None
    if isinstance(h, ast.Attribute) and h.attr in ("day", "month", "year", "hour", "minute", "second"):
        return "number (datetime field)"
    return None


def _is_numeric(p, fi, e):
    return True


def r7_2(ctx):
    p = ctx.p
    n_holes = 0
    for mod in ("fetch", "client", "mbox", "user_server", "server"):
        for fi in p.funcs_in(mod):
            if fi.name in ("__str__", "__repr__", "dbg", "_fmt_list_cmd_args", "qstr"):
                continue  # debug renderings, never pushed
            seen_nodes = set()
            for n in body_walk(fi.node):
                if not isinstance(n, (ast.JoinedStr, ast.BinOp)):
                    continue
                if id(n) in seen_nodes:
                    continue
                # maximal + chains only
                if isinstance(n, ast.BinOp):
                    if not isinstance(n.op, ast.Add):
                        continue
                    for sub in ast.walk(n):
                        seen_nodes.add(id(sub))
                holes = quoted_holes(n)
                if not holes:
                    continue
                if _is_log_or_exc_text(n, fi):
                    continue
                ctext = "".join(x for x in fstring_parts(n) if isinstance(x, str))
                if any(k in ctext for k in (" BAD ", " NO ", " OK ")):
                    continue  # human-readable text of a status response, not quoted-string syntax
                for h in holes:
                    n_holes += 1
                    ctx.analysed(fi)
                    why = _safe_by_construction(p, fi, h)
                    if why:
                        ctx.ok("R7.2", where(fi), f'"{{{norm(h, 40)}}}" is {why}')
                    else:
                        ctx.bad(
                            "R7.2", fi.module, fi.qual, f'"{{{norm(h, 60)}}}"',
                            "a dynamic value (message header / parameter / mailbox name) is placed between double quotes "
                            "without escaping backslash and double quote or removing CR/LF: a value containing one of them "
                            "yields a malformed quoted string",
                            getattr(h, "lineno", fi.node.lineno),
                        )
    ctx.floor("R7.2", n_holes, 15, "quoted holes in response templates")


def _is_log_or_exc_text(n, fi):
    """Template used only for logging / exception text / debug (not a response)."""
    par = parmap(fi)
    cur = n
    while cur in par:
        pr = par[cur]
        if isinstance(pr, ast.Call):
            f = pr.func
            if isinstance(f, ast.Attribute) and f.attr in ("debug", "info", "warning", "error", "exception", "critical", "warn"):
                return True
            if isinstance(f, ast.Name) and (f.id in ("No", "Bad", "RuntimeError", "ValueError") or f.id.endswith(("Error", "Exception", "Mailbox", "Exists", "Inconsistency", "Section", "Syntax", "Command"))):
                return True
        if isinstance(pr, ast.Raise):
            return True
        if isinstance(pr, ast.stmt):
            break
        cur = pr
    return False


def r7_3(ctx):
    p = ctx.p
    n = 0
    for fi in p.funcs_in("fetch") + p.funcs_in("pop3_client"):
        for s in body_walk(fi.node):
            if not isinstance(s, (ast.Return, ast.Expr, ast.Assign)):
                continue
            v = s.value
            if v is None:
                continue
            for sub in ast.walk(v):
                if isinstance(sub, ast.BinOp) and isinstance(sub.op, ast.Add):
                    parts = fstring_parts(sub)
                    if not parts:
                        continue
                    parts = merge_consts(parts)
                    for i, x in enumerate(parts):
                        if isinstance(x, str) and x.endswith("{") and i + 2 < len(parts) and isinstance(parts[i + 2], str) and parts[i + 2].startswith("}\r\n"):
                            hole = parts[i + 1]
                            n += 1
                            ctx.analysed(fi)
                            follow = parts[i + 3] if parts[i + 2] == "}\r\n" and i + 3 < len(parts) else None
                            if isinstance(hole, ast.Call) and isinstance(hole.func, ast.Name) and hole.func.id == "len" and follow is not None and not isinstance(follow, str) and norm(hole.args[0]) == norm(follow):
                                ctx.ok("R7.3", where(fi), f"literal {{len({norm(follow)})}} CRLF {norm(follow)}: count is the length of the very bytes that follow")
                            else:
                                ctx.bad("R7.3", fi.module, fi.qual, norm(sub, 120), "a literal's announced octet count is not len() of exactly the data concatenated after it", sub.lineno)
                    break
    ctx.floor("R7.3", n, 1, "literal prefixes")
    # the partial slice and CRLF termination happen before the length is taken (order of statements in FetchAtt.body)
    from .common import pm_of

    fb = p.func("fetch.FetchAtt.body")
    pfb = pm_of(p, fb)
    steps = [
        ("terminate", pfb.find("msg_text = msg_text if msg_text.endswith(b'\\r\\n') else msg_text + b'\\r\\n'")),
        ("slice", pfb.find("if self.partial:\n    ...\n    msg_text = msg_text[...]")),
        ("len", pfb.find("return f'{{{len(msg_text)}}}\\r\\n'.encode('latin-1') + msg_text")),
    ]
    order = [nm for nm, n_ in sorted(((nm, n_) for nm, n_ in steps if n_ is not None), key=lambda x: x[1].lineno)]
    if order == ["terminate", "slice", "len"]:
        ctx.ok("R7.3", where(fb), "order: CRLF-terminate -> partial slice -> take len() and emit")
    else:
        ctx.bad("R7.3", fb.module, fb.qual, " -> ".join(order), "FetchAtt.body no longer terminates, slices and then measures in that order", fb.node.lineno)


# ----------------------------------------------------------------------------
def _crlf_sanitised(p, fi, h) -> bool:
    h = strip_await(h)
    if isinstance(h, ast.Call):
        cal = typer(p).resolve_call(h, env_of(p, fi))
        if cal and all(_removes_crlf(c) for c in cal):
            return True
        if isinstance(h.func, ast.Name):
            for f2 in p.functions.values():
                if f2.cls is None and f2.name == h.func.id and _removes_crlf(f2):
                    return True
        if call_name(h) in ("replace", "translate", "splitlines") and "\\r" in norm(h) or "\\n" in norm(h) and call_name(h) == "replace":
            return True
    return False


def _removes_crlf(fi) -> bool:
    cs = [n.value for n in ast.walk(fi.node) if isinstance(n, ast.Constant) and isinstance(n.value, (str, bytes))]
    cs = [c.decode("latin-1") if isinstance(c, bytes) else c for c in cs]
    has = any("\r" in c for c in cs) and any("\n" in c for c in cs)
    op = any(isinstance(c, ast.Call) and call_name(c) in ("replace", "sub", "translate", "splitlines", "split") for c in ast.walk(fi.node))
    return has and op


def r7_4(ctx):
    """Holes of one-line responses that carry exception text or raw command text."""
    p = ctx.p
    sites = 0
    targets = [
        ("client.BaseClientHandler.command", None),
        ("user_server.IMAPClientProxy.run", None),
        ("server.IMAPSubprocessInterface.unauthenticated", None),
    ]
    for key, _ in targets:
        fi = p.func(key)
        ctx.analysed(fi)
        exc_vars = {h.name for h in ast.walk(fi.node) if isinstance(h, ast.ExceptHandler) and h.name}
        raw_vars = {"imap_msg", "cmd_line", "msg"}
        for n in body_walk(fi.node):
            if not isinstance(n, ast.JoinedStr):
                continue
            parts = merge_consts(fstring_parts(n))
            consts = "".join(x for x in parts if isinstance(x, str))
            if not any(k in consts for k in (" NO ", " BAD ", "-ERR ", "* NO", "* BAD")):
                continue
            if _is_log_or_exc_text(n, fi):
                continue
            for h in parts:
                if isinstance(h, str):
                    continue
                base = h
                while isinstance(base, ast.Attribute):
                    base = base.value
                dangerous = None
                if isinstance(h, ast.Name) and h.id in exc_vars:
                    dangerous = "exception text (may embed a mailbox name or raw input given as a literal)"
                elif isinstance(h, ast.Attribute) and isinstance(base, ast.Name) and base.id in exc_vars and h.attr == "value":
                    dangerous = "exception text"
                elif isinstance(h, ast.Name) and h.id in raw_vars:
                    dangerous = "raw command text"
                elif _is_command_object(p, fi, h):
                    dangerous = "the whole command object (its __str__ renders every argument raw, including names given as literals)"
                elif isinstance(h, ast.Attribute) and h.attr in ("command",) and isinstance(base, ast.Name) and base.id in ("pop3_cmd",):
                    dangerous = None  # POP3 command word: split on whitespace by the parser
                if dangerous is None:
                    if isinstance(h, ast.Call) and _crlf_sanitised(p, fi, h):
                        sites += 1
                        ctx.ok("R7.4", where(fi), f"{{{norm(h, 50)}}} passes a CR/LF-removing sanitiser")
                    continue
                sites += 1
                ctx.bad(
                    "R7.4", fi.module, fi.qual, f"{norm(n, 80)} :: {{{norm(h)}}}",
                    f"{dangerous} is interpolated into a one-line response without removing CR/LF: e.g. `SELECT {{4}}\\r\\na\\r\\nb` "
                    "makes the NO line contain a raw line break (response splitting)",
                    n.lineno,
                )
    ctx.floor("R7.4", sites, 5, "one-line response holes fed by exception / raw text")


def r7_4b(ctx):
    """`qstr()` is interpolated raw into client-facing one-line responses (the time-out BAD).  That is sound only while it is
    built from the tag (an atom), the command word (an enum member) and the UID marker - nothing a client can put a CR or LF
    into.  Any other attribute of the command object (a mailbox name, a search string: possibly given as a literal) in it is
    response splitting waiting for the one reply that is not passed through oneline()."""
    p = ctx.p
    fi = p.func("parse.IMAPClientCommand.qstr")
    ctx.analysed(fi)
    allowed = {"tag", "command", "uid_command"}
    reads = set()
    for n in ast.walk(fi.node):
        if isinstance(n, ast.Attribute) and isinstance(n.value, ast.Name) and n.value.id == "self":
            reads.add(n.attr)
        elif isinstance(n, ast.Call) and isinstance(n.func, ast.Name) and n.func.id in ("getattr", "vars", "str", "repr") and n.args and isinstance(n.args[0], ast.Name) and n.args[0].id == "self":
            reads.add(norm(n, 40) if n.func.id != "getattr" or len(n.args) < 2 or not isinstance(n.args[1], ast.Constant) else str(n.args[1].value))
    users = []
    for f2 in p.functions.values():
        for js in [x for x in ast.walk(f2.node) if isinstance(x, ast.JoinedStr)]:
            consts = "".join(x for x in merge_consts(fstring_parts(js)) if isinstance(x, str))
            if any(k in consts for k in (" BAD ", " NO ", " OK ", "* BYE")) and any(isinstance(c, ast.Call) and call_name(c) == "qstr" for c in ast.walk(js)):
                users.append(js)
    ctx.floor("R7.4b", len(users), 1, "response lines that interpolate qstr()")
    extra = sorted(reads - allowed)
    if extra and users:
        ctx.bad("R7.4", fi.module, fi.qual, f"qstr() reads self.{extra[0]}", f"qstr() now includes `{extra[0]}` of the command, and qstr() is interpolated raw into a tagged reply ({len(users)} push site(s), e.g. the time-out BAD): a value given as a literal can carry CR/LF into the response line", fi.node.lineno)
    else:
        ctx.ok("R7.4", where(fi), f"qstr() is built from tag / command word / UID marker only ({len(users)} client-facing use(s))")


def _is_command_object(p, fi, h) -> bool:
    """`{cmd}` / `{str(cmd)}` where cmd is an IMAPClientCommand (annotation-based typing)."""
    e = h
    if isinstance(e, ast.Call) and isinstance(e.func, ast.Name) and e.func.id in ("str", "repr") and e.args:
        e = e.args[0]
    if isinstance(e, ast.FormattedValue):
        e = e.value
    if not isinstance(e, ast.Name):
        return False
    try:
        ts = typer(p).expr_type(e, env_of(p, fi))
    except Exception:  # noqa: BLE001
        ts = []
    return "IMAPClientCommand" in ts


def r7_6(ctx):
    """Flags are printed raw (unquoted, space separated, inside parentheses) by every emitter.  That is well-formed only
    because the parser admits nothing but atoms as flag names: _p_flag must take the name through _atom_re, and _atom_re must
    not match any of the characters that would break the list syntax."""
    from .. import regexlang as rl

    p = ctx.p
    fi = p.func("parse.IMAPClientCommand._p_flag")
    ctx.analysed(fi)
    bad = []
    n = 0
    for c in calls_in(fi.node):
        nm = call_name(c)
        if not nm.startswith("_p_"):
            continue
        n += 1
        if nm == "_p_simple_string":
            continue
        if nm == "_p_re" and c.args and norm(c.args[0]) == "_atom_re":
            continue
        bad.append(c)
    ctx.floor("R7.6", n, 2, "parser helper calls in _p_flag")
    if bad:
        ctx.bad("R7.6", fi.module, fi.qual, norm(bad[0]), f"a flag name is read with {call_name(bad[0])}() instead of the atom pattern: quoted strings and literals become keywords (`todo)`, `follow up`) and every emitter prints them raw - FETCH FLAGS (...) and the * FLAGS line of SELECT then have unbalanced parentheses or split one keyword in two", bad[0].lineno)
    else:
        ctx.ok("R7.6", where(fi), "flag names are read through _atom_re only")
    from .c08 import _regex_const

    pat = _regex_const(p, "_atom_re")
    ctx.require(isinstance(pat, str), "parse._atom_re is not a constant pattern", anchor=True)
    leaks = [ch for ch in '() "{\r\n' if rl.can_match_char(pat, ch)] + [ch for ch in ("\r", "\n") if rl.can_match_char(pat, ch)]
    if leaks:
        ctx.bad("R7.6", "parse", "<module>", f"_atom_re admits {leaks!r}", f"the atom pattern admits list-syntax characters {leaks!r}: a keyword containing one breaks every response that lists flags", 0)
    else:
        ctx.ok("R7.6", "parse:<module>", f"_atom_re = /{pat}/ admits none of ( ) space quote brace CR LF")


def r7_5(ctx):
    p = ctx.p
    n = 0
    for mod in ("fetch", "client", "mbox"):
        for fi in p.funcs_in(mod):
            if fi.name in ("__str__", "__repr__", "dbg", "_fmt_list_cmd_args"):
                continue
            seen = set()
            for node in body_walk(fi.node):
                if isinstance(node, ast.BinOp) and isinstance(node.op, ast.Add) and id(node) not in seen:
                    for sub in ast.walk(node):
                        seen.add(id(sub))
                    tgt = node
                elif isinstance(node, ast.JoinedStr) and id(node) not in seen:
                    tgt = node
                else:
                    continue
                if _is_log_or_exc_text(tgt, fi):
                    continue
                parts = fstring_parts(tgt)
                if not parts:
                    continue
                consts = "".join(x for x in parts if isinstance(x, str))
                if "(" not in consts and ")" not in consts:
                    continue
                # only response-ish templates: returned, pushed, appended to results
                n += 1
                ctx.analysed(fi)
                bal = consts.count("(") - consts.count(")")
                if bal == 0:
                    ctx.ok("R7.5", where(fi), f"template {norm(tgt, 50)} has balanced parentheses", nontrivial=False)
                elif _incremental_line(tgt, fi):
                    ctx.ok("R7.5", where(fi), f"template {norm(tgt, 40)} is one piece of an incrementally built line (checked as a whole)", nontrivial=False)
                else:
                    ctx.bad("R7.5", fi.module, fi.qual, norm(tgt, 120), f"constant pieces of this response template have parenthesis balance {bal:+d}", tgt.lineno)
    ctx.floor("R7.5", n, 15, "templates with parentheses")


def _incremental_line(tgt, fi):
    """line = '...('; line += '...)'  - balance checked across the pieces."""
    par = parmap(fi)
    st = tgt
    while not isinstance(st, ast.stmt):
        st = par[st]
    var = None
    if isinstance(st, ast.Assign) and isinstance(st.targets[0], ast.Name):
        var = st.targets[0].id
    elif isinstance(st, ast.AugAssign) and isinstance(st.target, ast.Name):
        var = st.target.id
    if var is None:
        return False
    total = 0
    for n in body_walk(fi.node):
        v = None
        if isinstance(n, ast.Assign) and isinstance(n.targets[0], ast.Name) and n.targets[0].id == var:
            v = n.value
        elif isinstance(n, ast.AugAssign) and isinstance(n.target, ast.Name) and n.target.id == var:
            v = n.value
        if v is not None:
            b = paren_balance(v)
            if b is None:
                return False
            total += b
    return total == 0


SANITISERS = ("utils.oneline", "utils.quoted", "utils.quoted_bytes")


def r7_8(ctx):
    """Every rule that lets a dynamic value into a response line trusts these helpers to return something with no CR and no
    LF in it (R7.2 quoted strings, R7.4 NO/BAD texts).  They earn that trust only while each of the two characters is
    removed on its own: a helper that replaces the *pair* CRLF lets a lone LF (or a lone CR) through, and a mailbox name or
    an error text given as a literal with a bare LF then splits the response in two - the second line can be made to read
    like a tagged reply."""
    p = ctx.p
    n = 0
    for key in SANITISERS:
        if key not in p.functions:
            continue
        fi = p.func(key)
        ctx.analysed(fi)
        n += 1
        singles = set()
        for c in calls_in(fi.node):
            if call_name(c) == "replace" and len(c.args) == 2 and isinstance(c.args[0], ast.Constant):
                v = c.args[0].value
                v = v.decode("latin-1") if isinstance(v, bytes) else v
                if isinstance(v, str) and len(v) == 1:
                    singles.add(v)
            elif call_name(c) == "translate" or (call_name(c) == "sub" and c.args and isinstance(c.args[0], ast.Constant)):
                pat = c.args[0].value if c.args and isinstance(c.args[0], ast.Constant) else ""
                pat = pat.decode("latin-1") if isinstance(pat, bytes) else str(pat)
                if "\\r" in pat or "\r" in pat:
                    singles.add("\r")
                if "\\n" in pat or "\n" in pat:
                    singles.add("\n")
        missing = [repr(ch) for ch in ("\r", "\n") if ch not in singles]
        if missing:
            ctx.bad("R7.8", fi.module, fi.qual, f"{fi.name}(): no replacement of a lone {missing[0]}", f"{fi.name}() no longer removes every {' and every '.join(missing)} on its own (a replacement of the pair CRLF does not): a value with a bare line break passes into a one-line response / quoted string and splits it", fi.node.lineno)
        else:
            ctx.ok("R7.8", where(fi), f"{fi.name}() replaces CR and LF each on its own")
    ctx.floor("R7.8", n, 3, "CR/LF-removing helpers")


_LITERAL_TAILS = ["x {7}", "{0}", "a {3}  {7}", "reports{12}", "INBOX {12+}", "{00012}", "{99999999999}"]


def _regex_of(p, fi, e):
    """(pattern text, method) of a regex test `R.search(x)` / `re.search(C, x)` whose pattern is a constant."""
    if not isinstance(e, ast.Call) or not isinstance(e.func, ast.Attribute) or e.func.attr not in ("search", "match", "fullmatch"):
        return None
    recv = e.func.value
    if isinstance(recv, ast.Name) and recv.id == "re" and e.args and isinstance(e.args[0], ast.Constant) and isinstance(e.args[0].value, str):
        return e.args[0].value, e.func.attr
    if isinstance(recv, ast.Name):
        for s in p.modules[fi.module].tree.body:
            if isinstance(s, ast.Assign) and len(s.targets) == 1 and isinstance(s.targets[0], ast.Name) and s.targets[0].id == recv.id:
                v = s.value
                if isinstance(v, ast.Call) and call_name(v) == "compile" and v.args and isinstance(v.args[0], ast.Constant) and isinstance(v.args[0].value, str):
                    return v.args[0].value, e.func.attr
    return None


def r7_9(ctx):
    """A status line ends with its text, and the text often ends with something the client chose (R7.4: it reaches the line
    through oneline()).  `{<digits>}` or `{<digits>+}` in front of the CRLF is how a literal is announced: a client that
    frames the stream takes the octets that follow for literal data.  oneline() therefore tests its result for such an ending
    - on every path, after the line breaks were replaced - and appends something that is not a `}` when it finds one."""
    import re as _re

    p = ctx.p
    fi = p.func("utils.oneline")
    ctx.analysed(fi)
    g = ctx.cfg(fi)
    found = None
    for n in ast.walk(fi.node):
        test = body = None
        if isinstance(n, ast.If):
            test, body = n.test, n.body
        elif isinstance(n, ast.IfExp):
            test, body = n.test, [n.body]
        if test is None:
            continue
        rx = None
        for c in ast.walk(test):
            rx = rx or _regex_of(p, fi, c)
        if rx is None:
            continue
        pat, how = rx
        try:
            cre = _re.compile(pat)
        except _re.error:
            continue
        missed = [s for s in _LITERAL_TAILS if not getattr(cre, how)(s)]
        # what the guarded arm appends
        suffix = None
        for b in body:
            for x in ast.walk(b):
                if isinstance(x, ast.AugAssign) and isinstance(x.op, ast.Add) and isinstance(x.value, ast.Constant) and isinstance(x.value.value, str):
                    suffix = x.value.value
                elif isinstance(x, ast.BinOp) and isinstance(x.op, ast.Add) and isinstance(x.right, ast.Constant) and isinstance(x.right.value, str):
                    suffix = x.right.value
        found = (n, pat, missed, suffix)
        break
    if found is None:
        ctx.bad("R7.9", fi.module, fi.qual, "if <text ends like a literal announcement>: text += '.'", "oneline() no longer tests its result for a trailing `{<digits>}`: an error text that ends in a mailbox name such as `reports{12}` makes the NO line announce a literal that never follows (the client swallows the next response)", fi.node.lineno)
        return
    n, pat, missed, suffix = found
    if missed:
        ctx.bad("R7.9", fi.module, fi.qual, f"regex {pat!r}", f"the test for a trailing literal announcement does not recognise {missed[0]!r}", n.lineno)
    elif not suffix or suffix.rstrip().endswith("}") or _re.search(r"\{\d+\+?\}$", "{7}" + suffix):
        ctx.bad("R7.9", fi.module, fi.qual, f"appends {suffix!r}", "what oneline() appends to a text that ends like a literal announcement does not take the ending away", n.lineno)
    else:
        # the test is on every path to a return, behind the CR/LF replacement
        tn = [x.id for x in g.nodes if x.ast is not None and x.kind in ("test", "stmt", "return") and any(y is n or (isinstance(n, ast.If) and y is n.test) for y in ast.walk(x.ast))]
        rets = {x.id for x in g.nodes if x.kind == "return"}
        ctx.require(tn and rets, "oneline(): test / return nodes not found")
        seen = flow.reach(g, [g.entry], flow.NORMAL, avoid=lambda x: x in tn)
        skipped = [r for r in rets if r in seen and r not in tn]
        if skipped:
            ctx.bad("R7.9", fi.module, fi.qual, "return before the test", "oneline() can return a text without testing it for a trailing literal announcement", g.nodes[skipped[0]].line)
        else:
            ctx.ok("R7.9", where(fi), f"result tested with {pat!r} on every path; {suffix!r} appended")
    # ... and what oneline() returns goes into the line as it is: cut, stripped or sliced afterwards it can end in `{n}` again
    n_use = 0
    for f2 in p.functions.values():
        par2 = None
        for c in calls_in(f2.node):
            if call_name(c) != "oneline" or not isinstance(c.func, ast.Name):
                continue
            par2 = par2 or parmap(f2)
            n_use += 1
            up = par2.get(c)
            if isinstance(up, ast.Subscript) and up.value is c:
                ctx.bad("R7.9", f2.module, f2.qual, norm(up, 70), "the result of oneline() is sliced before it goes into the response line: the cut can leave `{<digits>}` at the end of the line again (a literal announcement the client will wait on)", c.lineno)
            elif isinstance(up, ast.Attribute) and up.value is c and up.attr in ("strip", "rstrip", "removesuffix", "replace", "split", "partition", "rpartition", "rsplit"):
                ctx.bad("R7.9", f2.module, f2.qual, norm(up, 70), f"the result of oneline() is passed through .{up.attr}() before it goes into the response line: what was appended to keep the line from ending in `{{<digits>}}` can be removed again", c.lineno)
            else:
                ctx.ok("R7.9", where(f2), f"{norm(c, 40)} used as returned", nontrivial=False)
    ctx.floor("R7.9", n_use, 6, "uses of oneline()")


_NOT_ATOMS = ["X (Y", "A\r\nB", 'a"b', "a\\b", "a b", "a)b", "a(b", "{4}", "", "a\nb", "a\rb", "caf\xe9 x"]


def r7_10(ctx):
    """The name of a FETCH response item repeats what the client asked for.  For BODY[HEADER.FIELDS (...)] that includes the
    field names, which are astrings: the client may have sent a quoted string or a literal with parentheses, blanks, quotes
    or line breaks in it.  FetchAtt.dbg() puts a name into the response line as it came only after a pattern test that none
    of those can pass; every other name goes through quoted() between double quotes."""
    import re as _re

    p = ctx.p
    fi = p.func("fetch.FetchAtt.dbg")
    ctx.analysed(fi)
    joins = [c for c in calls_in(fi.node) if call_name(c) == "join" and c.args and isinstance(c.args[0], (ast.GeneratorExp, ast.ListComp))]
    ctx.floor("R7.10", len(joins), 1, "joins of client-supplied names in FetchAtt.dbg()")
    for c in joins:
        comp = c.args[0]
        var = comp.generators[0].target
        elt = comp.elt
        ok = why = None
        if isinstance(elt, ast.IfExp):
            rx = None
            for x in ast.walk(elt.test):
                rx = rx or _regex_of(p, fi, x)
            raw_arm, other = (elt.body, elt.orelse)
            if rx is not None and rx[1] == "fullmatch" and norm(raw_arm) == norm(var):
                try:
                    cre = _re.compile(rx[0])
                    leaks = [s_ for s_ in _NOT_ATOMS if cre.fullmatch(s_)]
                except _re.error:
                    leaks = ["<pattern does not compile>"]
                quoted_other = isinstance(other, ast.JoinedStr) and _quoted_hole(other)
                if leaks:
                    why = f"the pattern that lets a name through as it came accepts {leaks[0]!r}"
                elif not quoted_other:
                    why = "a name that is not an atom is not sent as \"<quoted(name)>\""
                else:
                    ok = f"atoms ({rx[0]}) as they came, everything else quoted"
            else:
                why = "the raw arm is not guarded by a fullmatch() against a constant pattern"
        elif isinstance(elt, ast.JoinedStr) and _quoted_hole(elt):
            ok = "every name quoted"
        else:
            why = f"names are joined as `{norm(elt, 40)}`"
        if ok:
            ctx.ok("R7.10", where(fi), f"HEADER.FIELDS names in the response item: {ok}")
        else:
            ctx.bad("R7.10", fi.module, fi.qual, norm(c, 80), f"client-supplied header field names reach the FETCH response line raw ({why}): `BODY.PEEK[HEADER.FIELDS (\"X (Y\" {{4}}CRLF A CRLF B)]` is answered with unbalanced parentheses and a line break inside the response", c.lineno)


def _quoted_hole(js) -> bool:
    """f'"{quoted(x)}"' : one hole, the result of quoted(), between literal double quotes"""
    parts = merge_consts(fstring_parts(js))
    return len(parts) == 3 and parts[0] == '"' and parts[2] == '"' and isinstance(parts[1], ast.Call) and call_name(parts[1]) in ("quoted",)


def r7_11(ctx):
    """The two forms of a multipart body structure - BODY (no extension data) and BODYSTRUCTURE - are built in the same
    function from the same pieces and differ only in what follows the subtype.  body-type-mpart = 1*body SP media-subtype:
    in both concatenations the piece in front of the subtype is SP DQUOTE (sibling agreement of the two return forms)."""
    p = ctx.p
    fi = p.func("fetch.FetchAtt.bodystructure")
    ctx.analysed(fi)

    def flat(e):
        if isinstance(e, ast.BinOp) and isinstance(e.op, ast.Add):
            return flat(e.left) + flat(e.right)
        return [e]

    # the local that holds the subtype: defined from get_content_subtype()
    sub_vars = {s_.targets[0].id for s_ in body_walk(fi.node) if isinstance(s_, ast.Assign) and len(s_.targets) == 1 and isinstance(s_.targets[0], ast.Name) and any(call_name(c) == "get_content_subtype" for c in calls_in(s_.value))}
    chains = []
    for n in body_walk(fi.node):
        if isinstance(n, ast.BinOp) and isinstance(n.op, ast.Add):
            parts = flat(n)
            if any(isinstance(x, ast.Name) and x.id in sub_vars for x in parts) and any(isinstance(x, ast.Call) and call_name(x) == "join" for x in parts):
                if not any(n is not m and isinstance(m, ast.BinOp) and n in ast.walk(m) for m in [c for c, _ in chains]):
                    chains.append((n, parts))
    # keep outermost chains only
    outer = [(n, ps) for n, ps in chains if not any(n is not m and any(x is n for x in ast.walk(m)) for m, _ in chains)]
    ctx.floor("R7.11", len(outer), 2, "multipart body structure forms")
    for n, parts in outer:
        i = next(k for k, x in enumerate(parts) if isinstance(x, ast.Name) and x.id in sub_vars)
        before = parts[i - 1] if i else None
        if isinstance(before, ast.Constant) and before.value in (b' "', ' "'):
            ctx.ok("R7.11", where(fi), f"multipart form @{n.lineno}: parts SP DQUOTE subtype")
        else:
            ctx.bad("R7.11", fi.module, fi.qual, norm(n, 90), f"the multipart subtype follows the parts without a space (`{norm(before, 20) if before is not None else '?'}` in front of it): `(...)(...)\"MIXED\"` is not a body-type-mpart", n.lineno)


def _trailing_blank_sites(tree):
    """f-strings `...SP{' '.join(...)}CRLF...`: the hole may be empty (the list may be), the blank in front of it then ends the
    line."""
    out = []
    for n in ast.walk(tree):
        if not isinstance(n, ast.JoinedStr):
            continue
        parts = merge_consts(fstring_parts(n))
        for k in range(1, len(parts) - 1):
            h = parts[k]
            if isinstance(h, str) or not isinstance(parts[k - 1], str) or not isinstance(parts[k + 1], str):
                continue
            if parts[k - 1].endswith(" ") and parts[k + 1].startswith("\r\n") and isinstance(h, ast.Call) and call_name(h) == "join" and isinstance(call_recv(h), ast.Constant):
                out.append((n, h))
    return out


# (function: why the joined list at the end of its line is never empty) - confirmed by reading
JOINED_NEVER_EMPTY = {
    "client.BaseClientHandler.do_capability": "the capabilities of the constant table minus the per-client exclusions of CLIENT_RULES (a table in the source, which never lists IMAP4REV1: capability-data must contain it)",
}


def r7_12(ctx):
    """A response line does not end in a blank.  Where the tail of a line is a separator-joined list that may be empty
    (`* SEARCH` with no hits) the separator belongs to each element, not to the text in front of the list."""
    p = ctx.p
    probe = ast.parse("x = f\"* SEARCH {' '.join(str(x) for x in r)}\\r\\n\"")
    ctx.require(len(_trailing_blank_sites(probe)) == 1, "R7.12 self-test: the detector no longer recognises its own example")
    n = 0
    for fi in p.functions.values():
        if fi.module not in ("client", "mbox", "fetch", "user_server", "server", "pop3_client", "pop3_server"):
            continue
        for js, h in _trailing_blank_sites(fi.node):
            # a module-level constant list with elements (CAPABILITIES) is never empty
            a0 = h.args[0] if h.args else None
            if isinstance(a0, ast.Name):
                try:
                    cv = p.module_constant(fi.module, a0.id)
                except Exception:  # noqa: BLE001
                    cv = None
                if cv is None:
                    for mod in p.modules:
                        try:
                            cv = p.module_constant(mod, a0.id)
                            break
                        except Exception:  # noqa: BLE001
                            continue
                if isinstance(cv, (ast.List, ast.Tuple, ast.Set)) and cv.elts:
                    continue
            if fi.key in JOINED_NEVER_EMPTY:
                ctx.ok("R7.12", where(fi), f"joined list never empty: {JOINED_NEVER_EMPTY[fi.key]}", nontrivial=False)
                continue
            n += 1
            ctx.analysed(fi)
            ctx.bad("R7.12", fi.module, fi.qual, norm(js, 80), "the line ends `SP <joined list> CRLF`: with an empty list the response ends in a blank (`* SEARCH ` CRLF is not `\"SEARCH\" *(SP nz-number)`)", js.lineno)
    if n == 0:
        sr = p.func("client.Authenticated.do_search")
        ctx.analysed(sr)
        ctx.ok("R7.12", where(sr), "no response line is built as `SP <possibly empty joined list> CRLF`")


def r7_13(ctx):
    """`[COPYUID <uidvalidity> <source uid-set> <destination uid-set>]`: a uid-set is never empty.  A COPY / MOVE whose set
    names no message of the mailbox copies nothing and is still answered OK, so each place that builds the response code
    does so only when its source list is known to hold something (a truth test of that list on the way, or an early
    return for the empty case)."""
    p = ctx.p
    n = 0
    for fi in p.funcs_in("client"):
        calls = [c for c in calls_in(fi.node) if call_name(c) == "_format_copyuid" and len(c.args) >= 2]
        if not calls:
            continue
        ctx.analysed(fi)
        par = parmap(fi)
        for c in calls:
            n += 1
            src = c.args[1]
            if not isinstance(src, ast.Name):
                ctx.bad("R7.13", fi.module, fi.qual, norm(c, 80), "the source UID list is built inside the call: nothing can have tested it for being empty - a COPY that copies nothing is answered `[COPYUID <uidvalidity>  ]`", c.lineno)
                continue
            nm = src.id
            guarded = False
            cur = c
            while cur in par and not guarded:
                up = par[cur]
                if isinstance(up, ast.If) and cur in up.body and isinstance(up.test, ast.Name) and up.test.id == nm:
                    guarded = True
                if isinstance(up, ast.If) and cur in up.orelse and isinstance(up.test, ast.UnaryOp) and isinstance(up.test.op, ast.Not) and norm(up.test.operand) == nm:
                    guarded = True
                for fld in ("body", "orelse", "finalbody"):
                    lst = getattr(up, fld, None)
                    if isinstance(lst, list) and cur in lst:
                        for prev in lst[: lst.index(cur)]:
                            if isinstance(prev, ast.If) and isinstance(prev.test, ast.UnaryOp) and isinstance(prev.test.op, ast.Not) and norm(prev.test.operand) == nm and prev.body and isinstance(prev.body[-1], (ast.Return, ast.Raise)):
                                guarded = True
                cur = up
            if guarded:
                ctx.ok("R7.13", where(fi), f"COPYUID built only when `{nm}` holds something")
            else:
                ctx.bad("R7.13", fi.module, fi.qual, norm(c, 80), f"the COPYUID response code is built whether or not `{nm}` is empty: `UID COPY 999 other` (no such UID) is answered `[COPYUID <uidvalidity>  ]` - uid-sets can not be empty", c.lineno)
    ctx.floor("R7.13", n, 2, "COPYUID constructions")


def r7_14(ctx):
    """ENVELOPE address structures (fetch.encode_addrs).  (a) An address list is `"(" 1*address ")" / nil`: the parenthesised
    form is returned only when at least one address was produced, otherwise NIL - `To:` with nothing behind it is a header
    that is present and holds no address.  (b) The address is split into mailbox and host at one `@` only (`rsplit("@", 1)` /
    `partition`): a two-target unpack of `split("@")` raises ValueError for `"a@b"@c.com` and the whole FETCH fails."""
    p = ctx.p
    fi = p.func("fetch.encode_addrs")
    ctx.analysed(fi)
    g = ctx.cfg(fi)
    # (b)
    n_split = 0
    for st in body_walk(fi.node):
        if isinstance(st, ast.Assign) and len(st.targets) == 1 and isinstance(st.targets[0], ast.Tuple) and isinstance(st.value, ast.Call) and call_name(st.value) in ("split", "rsplit") and st.value.args and isinstance(st.value.args[0], ast.Constant) and st.value.args[0].value == "@":
            n_split += 1
            c = st.value
            lim = c.args[1] if len(c.args) > 1 else kwarg(c, "maxsplit")
            want = len(st.targets[0].elts) - 1
            if isinstance(lim, ast.Constant) and lim.value == want:
                ctx.ok("R7.14", where(fi), f"{norm(st, 60)}: exactly {want + 1} pieces")
            else:
                ctx.bad("R7.14", fi.module, fi.qual, norm(st, 70), f"`{norm(c, 40)}` is unpacked into {want + 1} names without a split limit: an address with a second `@` (a quoted local part: `\"a@b\"@c.com`) raises ValueError and FETCH ENVELOPE of the message fails as a whole", st.lineno)
    if n_split == 0 and not any(call_name(c) in ("partition", "rpartition") for c in calls_in(fi.node)):
        ctx.bad("R7.14", fi.module, fi.qual, "mailbox, host = email_address.rsplit('@', 1)", "the mailbox / host split of an address is no longer there", fi.node.lineno)
    # (a)
    rets = [nd for nd in g.nodes if nd.kind == "return" and nd.ast is not None and getattr(nd.ast, "value", None) is not None]
    paren = [nd for nd in rets if isinstance(nd.ast.value, ast.BinOp) and any(isinstance(x, ast.Call) and call_name(x) == "join" for x in ast.walk(nd.ast.value))]
    ctx.floor("R7.14", len(paren), 1, "parenthesised address-list returns")
    for nd in paren:
        joined = [x.args[0].id for x in ast.walk(nd.ast.value) if isinstance(x, ast.Call) and call_name(x) == "join" and x.args and isinstance(x.args[0], ast.Name)]
        nm = joined[0] if joined else None
        tests = {t.id for t in g.nodes if t.kind == "test" and t.ast is not None and nm and ((isinstance(t.ast, ast.UnaryOp) and isinstance(t.ast.op, ast.Not) and norm(t.ast.operand) == nm) or norm(t.ast) == nm)}
        dom = flow.dominated_by(g, nd.id, lambda z: z in tests) if tests else [0]
        if nm and dom is None:
            ctx.ok("R7.14", where(fi), f"`(` addresses `)` is returned behind a test of `{nm}` for being empty")
        else:
            ctx.bad("R7.14", fi.module, fi.qual, norm(nd.ast, 70), "the parenthesised address list is returned without a test that it holds an address: a header that is present but empty (`To:`) is sent as `()`, which is neither an address list nor NIL", nd.line)


def _run_extra(ctx):
    ctx.do(r7_4b)
    ctx.do(r7_8)
    ctx.do(r7_9)
    ctx.do(r7_10)
    ctx.do(r7_11)
    ctx.do(r7_12)
    ctx.do(r7_13)
    ctx.do(r7_14)


def run(ctx):
    _run_extra(ctx)
    ctx.do(r7_1)
    ctx.do(r7_2)
    ctx.do(r7_3)
    ctx.do(r7_4)
    ctx.do(r7_5)
    ctx.do(r7_6)
    for k, v in ACCEPTED_UNKNOWN.items():
        ctx.trust(f"frozen relay entry: {k} - {v}")
