"""C01 - message sequence numbers never desynchronise between server and session.

 R1.1 single ordered notification channel (no unconditional direct push to another session)
 R1.2 EXPUNGE gate before non-UID FETCH/STORE/SEARCH admission
 R1.3 expunge emission/deletion order and the printed position
 R1.4 flush points reach send_pending_notifications; flush preserves order
"""
from __future__ import annotations

import ast
import re

from .. import flow
from ..astutil import (
    atom_polarity,
    body_walk,
    call_name,
    call_recv,
    calls_in,
    dotted,
    fstring_parts,
    merge_consts,
    names_in,
    norm,
    strip_await,
    walk_no_nested,
)
from .common import admission_items, env_of, is_push_call, parmap, typer, where

PROP = "C01"
EXPLANATION = (
    "Decides four structural necessary conditions of sequence-number synchrony: (R1.1) inside mbox.py every push to "
    "another session's connection and every append to its pending_notifications is guarded by that session's "
    "idling / pending state (one ordered channel: an EXISTS cannot overtake a queued EXPUNGE); (R1.2) in do_fetch, "
    "do_store and do_search every path with uid_command false that reaches the admission or a flush has tested "
    "pending_expunges() false, and idling is never raised inside those handlers; (R1.3) in Mailbox.expunge the loop "
    "runs over a list whose every reaching definition is sorted(..., reverse=True) (or the index is recomputed in the "
    "loop), the position printed in '* n EXPUNGE' is <index>+1 of the very index used by the two del statements, and "
    "both lists are deleted at that index; (R1.4) NOOP/CHECK/IDLE/DONE reach send_pending_notifications on every "
    "normal path with a mailbox selected and the flush pushes the list in order and then empties it. "
    "Decides these clauses, not the value of n in '* n EXISTS/EXPUNGE' over histories."
)
RULE_TEXT = (
    "instances: each push/pend site on an Authenticated in mbox.py; each gated handler; each reaching definition of "
    "the expunge loop iterable; each flush handler; non-trivial = needed a CFG/reaching-definition/path-predicate query"
)
ASSUMPTIONS = [
    "clients of a mailbox are reached only through Mailbox.clients (typed dict[str, Authenticated])",
    "not decided: numeric agreement of announced counts with a replayed client view over histories",
]
LEVEL_TEXT = (
    "Static who-may-push / path-predicate / reaching-definition rules over mbox.py and client.py: decides the "
    "structural necessary conditions R1.1-R1.9 of sequence-number synchrony on all paths (one ordered notification "
    "channel, the EXPUNGE gate before and after the admission wait, emission order, flush points and the atomic hand-over "
    "of the queue, direct delivery only right after a flush, SELECT hygiene, EXISTS counts, fan-out over a copy of the "
    "client table and shielded from other sessions' dead connections); the announced numbers "
    "themselves are runtime values and are not decided."
)
LEVEL_NOTE = (
    "Structural clauses only. Trusted: CPython ast; annotation-based receiver typing (Mailbox.clients: dict[str, "
    "Authenticated]). Not decided: replayed-view equality over histories and schedules."
)
TECHNIQUE = "who-may-call + path-predicate CFG query + reaching definitions"
DESIGN_REF = "DESIGN.md section 3 / C01"


def _auth_receiver(p, fi, expr) -> bool:
    """Is `expr` typed Authenticated (another session's handler)?"""
    ts = typer(p).expr_type(expr, env_of(p, fi))
    return any(t in ("Authenticated", "BaseClientHandler", "PreAuthenticated") for t in ts)


def _guarding_tests(node, fi):
    """(test, polarity) of every enclosing if whose arm contains node."""
    par = parmap(fi)
    out = []
    cur = node
    while cur in par:
        pr = par[cur]
        if isinstance(pr, ast.If):
            if cur in pr.body:
                out.append((pr.test, True))
            elif cur in pr.orelse:
                out.append((pr.test, False))
        cur = pr
    return out


def _tv(t, st, rv):
    """Three-valued value of a test in the session state `st` (idling / has queued lines); None = unknown."""
    if isinstance(t, ast.UnaryOp) and isinstance(t.op, ast.Not):
        v = _tv(t.operand, st, rv)
        return None if v is None else (not v)
    if isinstance(t, ast.BoolOp):
        vs = [_tv(v, st, rv) for v in t.values]
        if isinstance(t.op, ast.And):
            return False if any(v is False for v in vs) else (None if any(v is None for v in vs) else True)
        return True if any(v is True for v in vs) else (None if any(v is None for v in vs) else False)
    if isinstance(t, ast.Attribute) and norm(t.value) == rv:
        if t.attr == "idling":
            return st["idling"]
        if t.attr == "pending_notifications":
            return st["pending"]
    if isinstance(t, ast.Call) and call_name(t) == "pending_expunges" and norm(call_recv(t)) == rv:
        return None if st["pending"] else False
    return None


def r1_1(ctx):
    p = ctx.p
    sites = 0
    for fi in p.funcs_in("mbox"):
        ctx.analysed(fi)
        for n in body_walk(fi.node):
            site = None
            recv = None
            if isinstance(n, ast.Call) and is_push_call(n):
                r = call_recv(n)  # X.client
                if isinstance(r, ast.Attribute) and r.attr == "client" and _auth_receiver(p, fi, r.value):
                    site, recv = ("push", r.value)
            elif isinstance(n, ast.Call) and call_name(n) in ("extend", "append", "insert"):
                r = call_recv(n)
                if isinstance(r, ast.Attribute) and r.attr == "pending_notifications" and _auth_receiver(p, fi, r.value):
                    site, recv = ("pend", r.value)
            elif isinstance(n, (ast.Assign, ast.AugAssign)):
                for t in (n.targets if isinstance(n, ast.Assign) else [n.target]):
                    if isinstance(t, ast.Attribute) and t.attr == "pending_notifications" and _auth_receiver(p, fi, t.value):
                        site, recv = ("pend", t.value)
            if site is None:
                continue
            sites += 1
            rv = norm(recv)
            guards = _guarding_tests(n, fi)
            state_guard = [
                (t, pol) for t, pol in guards
                if any(isinstance(a, ast.Attribute) and a.attr in ("idling", "pending_notifications") and norm(a.value) == rv for a in ast.walk(t))
                or any(isinstance(c, ast.Call) and call_name(c) == "pending_expunges" and norm(call_recv(c)) == rv for c in ast.walk(t))
            ]
            if state_guard:
                # arm-exact: a direct push must be impossible while the session is *not idling and has queued lines*; queueing
                # must be impossible while it *is idling* (three-valued evaluation of the enclosing tests in that state)
                danger = {"idling": False, "pending": True} if site == "push" else {"idling": True, "pending": False}
                possible = all(_tv(t, danger, rv) in ((True, None) if pol else (False, None)) for t, pol in guards)
                if possible:
                    ctx.bad(
                        "R1.1", fi.module, fi.qual, f"{site} on {rv} reachable with idling={danger['idling']}, queued={danger['pending']}",
                        ("untagged data can be pushed directly to a session that is not idling and still has lines queued: it overtakes the "
                         "queued EXPUNGEs and the session's replayed view differs from the server's"
                         if site == "push" else
                         "untagged data can be queued for a session that is idling: it is not delivered until the session's next command"),
                        n.lineno,
                    )
                else:
                    ctx.ok("R1.1", where(fi), f"{site} on {rv} guarded by its idling/pending state: {norm(state_guard[0][0], 60)}")
            else:
                ctx.bad(
                    "R1.1", fi.module, fi.qual, norm(n),
                    f"untagged data is {'pushed' if site == 'push' else 'queued'} to another session without consulting "
                    "its idling/pending state: it can overtake EXPUNGEs still queued for that session (the session's "
                    "replayed count then differs from the server's after its next flush)",
                    n.lineno,
                )
    ctx.floor("R1.1", sites, 3, "push/pend sites on other sessions in mbox.py")
    # the dispatcher: function whose body branches on c.idling between push and pend
    disp = p.func("mbox.Mailbox._dispatch_or_pend_notifications")
    shape = False
    for n in body_walk(disp.node):
        if isinstance(n, ast.If) and any(isinstance(a, ast.Attribute) and a.attr == "idling" for a in ast.walk(n.test)):
            # the arm taken when the session *is* idling (the test may be written either way round)
            pos = atom_polarity(n.test, lambda a: isinstance(a, ast.Attribute) and a.attr == "idling")
            idle_arm, other_arm = (n.body, n.orelse) if pos else (n.orelse, n.body)
            n = ast.If(test=n.test, body=idle_arm, orelse=other_arm)
            push_in_true = any(isinstance(c, ast.Call) and is_push_call(c) for s in n.body for c in ast.walk(s))
            # queueing is lossless: the whole list is appended as it is (EXPUNGE lines are positional - two identical lines are
            # two removals; filtering, de-duplicating or re-ordering changes what the session will replay)
            pend_in_false = any(
                isinstance(c, ast.Call) and call_name(c) in ("extend", "append") and "pending_notifications" in norm(c.func)
                and len(c.args) == 1 and isinstance(c.args[0], ast.Name) and c.args[0].id == disp.node.args.args[1].arg
                for s in n.orelse for c in ast.walk(s)
            )
            push_in_false = any(isinstance(c, ast.Call) and is_push_call(c) for s in n.orelse for c in ast.walk(s))
            if push_in_true and pend_in_false and not push_in_false:
                shape = True
    if shape:
        ctx.ok("R1.1", where(disp), "dispatcher: push iff idling, else append in order to pending_notifications")
    else:
        ctx.bad("R1.1", disp.module, disp.qual, "if c.idling: push else: pend", "dispatcher no longer has the push-if-idling-else-queue shape", disp.node.lineno)


# ----------------------------------------------------------------------------
def _gate_classify(e):
    if isinstance(e, ast.Call) and call_name(e) == "pending_expunges":
        return "pe"
    if isinstance(e, ast.Attribute) and e.attr == "uid_command":
        return "uid"
    return None


def r1_2(ctx):
    p = ctx.p
    n_h = 0
    # FETCH / STORE / SEARCH may not be sent an EXPUNGE at all; COPY / MOVE may, but their message numbers mean what they
    # meant when the client sent the command - interpreting them after queued EXPUNGEs were applied addresses other messages
    for m in ("do_fetch", "do_store", "do_search", "do_copy", "do_move"):
        fi = p.func(f"client.Authenticated.{m}")
        g = ctx.cfg(fi)
        n_h += 1
        adm = set()
        for w, c in admission_items(fi):
            adm.update(n for n in g.nodes_for(w) if g.nodes[n].kind == "with_enter")
        flush = {n.id for n in g.nodes if n.ast is not None and n.kind == "stmt" and any(call_name(c) == "send_pending_notifications" for c in calls_in(n.ast))}
        ctx.require(adm, f"{m}: admission (ready_and_okay) not found")
        first_adm = min(adm)
        # flushes after the admission are not part of the gate
        pre_flush = {n for n in flush if g.nodes[n].line < g.nodes[first_adm].line}
        hit = flow.feasible_paths_exist(
            g, g.entry, adm | pre_flush, _gate_classify, labels=flow.NORMAL,
            accept=lambda n, f: f.get("pe") is not False and f.get("uid") is not True,
        )
        ctx.paths_explored += 1
        if hit:
            path, facts = hit
            t = path[-1]
            ctx.bad(
                "R1.2", fi.module, fi.qual, f"{m}: {norm(g.nodes[t].ast, 80)} reachable ungated",
                "a non-UID command can reach the admission / flush without pending_expunges() having been tested false: "
                "queued EXPUNGEs would be sent (or sequence numbers interpreted) while the session's view is stale",
                g.nodes[t].line, flow.fmt_path(g, path),
            )
        else:
            ctx.ok("R1.2", where(fi), "every non-UID path to the admission/flush passes `pending_expunges()` false")
        # ... and again after the wait: while the command is queued behind another session's EXPUNGE / MOVE / CLOSE, that
        # command's EXPUNGE lines are queued for this session and the message list shrinks.  What was tested before the wait
        # says nothing about the moment the operation starts.
        ops = {n.id for n in g.nodes if n.ast is not None and n.kind in ("stmt", "iter", "with_enter") and any(call_name(c) in ("fetch", "store", "search", "copy") and norm(call_recv(c)) == "self.mbox" for c in calls_in(n.ast))}
        ctx.require(ops, f"{m}: the mailbox operation (self.mbox.fetch/store/search/copy) not found")
        adm = {a for a in adm if any(o in flow.reach(g, [a], flow.NORMAL) for o in ops)}  # MOVE's second admission (removal by UID) comes after the operation
        late = None
        for a in sorted(adm):
            late = late or flow.feasible_paths_exist(
                g, a, ops, _gate_classify, labels=flow.NORMAL,
                accept=lambda n, f: f.get("pe") is not False and f.get("uid") is not True,
            )
            ctx.paths_explored += 1
        if late:
            path, facts = late
            ctx.bad(
                "R1.2", fi.module, fi.qual, f"{m}: pending_expunges() not tested after the admission wait",
                "the EXPUNGE gate is tested only before the command waits for its turn: when it was queued behind another "
                "session's EXPUNGE, a non-UID command runs with that EXPUNGE pending - its sequence numbers are interpreted against "
                "the shrunken list (`FETCH 5` answers for the old message 6) and the queued `* n EXPUNGE` is sent while the "
                "command is in progress",
                g.nodes[path[-1]].line, flow.fmt_path(g, path),
            )
        else:
            ctx.ok("R1.2", where(fi), "after the admission wait a non-UID command re-tests `pending_expunges()` before it touches the mailbox")
        # the UID forms may be sent EXPUNGEs - and must be, before their results are numbered: `* n FETCH (UID u)` names
        # position n of the list as it is now, which is the session's view only once the queued EXPUNGEs have gone out
        late_uid = None
        for a in (sorted(adm) if m in ("do_fetch", "do_store") else []):  # the handlers whose results carry positions
            late_uid = late_uid or flow.feasible_paths_exist(
                g, a, ops, _gate_classify, labels=flow.NORMAL, avoid=lambda x: x in flush,
                accept=lambda n, f: f.get("pe") is not False and f.get("uid") is not False,
            )
            ctx.paths_explored += 1
        if late_uid:
            path, facts = late_uid
            ctx.bad(
                "R1.2", fi.module, fi.qual, f"{m}: UID form runs with EXPUNGEs still queued after the admission wait",
                "a UID command that was queued behind another session's EXPUNGE numbers its results (`* n FETCH (UID u ...)`) "
                "against the shrunken list while the `* k EXPUNGE` is still queued for the session: position n of the session's "
                "view is another message. The queued lines must be flushed after the wait, before the operation",
                g.nodes[path[-1]].line, flow.fmt_path(g, path),
            )
        elif m in ("do_fetch", "do_store"):
            ctx.ok("R1.2", where(fi), "after the admission wait the UID form flushes what was queued (or nothing is queued) before it numbers its results")
        # the refusal arm must raise No (tagged NO) or say BYE, not fall through
        # idling never raised in these handlers
        raised = [n for n in body_walk(fi.node) if isinstance(n, ast.Assign) and any(norm(t) == "self.idling" for t in n.targets) and not (isinstance(n.value, ast.Constant) and n.value.value is False)]
        if m in ("do_copy", "do_move"):
            pass  # MOVE announces its own removals (R1.5 / R1.5b decide how)
        elif raised:
            ctx.bad("R1.2", fi.module, fi.qual, norm(raised[0]), "idling raised inside a FETCH/STORE/SEARCH handler: EXPUNGEs would be pushed during the command", raised[0].lineno)
        else:
            ctx.ok("R1.2", where(fi), "self.idling is not raised inside the handler", nontrivial=False)
    ctx.floor("R1.2", n_h, 5, "gated handlers")
    # pending_expunges(): any("EXPUNGE" in x ...) over self.pending_notifications
    pe = p.func("client.BaseClientHandler.pending_expunges")
    ctx.analysed(pe)
    ret = pe.node.body[-1]
    txt = norm(ret, 300)
    gen = None
    if isinstance(ret, ast.Return) and isinstance(ret.value, ast.Call) and isinstance(ret.value.func, ast.Name) and ret.value.func.id == "any" and ret.value.args and isinstance(ret.value.args[0], ast.GeneratorExp):
        gen = ret.value.args[0]
    if gen is None or norm(gen.generators[0].iter) != "self.pending_notifications":
        ctx.bad("R1.2", pe.module, pe.qual, txt, "pending_expunges() no longer is any(<test on x> for x in self.pending_notifications)", pe.node.lineno)
    else:
        # writer/reader agreement: the per-line test must hold for every EXPUNGE line the server queues
        # (templates collected from mbox.py, holes filled with sample digits) and fail for the other queued kinds
        var = gen.generators[0].target.id
        exp_lines, other_lines = _notification_templates(p)
        ctx.require(exp_lines, "no '* n EXPUNGE' template found in mbox.py")
        bad_exp = [l for l in exp_lines if _eval_str_pred(gen.elt, var, l) is not True]
        bad_oth = []  # over-refusal (a keyword flag containing "EXPUNGE") answers NO; it breaks no clause of C01
        if bad_exp:
            ctx.bad("R1.2", pe.module, pe.qual, norm(gen.elt), f"the test `{norm(gen.elt)}` does not recognise the EXPUNGE line the server actually queues ({bad_exp[0]!r}): the gate never closes, queued EXPUNGEs are flushed during a non-UID FETCH/STORE/SEARCH", pe.node.lineno)
        elif bad_oth:
            ctx.bad("R1.2", pe.module, pe.qual, norm(gen.elt), f"the test `{norm(gen.elt)}` also fires for a non-EXPUNGE notification ({bad_oth[0]!r}): FETCH/STORE/SEARCH are refused although no EXPUNGE is pending", pe.node.lineno)
        else:
            ctx.ok("R1.2", where(pe), f"`{norm(gen.elt)}` holds for all {len(exp_lines)} queued EXPUNGE template(s) and for none of the {len(other_lines)} other notification templates")


def _notification_templates(p):
    """Concrete sample lines of the untagged notifications built in mbox.py (holes -> sample values)."""
    exp, oth = [], []
    for fi in p.funcs_in("mbox"):
        for n in body_walk(fi.node):
            if isinstance(n, ast.JoinedStr):
                parts = fstring_parts(n)
                consts = "".join(x for x in parts if isinstance(x, str))
                if not consts.startswith("* ") or not consts.endswith("\r\n"):
                    continue
                for sample in ("1", "12345"):
                    line = "".join(x if isinstance(x, str) else (sample if "flags" not in norm(x) else "\\Seen") for x in parts)
                    if " EXPUNGE\r\n" in consts:
                        exp.append(line)
                    else:
                        oth.append(line)
    return sorted(set(exp)), sorted(set(oth))


def _eval_str_pred(e, var, line):
    """Evaluate a tiny language of string predicates on a concrete sample line (no repo code is run):
    CONST in x, x.endswith/startswith(CONST), x.strip()/rstrip()/upper()/lower()/split()[i], and/or/not, ==."""
    def val(n):
        if isinstance(n, ast.Name) and n.id == var:
            return line
        if isinstance(n, ast.Constant) and isinstance(n.value, str):
            return n.value
        if isinstance(n, ast.Call) and isinstance(n.func, ast.Attribute):
            base = val(n.func.value)
            if base is None:
                return None
            args = [val(a) for a in n.args]
            if any(a is None for a in args):
                return None
            m = n.func.attr
            if m in ("strip", "rstrip", "lstrip", "upper", "lower", "casefold") and isinstance(base, str):
                return getattr(base, m)(*args)
            if m == "split" and isinstance(base, str):
                return base.split(*args)
            if m in ("endswith", "startswith") and isinstance(base, str):
                return getattr(base, m)(*args)
            return None
        if isinstance(n, ast.Subscript) and isinstance(n.slice, ast.Constant):
            b = val(n.value)
            try:
                return b[n.slice.value]
            except Exception:
                return None
        if isinstance(n, ast.Compare) and len(n.ops) == 1:
            l, r = val(n.left), val(n.comparators[0])
            if l is None or r is None:
                return None
            op = n.ops[0]
            if isinstance(op, ast.In):
                return l in r
            if isinstance(op, ast.NotIn):
                return l not in r
            if isinstance(op, ast.Eq):
                return l == r
            if isinstance(op, ast.NotEq):
                return l != r
            return None
        if isinstance(n, ast.UnaryOp) and isinstance(n.op, ast.Not):
            v = val(n.operand)
            return None if v is None else (not v)
        if isinstance(n, ast.BoolOp):
            vs = [val(v) for v in n.values]
            if any(v is None for v in vs):
                return None
            return all(vs) if isinstance(n.op, ast.And) else any(vs)
        return None
    r = val(e)
    return r if isinstance(r, bool) else None


# ----------------------------------------------------------------------------
def reaching_defs(g, node_id: int, var: str) -> list[int]:
    """CFG nodes assigning local `var` that reach node_id (normal edges)."""

    def is_def(n) -> bool:
        a = g.nodes[n].ast
        if a is None or g.nodes[n].kind not in ("stmt", "iter", "with_enter"):
            return False
        if isinstance(a, ast.Assign):
            return any(isinstance(x, ast.Name) and x.id == var for t in a.targets for x in ast.walk(t) if isinstance(x, ast.Name) and isinstance(x.ctx, ast.Store))
        if isinstance(a, (ast.AugAssign, ast.AnnAssign)):
            return isinstance(a.target, ast.Name) and a.target.id == var
        return False

    defs = []
    seen = {node_id}
    todo = [node_id]
    while todo:
        n = todo.pop()
        for e in g.inc[n]:
            if e.label not in flow.NORMAL:
                continue
            m = e.src
            if m in seen:
                continue
            seen.add(m)
            if is_def(m):
                defs.append(m)
            else:
                todo.append(m)
    return defs


def _is_sorted_reverse(v) -> bool:
    v = strip_await(v)
    if isinstance(v, ast.Call) and isinstance(v.func, ast.Name) and v.func.id == "sorted":
        for k in v.keywords:
            if k.arg == "reverse" and isinstance(k.value, ast.Constant) and k.value.value is True:
                return True
    return False


def r1_3(ctx):
    p = ctx.p
    fi = p.func("mbox.Mailbox.expunge")
    g = ctx.cfg(fi)
    loops = []
    for n in body_walk(fi.node):
        if isinstance(n, (ast.For, ast.AsyncFor)) and any(
            isinstance(s, ast.Delete) and any("msg_keys" in norm(t) or "uids" in norm(t) for t in s.targets) for s in walk_no_nested(n)
        ):
            loops.append(n)
    ctx.floor("R1.3", len(loops), 1, "expunge deletion loop")
    for lp in loops:
        dels = [s for s in walk_no_nested(lp) if isinstance(s, ast.Delete)]
        idxs = set()
        lists = set()
        for d in dels:
            for t in d.targets:
                if isinstance(t, ast.Subscript) and isinstance(t.value, ast.Attribute) and t.value.attr in ("msg_keys", "uids"):
                    idxs.add(norm(t.slice))
                    lists.add(t.value.attr)
        if lists != {"msg_keys", "uids"} or len(idxs) != 1:
            ctx.bad("R1.3", fi.module, fi.qual, "; ".join(norm(d) for d in dels), "the expunge loop does not delete msg_keys and uids at one and the same index", lp.lineno)
            continue
        idx = next(iter(idxs))
        ctx.ok("R1.3", where(fi), f"msg_keys and uids both deleted at index `{idx}`")
        # index provenance: assigned in loop from the reverse map (pre-loop) or recomputed (.index)
        idx_defs = [s for s in walk_no_nested(lp) if isinstance(s, ast.Assign) and any(norm(t) == idx for t in s.targets)]
        recomputed = any(any(call_name(c) == "index" for c in calls_in(s.value)) for s in idx_defs) or any(
            call_name(c) == "_rebuild_index_dicts" for s in lp.body for c in calls_in(s)
        )
        from_map = any("_msg_key_to_idx" in norm(s.value) or "_uid_to_idx" in norm(s.value) for s in idx_defs)
        if not idx_defs or not (recomputed or from_map):
            ctx.bad("R1.3", fi.module, fi.qual, f"index `{idx}`", "index used for deletion is not derived from the reverse map or recomputed", lp.lineno)
        elif recomputed:
            ctx.ok("R1.3", where(fi), "index recomputed inside the loop")
        else:
            # stale pre-loop map: iteration must be highest-first
            it = lp.iter
            okdefs = True
            if isinstance(it, ast.Name):
                lnode = [n for n in g.nodes_for(lp) if g.nodes[n].kind == "iter"]
                ctx.require(lnode, "expunge loop CFG node missing", anchor=True)
                defs = reaching_defs(g, lnode[0], it.id)
                ctx.paths_explored += len(defs)
                ctx.require(defs, f"no reaching definition of {it.id}")
                for d in defs:
                    a = g.nodes[d].ast
                    val = a.value if isinstance(a, ast.Assign) else None
                    if val is not None and _is_sorted_reverse(val):
                        ctx.ok("R1.3", where(fi), f"reaching definition @{g.nodes[d].line}: {norm(a, 70)} is highest-first")
                    else:
                        okdefs = False
                        ctx.bad(
                            "R1.3", fi.module, fi.qual, norm(a),
                            "the expunge loop uses indexes from the pre-loop reverse map but this reaching definition of "
                            "the loop list is not sorted(..., reverse=True): after the first deletion the remaining "
                            "indexes are stale (wrong message removed / wrong n in '* n EXPUNGE')",
                            g.nodes[d].line,
                        )
            elif not _is_sorted_reverse(it):
                ctx.bad("R1.3", fi.module, fi.qual, norm(it), "expunge loop iterable is not highest-first", lp.lineno)
        # printed position = idx + 1
        printed = False
        for s in walk_no_nested(lp):
            if isinstance(s, ast.JoinedStr):
                parts = fstring_parts(s)
                if parts and any(isinstance(x, str) and "EXPUNGE" in x for x in parts):
                    holes = [x for x in parts if not isinstance(x, str)]
                    printed = True
                    if len(holes) == 1 and norm(holes[0]).replace(" ", "") in (f"{idx}+1", f"1+{idx}"):
                        ctx.ok("R1.3", where(fi), f"'* n EXPUNGE' prints {norm(holes[0])} (index + 1 = sequence number)")
                    else:
                        ctx.bad("R1.3", fi.module, fi.qual, norm(s), "the position printed in '* n EXPUNGE' is not <deletion index> + 1", s.lineno)
        if not printed:
            ctx.bad("R1.3", fi.module, fi.qual, "* n EXPUNGE", "expunge loop no longer announces each removal", lp.lineno)
        # announcement goes through the dispatcher, inside the loop (one per removal, in order)
        if any(call_name(c) == "_dispatch_or_pend_notifications" for s in lp.body for c in calls_in(s)):
            ctx.ok("R1.3", where(fi), "each removal is announced through the ordered channel inside the loop")
        else:
            ctx.bad("R1.3", fi.module, fi.qual, "_dispatch_or_pend_notifications(expunge_msg)", "removal not announced per iteration through the dispatcher", lp.lineno)


# ----------------------------------------------------------------------------
def _mbox_classify(e):
    if isinstance(e, ast.Attribute) and norm(e) == "self.mbox":
        return "mbox"
    if isinstance(e, ast.Compare) and norm(e.left) == "self.mbox" and len(e.ops) == 1 and isinstance(e.comparators[0], ast.Constant) and e.comparators[0].value is None:
        return "!mbox" if isinstance(e.ops[0], ast.Is) else "mbox"
    return None


def r1_4(ctx):
    p = ctx.p
    n = 0
    for cls, m in (("BaseClientHandler", "do_noop"), ("Authenticated", "do_check"), ("BaseClientHandler", "do_idle"), ("BaseClientHandler", "do_done")):
        fi = p.func(f"client.{cls}.{m}")
        g = ctx.cfg(fi)
        n += 1
        flush = {x.id for x in g.nodes if x.ast is not None and x.kind == "stmt" and any(call_name(c) == "send_pending_notifications" for c in calls_in(x.ast))}
        bye = {x.id for x in g.nodes if x.ast is not None and any(call_name(c) == "unceremonious_bye" for c in calls_in(x.ast))}
        if not flush:
            ctx.bad("R1.4", fi.module, fi.qual, m, f"{m} never calls send_pending_notifications", fi.node.lineno)
            continue
        hit = flow.feasible_paths_exist(
            g, g.entry, {g.exit}, _mbox_classify, labels=flow.NORMAL, avoid=lambda x: x in flush or x in bye,
            accept=lambda t, f: f.get("mbox") is not False,
        )
        ctx.paths_explored += 1
        if hit:
            path, _ = hit
            ctx.bad("R1.4", fi.module, fi.qual, m, f"{m} can complete with a mailbox selected without flushing pending notifications: the session's view is never brought up to date at its synchronisation point", fi.node.lineno, flow.fmt_path(g, path))
        else:
            ctx.ok("R1.4", where(fi), f"{m} reaches send_pending_notifications on every normal path with a mailbox")
    ctx.floor("R1.4", n, 4, "flush handlers")
    sp = p.func("client.BaseClientHandler.send_pending_notifications")
    ctx.analysed(sp)
    # The flush hands the queue over atomically: it detaches the list (binds it to a local, gives the session a fresh empty
    # one) and only then pushes the detached list, whole and in order.  push() suspends on a slow client; a line queued for the
    # session during that suspension must land in the fresh list - emptying the queue *after* the push would wipe it.
    from .common import pm_of
    pms = pm_of(p, sp)
    reorder = [c for c in calls_in(sp.node) if call_name(c) in ("sort", "reverse", "sorted", "reversed", "set")]
    detach_then_push = pms.has("while self.pending_notifications:\n    notifications = self.pending_notifications\n    self.pending_notifications = []\n    await self.client.push(*notifications)") or pms.has("while self.pending_notifications:\n    notifications, self.pending_notifications = (self.pending_notifications, [])\n    await self.client.push(*notifications)")
    once = pms.has("if self.pending_notifications:\n    notifications = self.pending_notifications\n    self.pending_notifications = []\n    await self.client.push(*notifications)") or pms.has("notifications = self.pending_notifications\nself.pending_notifications = []\nif notifications:\n    await self.client.push(*notifications)")
    push_then_reset = pms.has("await self.client.push(*self.pending_notifications)\nself.pending_notifications = []") or pms.has("await self.client.push(*self.pending_notifications)\nself.pending_notifications.clear()")
    if detach_then_push and not reorder:
        ctx.ok("R1.4", where(sp), "flush detaches the queue, then pushes the detached list whole and in order")
    elif once and not reorder:
        ctx.bad("R1.4", sp.module, sp.qual, "if self.pending_notifications: detach; push", "the flush detaches and pushes the queue once: lines queued during that push are still queued when it returns, and the callers that go on to push notifications directly (IDLE, EXPUNGE, MOVE raise `idling` right after the flush) send newer EXPUNGEs before those older ones - the session's replayed view removes the wrong messages", sp.node.lineno)
    elif push_then_reset:
        ctx.bad("R1.4", sp.module, sp.qual, "await push(*self.pending_notifications); self.pending_notifications = []", "the queue is emptied after the push that sends it: push() suspends on a slow client, and an EXPUNGE / EXISTS queued for the session during that suspension is wiped by the reset - the session never learns of it and its view stays different from the mailbox for good", sp.node.lineno)
    else:
        ctx.bad("R1.4", sp.module, sp.qual, norm(sp.node.body[-1], 200), "send_pending_notifications no longer detaches the queue and pushes the whole detached list in order", sp.node.lineno)


IDLING_OWNERS = {
    "client.BaseClientHandler.do_idle": "IDLE sets it; do_done / select / unselect / bye clear it",
}


def r1_5(ctx):
    """`idling` decides whether a notification is pushed at once or queued (R1.1).  Outside IDLE itself, a handler that
    raises it temporarily (so that the EXPUNGEs of its own EXPUNGE/MOVE reach it directly) must put the saved value back on
    every exit: a session left `idling` gets EXPUNGEs pushed in the middle of its later FETCH/STORE/SEARCH."""
    p = ctx.p
    n = 0
    for fi in p.funcs_in("client"):
        sets = [s_ for s_ in body_walk(fi.node) if isinstance(s_, ast.Assign) and norm(s_.targets[0]) == "self.idling" and isinstance(s_.value, ast.Constant) and s_.value.value is True]
        if not sets:
            continue
        n += len(sets)
        ctx.analysed(fi)
        if fi.key in IDLING_OWNERS:
            ctx.ok("R1.5", where(fi), f"self.idling = True: {IDLING_OWNERS[fi.key]}", nontrivial=False)
            continue
        par = parmap(fi)
        for st in sets:
            # saved = self.idling  before, and a finally of an enclosing try restores it
            saved = [a for a in body_walk(fi.node) if isinstance(a, ast.Assign) and norm(a.value) == "self.idling" and isinstance(a.targets[0], ast.Name) and a.lineno < st.lineno]
            cur, restored = st, False
            while cur in par:
                pr = par[cur]
                if isinstance(pr, ast.Try) and cur in pr.body:
                    for f_ in pr.finalbody:
                        if isinstance(f_, ast.Assign) and norm(f_.targets[0]) == "self.idling" and saved and norm(f_.value) in {norm(a.targets[0]) for a in saved}:
                            restored = True
                cur = pr
            if restored:
                ctx.ok("R1.5", where(fi), f"temporary idling @{st.lineno}: saved before, restored in `finally`")
            else:
                ctx.bad(
                    "R1.5", fi.module, fi.qual, "self.idling = True without restore",
                    "the handler raises `idling` for its own notifications but does not restore the saved value in a `finally`: the session "
                    "stays in push mode, and later EXPUNGEs of other sessions are sent in the middle of its non-UID FETCH/STORE/SEARCH",
                    st.lineno,
                )
    ctx.floor("R1.5", n, 3, "sites that raise self.idling")
    # IDLE raises it, DONE lowers it - on every normal path through the handler
    for key, val, what in (("client.BaseClientHandler.do_idle", True, "IDLE never switches the session to push mode: updates are not delivered while idling"), ("client.BaseClientHandler.do_done", False, "DONE leaves the session in push mode: EXPUNGEs are pushed in the middle of its later commands")):
        fi = p.func(key)
        g = ctx.cfg(fi)
        st = {nd.id for nd in g.nodes if nd.kind == "stmt" and isinstance(nd.ast, ast.Assign) and norm(nd.ast.targets[0]) == "self.idling" and isinstance(nd.ast.value, ast.Constant) and nd.ast.value.value is val}
        w = flow.escapes_without(g, g.entry, lambda x: x in st, {g.exit}, flow.NORMAL)
        ctx.paths_explored += 1
        if st and w is None:
            ctx.ok("R1.5", where(fi), f"self.idling = {val} on every normal path")
        else:
            ctx.bad("R1.5", fi.module, fi.qual, f"self.idling = {val}", what, fi.node.lineno, flow.fmt_path(g, w) if w else "")


def r1_5b(ctx):
    """`idling` switches the session from queued to direct delivery.  Direct lines must not overtake queued ones (an EXPUNGE
    is positional: it is numbered after every earlier one).  So wherever `self.idling = True` is executed the queue has just
    been flushed: every path to the assignment passes send_pending_notifications(), and no suspension point lies between the
    last flush and the assignment (other sessions' commands run at every suspension point and queue new lines)."""
    p = ctx.p
    n = 0
    for fi in p.funcs_in("client"):
        sets = [s for s in body_walk(fi.node) if isinstance(s, ast.Assign) and any(norm(t) == "self.idling" for t in s.targets) and isinstance(s.value, ast.Constant) and s.value.value is True]
        if not sets:
            continue
        ctx.analysed(fi)
        g = ctx.cfg(fi)
        flush = {x.id for x in g.nodes if x.ast is not None and x.kind == "stmt" and any(call_name(c) == "send_pending_notifications" for c in calls_in(x.ast))}
        for s in sets:
            n += 1
            nid = [x for x in g.nodes_for(s) if g.nodes[x].kind == "stmt"]
            ctx.require(nid, f"{fi.qual}: CFG node of `self.idling = True` not found")
            unflushed = flow.escapes_without(g, g.entry, lambda x: x in flush, [nid[0]]) if flush else [g.entry, nid[0]]
            late = None
            if unflushed is None:
                for w in [x.id for x in g.nodes if x.awaits and x.id not in flush]:
                    if nid[0] in flow.reach(g, [w], flow.NORMAL, avoid=lambda x: x in flush):
                        late = w
                        break
            ctx.paths_explored += 2
            if unflushed is not None:
                ctx.bad("R1.5", fi.module, fi.qual, "self.idling = True without a flush", f"{fi.name} starts pushing notifications directly while lines queued earlier for the session may still be in its queue: its own `* n EXPUNGE` overtakes an older one queued by another session's command, and the session's replayed view removes the wrong message", s.lineno, flow.fmt_path(g, unflushed))
            elif late is not None:
                ctx.bad("R1.5", fi.module, fi.qual, "suspension point between the flush and self.idling = True", f"{fi.name} suspends (`{norm(g.nodes[late].ast, 60)}`) after flushing the queue and before switching to direct delivery: a line queued during that suspension is overtaken by the directly pushed ones", s.lineno)
            else:
                ctx.ok("R1.5", where(fi), "direct delivery (`idling`) starts right after a flush, with no suspension point in between")
    ctx.floor("R1.5b", n, 3, "places that raise `idling`")


# loops over a shared container that may suspend and still iterate the live object, with the reason it is safe
LIVE_ITERATION_OK = {
    ("user_server.IMAPClientProxy.close", "clients"): "the loop leaves (`break`) right after its only await",
    ("pop3_client.POP3ClientProxy.close", "clients"): "the loop leaves (`break`) right after its only await",
    ("mbox.Mailbox._restore_from_db", "sequences"): "runs while the mailbox object is being built, before it is registered or has a management task",
}


def r1_8(ctx):
    """Notifications are fanned out to the sessions of a mailbox by a loop that awaits (a push to an idling session suspends
    on a slow client).  At every suspension point other tasks run: sessions select and unselect the mailbox, i.e. insert into
    and delete from the very table the loop iterates.  A dict that changes size under its iterator raises RuntimeError at the
    next step - the rest of the sessions never get the EXPUNGE / EXISTS, and the command that was announcing dies half way.
    So: a loop whose body can suspend iterates a *copy* (list(...), tuple(...), sorted(...)) of any attribute container that
    some other function of the package inserts into or deletes from."""
    p = ctx.p
    mutators: dict[str, set[str]] = {}
    for fi in p.functions.values():
        for n in ast.walk(fi.node):
            t = None
            if isinstance(n, ast.Subscript) and isinstance(n.ctx, (ast.Store, ast.Del)) and isinstance(n.value, ast.Attribute):
                t = n.value.attr
            elif isinstance(n, ast.Call) and isinstance(n.func, ast.Attribute) and n.func.attr in ("pop", "popitem", "remove", "discard", "clear", "add", "append", "insert", "extend", "update", "setdefault") and isinstance(n.func.value, ast.Attribute):
                t = n.func.value.attr
            if t:
                mutators.setdefault(t, set()).add(fi.key)
    n_loops = 0
    for fi in p.functions.values():
        for lp in [x for x in body_walk(fi.node) if isinstance(x, (ast.For, ast.AsyncFor))]:
            it = lp.iter
            base = it.func.value if isinstance(it, ast.Call) and isinstance(it.func, ast.Attribute) and it.func.attr in ("values", "items", "keys") and not it.args else it
            if not (isinstance(base, ast.Attribute) and base.attr in mutators):
                continue
            if not any(isinstance(x, (ast.Await, ast.AsyncFor, ast.AsyncWith)) for s in lp.body for x in ast.walk(s)):
                continue
            others = sorted(mutators[base.attr] - {fi.key})
            if not others:
                continue
            n_loops += 1
            ctx.analysed(fi)
            why = LIVE_ITERATION_OK.get((fi.key, base.attr))
            if why:
                ctx.ok("R1.8", where(fi), f"live iteration of {norm(it, 50)} across an await: {why}", nontrivial=False)
            else:
                ctx.bad("R1.8", fi.module, fi.qual, f"for ... in {norm(it, 60)}: ... await ...", f"the loop suspends while iterating the live `{base.attr}` table, which {others[0].split('.', 1)[1]} (and {len(others) - 1} more) change: a session that selects or leaves during the suspension makes the next step raise `dictionary changed size during iteration` - the remaining sessions never get this EXPUNGE / EXISTS and the announcing command fails half way", lp.lineno)
    # the fan-outs themselves iterate a copy
    for key in ("mbox.Mailbox._dispatch_or_pend_notifications", "mbox.Mailbox.check_new_msgs_and_flags"):
        fi = p.func(key)
        loops = [x for x in body_walk(fi.node) if isinstance(x, ast.For) and "self.clients" in norm(x.iter)]
        ctx.floor("R1.8", len(loops), 1, f"fan-out loops over self.clients in {fi.name}")
        for lp in loops:
            if isinstance(lp.iter, ast.Call) and isinstance(lp.iter.func, ast.Name) and lp.iter.func.id in ("list", "tuple", "sorted"):
                ctx.ok("R1.8", where(fi), f"fan-out iterates a copy: {norm(lp.iter, 60)}")


def r1_9(ctx):
    """A push to *another* session (an idling listener) fails when that session's connection has gone away
    (ConnectionResetError / BrokenPipeError from drain()).  That is that session's end, not the announcing command's: if the
    error escapes the fan-out, the command that was announcing an EXPUNGE dies between two list updates (the reverse indexes
    are not rebuilt, the flag sets keep the removed key), the sessions later in the table never get the line, and - because
    command() takes a ConnectionResetError for the issuer's own connection - the issuer gets no tagged reply at all.  So every
    direct push to another session in mbox.py sits in a `try` whose handler for OSError / ConnectionError does not re-raise."""
    p = ctx.p
    n = 0
    for fi in p.funcs_in("mbox"):
        par = None
        for c in [x for x in calls_in(fi.node) if is_push_call(x)]:
            r = call_recv(c)
            if not (isinstance(r, ast.Attribute) and r.attr == "client" and _auth_receiver(p, fi, r.value)):
                continue
            n += 1
            ctx.analysed(fi)
            par = par or parmap(fi)
            cur, caught = c, False
            while cur in par and not caught:
                pr = par[cur]
                if isinstance(pr, ast.Try) and cur in pr.body:
                    for h in pr.handlers:
                        names = {norm(t).split(".")[-1] for t in (h.type.elts if isinstance(h.type, ast.Tuple) else [h.type])} if h.type else {"BaseException"}
                        if names & {"OSError", "ConnectionError", "Exception", "BaseException"} and not any(isinstance(x, ast.Raise) for st in h.body for x in ast.walk(st)):
                            caught = True
                if isinstance(pr, (ast.FunctionDef, ast.AsyncFunctionDef)):
                    break
                cur = pr
            if caught:
                ctx.ok("R1.9", where(fi), f"push to another session @{c.lineno} cannot fail the announcing command (connection errors handled in place)")
            else:
                ctx.bad("R1.9", fi.module, fi.qual, norm(c, 80), "a direct push to another session (an idling listener) is not shielded: when that session's connection has died the ConnectionResetError escapes into the command that was announcing - an EXPUNGE stops half way (indexes and flag sets not updated), the other sessions never get the line, and the issuer gets no tagged reply", c.lineno)
    ctx.floor("R1.9", n, 2, "direct pushes to other sessions in mbox.py")


def r1_6(ctx):
    """SELECT / EXAMINE give the session a fresh view (EXISTS from the current state).  Whatever was queued for the old view
    must be dropped before that, unconditionally - also when the same mailbox is selected again: a queued EXPUNGE replayed onto
    the fresh view removes a message the server still has."""
    p = ctx.p
    fi = p.func("client.Authenticated.do_select")
    g = ctx.cfg(fi)
    clears = {n.id for n in g.nodes if n.kind == "stmt" and isinstance(n.ast, ast.Assign) and norm(n.ast.targets[0]) == "self.pending_notifications" and isinstance(n.ast.value, ast.List) and not n.ast.value.elts}
    sel = [n.id for n in g.nodes if n.ast is not None and n.kind in ("stmt", "with_enter") and any(call_name(c) == "selected" for c in calls_in(n.ast))]
    ctx.require(sel, "do_select: call of Mailbox.selected() not found")
    bad = [s_ for s_ in sel if flow.dominated_by(g, s_, lambda n: n in clears) is not None]
    ctx.paths_explored += len(sel)
    if clears and not bad:
        ctx.ok("R1.6", where(fi), "pending_notifications is emptied on every path before the mailbox is (re)selected")
    else:
        ctx.bad("R1.6", fi.module, fi.qual, "self.pending_notifications = [] before selected()", "SELECT/EXAMINE can give the session a fresh view while lines queued for its old view are kept (e.g. when the same mailbox is selected again): the next flush replays a stale EXPUNGE onto the fresh view", fi.node.lineno)


def _sel_classify(e):
    if isinstance(e, ast.Attribute) and e.attr == "mbox" and isinstance(e.value, ast.Name) and e.value.id == "self":
        return "has_mbox"
    if isinstance(e, ast.Compare) and len(e.ops) == 1 and isinstance(e.ops[0], ast.Eq) and norm(e.left) == "self.state" and norm(e.comparators[0]).endswith("SELECTED"):
        return "selected"
    return None


def r1_6b(ctx):
    """While a SELECT / EXAMINE waits for the new mailbox (get_mailbox, the admission queue) other sessions' commands run.  A
    session that is still registered with its old mailbox during that wait is handed their EXPUNGE lines - into the queue it
    has just emptied - and replays them onto the fresh view.  So: on every path on which the session has a selected mailbox,
    `self.mbox.unselected(...)` runs before the first suspension point that follows the clearing of the queue - also when the
    mailbox selected again is the same one."""
    p = ctx.p
    fi = p.func("client.Authenticated.do_select")
    g = ctx.cfg(fi)
    uns = {n.id for n in g.nodes if n.ast is not None and n.kind == "stmt" and any(call_name(c) == "unselected" and norm(call_recv(c)) == "self.mbox" for c in calls_in(n.ast))}
    ctx.require(uns, "do_select: self.mbox.unselected(...) not found")
    waits = {n.id for n in g.nodes if n.ast is not None and n.kind in ("stmt", "with_enter") and any(call_name(c) in ("get_mailbox", "ready_and_okay", "selected") for c in calls_in(n.ast))}
    ctx.require(waits, "do_select: get_mailbox / ready_and_okay not found")
    hit = flow.feasible_paths_exist(
        g, g.entry, waits, _sel_classify, labels=flow.NORMAL, avoid=lambda n: n in uns,
        accept=lambda n, f: f.get("has_mbox") is not False and f.get("selected") is not False,
    )
    ctx.paths_explored += 1
    if hit:
        path, facts = hit
        ctx.bad("R1.6", fi.module, fi.qual, "self.mbox.unselected(...) before the SELECT waits", "a session with a selected mailbox can reach get_mailbox / the admission of the new mailbox while still registered with the old one (e.g. when the same mailbox is selected again): EXPUNGEs of commands that run during the wait are queued for it and replayed onto the fresh view", g.nodes[path[-1]].line, flow.fmt_path(g, path))
    else:
        ctx.ok("R1.6", where(fi), "every path with a selected mailbox unregisters from it before the SELECT waits for the new one")


def r1_7(ctx):
    """The message count a session is told (`* n EXISTS`) is the length of the server's message list at that moment:
    len(self.msg_keys) in the SELECT response; len of the freshly merged key list in the resync - which is what self.msg_keys
    and self.num_msgs are set to in the same function."""
    from ..astutil import fstring_parts, merge_consts
    from .common import pm_of

    p = ctx.p
    n = 0
    for fi in p.funcs_in("mbox"):
        for js in [x for x in body_walk(fi.node) if isinstance(x, ast.JoinedStr)]:
            parts = merge_consts(fstring_parts(js))
            if len(parts) >= 3 and isinstance(parts[0], str) and parts[0] == "* " and isinstance(parts[2], str) and parts[2].startswith(" EXISTS"):
                n += 1
                ctx.analysed(fi)
                h = parts[1]
                okv = norm(h) == "len(self.msg_keys)"
                if not okv and isinstance(h, ast.Name):
                    from ..pattern import PM
                    pm = PM(p, fi, fixed={h.id})  # the hole's own name is not a pattern variable
                    # num_msgs = len(msg_keys), and the same msg_keys / num_msgs become the mailbox's state
                    okv = pm.has(f"{h.id} = len(msg_keys)") and pm.has("self.msg_keys.extend(new_msg_keys)") and pm.has(f"self.num_msgs = {h.id}")
                if okv:
                    ctx.ok("R1.7", where(fi), f"`* {{{norm(h)}}} EXISTS` announces the length of the message list")
                else:
                    ctx.bad("R1.7", fi.module, fi.qual, f"* {{{norm(h, 40)}}} EXISTS", f"the count announced with EXISTS (`{norm(h, 40)}`) is not the length of the server's message list: the session's view has a different size than the mailbox", js.lineno)
    ctx.floor("R1.7", n, 2, "EXISTS templates")


def r1_10(ctx):
    """The numbers in a SEARCH response are generated by the server from the mailbox as it is when the search runs.  An
    EXISTS for this session may still be queued (check_new_msgs_and_flags queues it behind whatever else is pending, to keep
    the order): until it is sent the session's view is shorter than the list the search walks.  So between the admission of the
    command and the call of Mailbox.search() every path sends the session's queue (send_pending_notifications) - or leaves
    with NO."""
    p = ctx.p
    fi = p.func("client.Authenticated.do_search")
    ctx.analysed(fi)
    g = ctx.cfg(fi)
    adm = [w for w, c in admission_items(fi)]
    ctx.require(adm, "do_search: admission (ready_and_okay) not found")
    enter = [n.id for n in g.nodes if n.kind == "with_enter" and n.stmt is adm[0]]
    search = [n.id for n in g.nodes if n.ast is not None and n.kind == "stmt" and any(call_name(c) == "search" and norm(call_recv(c)) == "self.mbox" for c in calls_in(n.ast))]
    flush = {n.id for n in g.nodes if n.ast is not None and n.kind == "stmt" and any(call_name(c) == "send_pending_notifications" for c in calls_in(n.ast))}
    ctx.require(enter and search, "do_search: admission entry / Mailbox.search() call not found in the CFG")
    w = flow.escapes_without(g, enter[0], lambda n: n in flush, search)
    ctx.paths_explored += 1
    if w:
        ctx.bad("R1.10", fi.module, fi.qual, "send_pending_notifications() between admission and self.mbox.search(...)", "SEARCH can run with notifications still queued for the session: an EXISTS queued behind another notification has not reached the client, and the answer names a sequence number above the message count the session was told", g.nodes[search[0]].line, flow.fmt_path(g, w))
    else:
        ctx.ok("R1.10", where(fi), "the session's queue is sent on every path from the admission to Mailbox.search()")


def r1_11(ctx):
    """When a resync has found new messages, every session that has the mailbox selected is told the new message count:
    the EXISTS line is pushed to it at once or - if other notifications are still queued for it - queued behind them.  In
    check_new_msgs_and_flags the loop over the mailbox's clients delivers the list that holds the EXISTS line on every path
    through its body (an arm that neither pushes nor queues leaves that session with a view that is one message short for
    good: nothing repeats an EXISTS)."""
    p = ctx.p
    fi = p.func("mbox.Mailbox.check_new_msgs_and_flags")
    ctx.analysed(fi)
    g = ctx.cfg(fi)
    par = parmap(fi)
    loops = [n for n in body_walk(fi.node) if isinstance(n, (ast.For, ast.AsyncFor)) and "self.clients" in norm(n.iter)]
    found = 0
    for lp in loops:
        # the list this loop hands out
        names = set()
        for c in calls_in(lp):
            if call_name(c) == "extend" and c.args and isinstance(c.args[0], ast.Name) and "pending_notifications" in norm(call_recv(c)):
                names.add(c.args[0].id)
            if call_name(c) == "push":
                for a in c.args:
                    if isinstance(a, ast.Starred) and isinstance(a.value, ast.Name):
                        names.add(a.value.id)
        for nm in sorted(names):
            # the definition in force at the loop: the statements before the loop in the same block, latest first
            blk = par[lp]
            lst = next((getattr(blk, f) for f in ("body", "orelse", "finalbody") if isinstance(getattr(blk, f, None), list) and lp in getattr(blk, f)), None)
            if lst is None:
                continue
            text = []
            for s_ in reversed(lst[: lst.index(lp)]):
                t = norm(s_, 400)
                if re.match(rf"{nm}\b", t) or re.match(rf"{nm}\.(append|extend)\(", t):
                    text.append(t)
                    if isinstance(s_, ast.Assign) and any(isinstance(tg, ast.Name) and tg.id == nm for tg in s_.targets):
                        break
            if not any("EXISTS" in t for t in text):
                continue
            found += 1
            deliver = {
                nd.id for nd in g.nodes
                if nd.ast is not None and nd.kind in ("stmt", "with_enter") and any(
                    (call_name(c) == "extend" and c.args and norm(c.args[0]) == nm and "pending_notifications" in norm(call_recv(c)))
                    or (call_name(c) == "push" and any(isinstance(a, ast.Starred) and norm(a.value) == nm for a in c.args))
                    for c in calls_in(nd.ast)
                )
            }
            heads = [nd.id for nd in g.nodes if nd.kind == "iter" and nd.stmt is lp]
            ctx.require(heads and deliver, "check_new_msgs_and_flags: EXISTS fan-out loop not found in the CFG")
            first = [e.dst for e in g.out[heads[0]] if e.label == "true"]
            w = None
            for f0 in first:
                if f0 in deliver:
                    continue
                w = w or flow.escapes_without(g, f0, lambda n: n in deliver, [heads[0]])
            ctx.paths_explored += 1
            if w:
                ctx.bad("R1.11", fi.module, fi.qual, f"for c in clients: ... {nm}", f"one way through the loop that announces the new message count neither pushes nor queues `{nm}` (the list with the EXISTS line): that session is never told of the new messages - its view stays short, later sequence numbers the server sends it do not exist in it", lp.lineno, flow.fmt_path(g, w))
            else:
                ctx.ok("R1.11", where(fi), f"every selected session gets `{nm}` (EXISTS / RECENT): pushed, or queued behind what is pending for it")
    ctx.floor("R1.11", found, 1, "EXISTS fan-out loops in check_new_msgs_and_flags")


def run(ctx):
    ctx.do(r1_1)
    ctx.do(r1_2)
    ctx.do(r1_3)
    ctx.do(r1_4)
    ctx.do(r1_5)
    ctx.do(r1_5b)
    ctx.do(r1_6)
    ctx.do(r1_6b)
    ctx.do(r1_7)
    ctx.do(r1_8)
    ctx.do(r1_9)
    ctx.do(r1_10)
    ctx.do(r1_11)
    from . import c02
    ctx.do(c02.r2_6)
    # shared necessary conditions decided by sibling modules (reported under this property too)
    from . import c03, c10
    ctx.do(c03.r3_1_2)
    ctx.do(c03.r3_5)
    ctx.do(c10.r10_3)
    ctx.do(c10.r10_1)
