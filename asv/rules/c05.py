"""C05 - only the addressed messages are removed, copied or moved.

 R5.1 EXAMINE guard dominates every selected-mailbox mutator reachable from a handler (incl. CLOSE, R5.4)
 R5.2 MOVE expunges exactly the source UIDs returned by copy(), with check_deleted=False
 R5.3 expunge(): the forced (check_deleted=False) path never consults \\Deleted, the \\Deleted paths take only
      \\Deleted keys (restricted by uid_msg_set); message-removal primitives only in their owner functions
 R5.5 validate-before-mutate: no NO/BAD raised after a persistent effect in the same operation
 R5.6 APPENDUID / COPYUID built from the values returned by append() / copy()
 R5.7 the canonical set expansion de-duplicates (COPY/MOVE iterate it directly)
"""
from __future__ import annotations

import ast

from .. import flow
from ..astutil import body_walk, call_name, call_recv, calls_in, fstring_parts, kwarg, names_in, norm, strip_await, walk_no_nested
from .common import admission_items, env_of, parmap, typer, where

PROP = "C05"
EXPLANATION = (
    "Decided structural clauses: (R5.1/R5.4) in every Authenticated.do_* handler each call of a selected-mailbox mutator "
    "(Mailbox.store, Mailbox.expunge, a Mailbox.fetch that may change flags) is reachable only on paths where "
    "self.examine has been tested false (or the call carries an argument derived from self.examine that disables the "
    "change); (R5.2) do_move passes to expunge() exactly the first component returned by the preceding copy(), filtered "
    "for None, with check_deleted=False; (R5.3) in Mailbox.expunge, with check_deleted assumed false no path reads "
    "sequences['Deleted'], and with it true the deletion list derives from sequences['Deleted'] only (optionally "
    "restricted by uid_msg_set); file-removal primitives are called only from their frozen owner functions; (R5.5) in "
    "create/delete/rename and the handlers no explicit raise of a No/Bad-family exception is reachable after a node "
    "with a persistent effect (exceptions are single named sites); (R5.6) the integers formatted into APPENDUID and "
    "COPYUID are the values returned by append()/copy(); (R5.7) sequence_set_to_list returns a de-duplicated list. "
    "Decides these clauses, not conservation of message content/count over arbitrary subsets."
)
RULE_TEXT = (
    "instances: each mutator call site in a handler; each removal-primitive call site; each reaching path class of "
    "expunge(); each (effect node, raise node) pair; each UIDPLUS hole; non-trivial = needed a path-predicate query"
)
ASSUMPTIONS = ["Authenticated.examine is the only read-only marker of a session", "not decided: conservation of content/count over subsets and orders"]
LEVEL_TEXT = (
    "Static path-predicate and provenance rules: read-only sessions cannot reach a mutator, MOVE removes exactly what "
    "copy() reported, the forced-expunge path never falls into the \\Deleted path, removal primitives have frozen owners, "
    "refusals precede effects, UIDPLUS codes carry the returned values. Conservation over all subsets is not decided."
)
LEVEL_NOTE = "Structural clauses only; owner/exception tables in asv/rules/c05.py. Trusted: CPython ast."
TECHNIQUE = "path-predicate CFG query + def-use provenance + who-may-call"
DESIGN_REF = "DESIGN.md section 3 / C05"

REMOVAL_OWNERS = {
    "aremove": {"mbox.Mailbox.expunge"},
    "aclear": {"mbox.Mailbox.delete"},
    "remove_folder": {"mbox.Mailbox.delete"},
    "rmtree": {"mbox.Mailbox.delete"},
    "remove": {"mbox._helper_rename_inbox", "mh.MH.aclear", "mh.MH.aremove", "mbox._helper_rename_folder"},
    "discard": set(),
}


def _ex_classify(e):
    if isinstance(e, ast.Attribute) and norm(e) == "self.examine":
        return "ex"
    return None


def r5_1(ctx):
    p = ctx.p
    ci = p.cls("Authenticated")
    n_sites = 0
    for m, fi in sorted(ci.methods.items()):
        if not m.startswith("do_"):
            continue
        g = None
        for c in calls_in(fi.node):
            nm = call_name(c)
            r = call_recv(c)
            if nm not in ("store", "expunge", "fetch") or r is None:
                continue
            ts = typer(p).expr_type(r, env_of(p, fi))
            if "Mailbox" not in ts:
                continue
            n_sites += 1
            if g is None:
                g = ctx.cfg(fi)
            par = parmap(fi)
            st = c
            while not isinstance(st, ast.stmt):
                st = par[st]
            nodes = [n for n in g.nodes_for(st)] or [n for n in g.nodes_for(getattr(st, "iter", st))]
            ctx.require(nodes, f"{fi.key}: CFG node for {norm(c, 60)} missing", anchor=True)
            # argument derived from self.examine that disables flag changes (fetch only)
            if nm == "fetch" and any("self.examine" in norm(a) for a in list(c.args) + [k.value for k in c.keywords]):
                ctx.ok("R5.1", where(fi), f"{norm(c.func)}: flag changes disabled by an argument derived from self.examine")
                continue
            hit = flow.feasible_paths_exist(
                g, g.entry, set(nodes), _ex_classify, labels=flow.NORMAL,
                accept=lambda t, f: f.get("ex") is not False,
                kills=lambda nid: {"ex"} if any(isinstance(s, ast.Assign) and any(norm(t) == "self.examine" for t in s.targets) for s in [g.nodes[nid].ast] if s is not None) else set(),
            )
            ctx.paths_explored += 1
            what = {"store": "STORE changes flags", "expunge": "messages are expunged", "fetch": "a non-PEEK body fetch sets \\Seen / FETCH FLAGS clears \\Recent"}[nm]
            if hit:
                path, _ = hit
                ctx.bad(
                    "R5.1", fi.module, fi.qual, norm(c.func) + "(...)",
                    f"{m} reaches {norm(c.func)}() on a path where self.examine was never tested: in a session opened with "
                    f"EXAMINE {what}",
                    c.lineno, flow.fmt_path(g, path),
                )
            else:
                ctx.ok("R5.1", where(fi), f"{norm(c.func)}() only reachable with self.examine tested false")
    ctx.floor("R5.1", n_sites, 5, "selected-mailbox mutator call sites in handlers")
    # do_select stores the examine flag from its parameter; do_examine passes True
    ds = p.func("client.Authenticated.do_select")
    if any(isinstance(s, ast.Assign) and norm(s.targets[0]) == "self.examine" and norm(s.value) == "examine" for s in body_walk(ds.node)):
        ctx.ok("R5.1", where(ds), "SELECT/EXAMINE record the read-only marker from the `examine` parameter", nontrivial=False)
    else:
        ctx.bad("R5.1", ds.module, ds.qual, "self.examine = examine", "do_select no longer records the read-only marker", ds.node.lineno)
    de = p.func("client.Authenticated.do_examine")
    if any(call_name(c) == "do_select" and kwarg(c, "examine") is not None and isinstance(kwarg(c, "examine"), ast.Constant) and kwarg(c, "examine").value is True for c in calls_in(de.node)):
        ctx.ok("R5.1", where(de), "do_examine -> do_select(examine=True)", nontrivial=False)
    else:
        ctx.bad("R5.1", de.module, de.qual, "do_select(cmd, examine=True)", "EXAMINE no longer selects read-only", de.node.lineno)


def r5_1b(ctx):
    """The guards of R5.1 test self.examine; that flag must be what the client asked for: EXAMINE selects with
    examine=True, SELECT with its default False, and do_select stores the parameter on the path that selects."""
    p = ctx.p
    ds = p.func("client.Authenticated.do_select")
    de = p.func("client.Authenticated.do_examine")
    g = ctx.cfg(ds)
    ctx.analysed(de)
    params = ds.node.args.args
    ex = [a for a in params if a.arg == "examine"]
    ctx.require(ex, "do_select lost its `examine` parameter", anchor=True)
    # default False
    defaults = dict(zip([a.arg for a in params[-len(ds.node.args.defaults):]], ds.node.args.defaults)) if ds.node.args.defaults else {}
    d = defaults.get("examine")
    if isinstance(d, ast.Constant) and d.value is False:
        ctx.ok("R5.1", where(ds), "SELECT: `examine` defaults to False", nontrivial=False)
    else:
        ctx.bad("R5.1", ds.module, ds.qual, "examine default", "do_select's `examine` parameter no longer defaults to False: a plain SELECT opens the mailbox read-only (or EXAMINE read-write)", ds.node.lineno)
    calls = [c for c in calls_in(de.node) if call_name(c) == "do_select"]
    okc = [c for c in calls if (isinstance(kwarg(c, "examine"), ast.Constant) and kwarg(c, "examine").value is True) or (len(c.args) >= 2 and isinstance(c.args[1], ast.Constant) and c.args[1].value is True)]
    if calls and len(okc) == len(calls):
        ctx.ok("R5.1", where(de), "EXAMINE selects with examine=True")
    else:
        ctx.bad("R5.1", de.module, de.qual, norm(calls[0]) if calls else "do_select(cmd, examine=True)", "do_examine no longer selects the mailbox with examine=True: the session is read-write and every EXAMINE guard is void", de.node.lineno)
    # the store, on every path that sets the SELECTED state
    stores = {n.id for n in g.nodes if n.kind == "stmt" and isinstance(n.ast, ast.Assign) and norm(n.ast.targets[0]) == "self.examine" and norm(n.ast.value) == "examine"}
    sel = [n.id for n in g.nodes if n.kind == "stmt" and isinstance(n.ast, ast.Assign) and norm(n.ast.targets[0]) == "self.state" and "SELECTED" in norm(n.ast.value)]
    ctx.require(sel, "do_select: store of the SELECTED state not found")
    bad = False
    for s_ in sel:
        # from the state store every normal path to the exit passes the examine store, or the examine store dominates it
        w1 = flow.dominated_by(g, s_, lambda n: n in stores)
        w2 = flow.escapes_without(g, s_, lambda n: n in stores, {g.exit}, flow.NORMAL) if w1 is not None else None
        ctx.paths_explored += 2
        if w1 is not None and w2 is not None:
            bad = True
    other = [n for n in g.nodes if n.kind == "stmt" and isinstance(n.ast, ast.Assign) and norm(n.ast.targets[0]) == "self.examine" and n.id not in stores and not (isinstance(n.ast.value, ast.Constant) and n.ast.value.value is False)]
    if not stores or bad:
        ctx.bad("R5.1", ds.module, ds.qual, "self.examine = examine", "the session's read-only flag is not set from the command on the path that selects the mailbox: after EXAMINE the session keeps the flag of the previous SELECT (read-write)", ds.node.lineno)
    elif other:
        ctx.bad("R5.1", ds.module, ds.qual, norm(other[0].ast), "self.examine is set from something other than the `examine` parameter", other[0].line)
    else:
        ctx.ok("R5.1", where(ds), "self.examine = examine on every path that enters the SELECTED state")


def r5_2(ctx):
    p = ctx.p
    fi = p.func("client.Authenticated.do_move")
    ctx.analysed(fi)
    copy_assign = None
    for s in body_walk(fi.node):
        if isinstance(s, ast.Assign) and isinstance(strip_await(s.value), ast.Call) and call_name(strip_await(s.value)) == "copy" and isinstance(s.targets[0], ast.Tuple):
            copy_assign = s
    ctx.require(copy_assign is not None, "do_move: `src, dst = await self.mbox.copy(...)` not found")
    src_var = copy_assign.targets[0].elts[0].id
    exp = [c for c in calls_in(fi.node) if call_name(c) == "expunge"]
    ctx.require(exp, "do_move: expunge call not found")
    for c in exp:
        arg = kwarg(c, "uid_msg_set") or (c.args[0] if c.args else None)
        cd = kwarg(c, "check_deleted") or (c.args[1] if len(c.args) > 1 else None)
        ok_cd = isinstance(cd, ast.Constant) and cd.value is False
        # arg: name defined as [u for u in <src_var> if u is not None] or src_var itself
        okarg = False
        if isinstance(arg, ast.Name):
            if arg.id == src_var:
                okarg = True
            for s in body_walk(fi.node):
                if isinstance(s, ast.Assign) and any(isinstance(t, ast.Name) and t.id == arg.id for t in s.targets):
                    v = s.value
                    if isinstance(v, ast.ListComp) and norm(v.generators[0].iter) == src_var and norm(v.elt) == norm(v.generators[0].target):
                        okarg = all("is not None" in norm(i) for i in v.generators[0].ifs)
        if okarg and ok_cd:
            ctx.ok("R5.2", where(fi), f"expunge(uid_msg_set=<source UIDs returned by copy()>, check_deleted=False)")
        else:
            ctx.bad("R5.2", fi.module, fi.qual, norm(c, 120), "MOVE does not expunge exactly the source UIDs that copy() reported (or not with check_deleted=False): it removes other messages / leaves moved ones", c.lineno)
    # expunge comes after the copy and after the COPYUID push (RFC 6851 order), under its own admission
    pushes = [c for c in calls_in(fi.node) if call_name(c) == "push" and "copyuid" in norm(c).lower()]
    if pushes and pushes[0].lineno < exp[0].lineno and copy_assign.lineno < pushes[0].lineno:
        ctx.ok("R5.2", where(fi), "order: copy -> '* OK [COPYUID..]' -> expunge")
    else:
        ctx.bad("R5.2", fi.module, fi.qual, "copy -> COPYUID -> expunge", "MOVE no longer copies, reports COPYUID and only then expunges", fi.node.lineno)


def r5_3b(ctx):
    """UID EXPUNGE hands Mailbox.expunge() the UIDs it named; `None` means "no restriction" and must be passed exactly when
    the command is *not* a UID command.  A UID set that names no existing message is the empty list (expunge nothing), never
    None (expunge every \\Deleted message)."""
    p = ctx.p
    fi = p.func("client.Authenticated.do_expunge")
    ctx.analysed(fi)
    calls = [c for c in calls_in(fi.node) if call_name(c) == "expunge" and "mbox" in norm(call_recv(c) or ast.Name(""))]
    ctx.require(calls, "do_expunge: call of mbox.expunge not found")
    for c in calls:
        a = kwarg(c, "uid_msg_set") or (c.args[0] if c.args else None)
        if a is None:
            ctx.bad("R5.3", fi.module, fi.qual, norm(c, 80), "EXPUNGE no longer passes a UID restriction: UID EXPUNGE removes every \\Deleted message", c.lineno)
            continue
        v = a
        if isinstance(a, ast.Name):
            defs = [s_.value for s_ in body_walk(fi.node) if isinstance(s_, ast.Assign) and norm(s_.targets[0]) == a.id]
            v = defs[-1] if defs else a
        okv = False
        why = "not of the form `<list of UIDs> if cmd.uid_command else None`"
        if isinstance(v, ast.IfExp):
            t = v.test
            plain = norm(t) == "cmd.uid_command"
            none_else = isinstance(v.orelse, ast.Constant) and v.orelse.value is None
            listy = isinstance(v.body, (ast.ListComp, ast.List)) or (isinstance(v.body, ast.Call) and call_name(v.body) in ("list", "sorted"))
            if plain and none_else and listy:
                okv = True
            elif not plain:
                why = f"the restriction is dropped (None) on `not ({norm(t, 60)})`, i.e. also for a UID EXPUNGE whose set names no existing message"
        if okv:
            ctx.ok("R5.3", where(fi), "UID EXPUNGE passes the list of named UIDs (possibly empty); None only for plain EXPUNGE")
        else:
            ctx.bad("R5.3", fi.module, fi.qual, f"uid_msg_set = {norm(v, 90)}", f"the UID restriction handed to Mailbox.expunge() is {why}: `UID EXPUNGE <uid that is already gone>` removes every \\Deleted message", getattr(v, "lineno", c.lineno))


def r5_3(ctx):
    p = ctx.p
    fi = p.func("mbox.Mailbox.expunge")
    g = ctx.cfg(fi)

    def cls(e):
        if isinstance(e, ast.Name) and e.id == "check_deleted":
            return "cd"
        return None

    reads_deleted = {
        n.id for n in g.nodes
        if n.ast is not None and n.kind in ("stmt", "test", "iter") and any(
            isinstance(x, ast.Subscript) and isinstance(x.slice, ast.Constant) and x.slice.value == "Deleted" for x in walk_no_nested(n.ast)
        )
    }
    ctx.require(reads_deleted, "expunge(): no read of sequences['Deleted'] found")
    # only reads that feed the deletion list matter (not the final clean-up loop over all sequences)
    hit = flow.feasible_paths_exist(g, g.entry, reads_deleted, cls, initial={"cd": False}, labels=flow.NORMAL)
    ctx.paths_explored += 1
    if hit:
        path, _ = hit
        ctx.bad(
            "R5.3", fi.module, fi.qual, "check_deleted=False path reads sequences['Deleted']",
            "with check_deleted=False (MOVE / POP3 QUIT) a path reaches the \\Deleted-driven branch: e.g. a MOVE that copied "
            "nothing then expunges every message flagged \\Deleted",
            g.nodes[path[-1]].line, flow.fmt_path(g, path),
        )
    else:
        ctx.ok("R5.3", where(fi), "forced path (check_deleted=False) never consults sequences['Deleted']")
    # with check_deleted True the deletion list's reaching definitions derive from Deleted
    from .c01 import reaching_defs
    from .common import pm_of

    pm = pm_of(p, fi)
    loop = [n for n in body_walk(fi.node) if isinstance(n, (ast.For, ast.AsyncFor)) and any(call_name(c) == "aremove" for c in calls_in(n))]
    ctx.require(loop and isinstance(loop[0].iter, ast.Name), "expunge(): removal loop over a named list not found")
    var = loop[0].iter.id
    # bind the pattern variables of the function's shape first
    shape = [
        ("msg_keys_to_delete = self.sequences['Deleted']\nto_delete = sorted(msg_keys_to_delete, reverse=True)", "deletion list = the \\Deleted keys, highest first", "the deletion list is no longer exactly the \\Deleted sequence, highest key first"),
        ("uids_to_delete = [self.uids[self._msg_key_to_idx[x]] for x in to_delete]", "UIDs of the candidates taken position by position", "candidate UIDs are no longer read off the same positions as the candidate keys"),
    ]
    for pat, okmsg, badmsg in shape:
        if pm.has(pat):
            ctx.ok("R5.3", where(fi), okmsg)
        else:
            ctx.bad("R5.3", fi.module, fi.qual, pat, badmsg, fi.node.lineno)
    _restr = "{test}\n    new_to_delete = []\n    new_uids_to_delete = []\n    for uid in uid_msg_set:\n        if uid in uids_to_delete:\n            new_uids_to_delete.append(uid)\n            pos = uids_to_delete.index(uid)\n            new_to_delete.append(to_delete[pos])\n    to_delete = sorted(new_to_delete, reverse=True)\n    ..."
    # (`if uid_msg_set:` is not the same test: a UID EXPUNGE that names only UIDs that do not exist arrives as an empty
    # list, which must restrict the removal to nothing - not lift the restriction)
    restr_pats = [_restr.format(test="if uid_msg_set is not None:")]
    if any(pm.has(x) for x in restr_pats):
        ctx.ok("R5.3", where(fi), "UID EXPUNGE: restricted to uids in both uid_msg_set and the \\Deleted set (key taken at the uid's position)")
    else:
        ctx.bad("R5.3", fi.module, fi.qual, "if uid_msg_set is not None: for uid in uid_msg_set: if uid in uids_to_delete: ...", "UID restriction of EXPUNGE no longer intersects the given set with the \\Deleted messages", fi.node.lineno)
    forced_pat = "for uid in uid_msg_set:\n    if uid in self._uid_to_idx:\n        idx = self._uid_to_idx[uid]\n        to_delete.append(self.msg_keys[idx])\n        uids_to_delete.append(uid)"
    forced_alts = [
        forced_pat,
        # filter first, then map position by position
        "known = [uid for uid in uid_msg_set if uid in self._uid_to_idx]\nto_delete = sorted([self.msg_keys[self._uid_to_idx[u]] for u in known], reverse=True)\nuids_to_delete = sorted(known, reverse=True)",
        "to_delete = sorted([self.msg_keys[self._uid_to_idx[uid]] for uid in uid_msg_set if uid in self._uid_to_idx], reverse=True)\nuids_to_delete = sorted([uid for uid in uid_msg_set if uid in self._uid_to_idx], reverse=True)",
    ]
    if any(pm.has(x) for x in forced_alts):
        ctx.ok("R5.3", where(fi), "forced path keeps only UIDs present in this mailbox and takes the key at the UID's position")
    else:
        ctx.bad("R5.3", fi.module, fi.qual, "if uid in self._uid_to_idx: to_delete.append(self.msg_keys[idx])", "forced expunge no longer filters unknown UIDs / maps each UID to the key at its position", fi.node.lineno)
    # guards and per-message bookkeeping of the removal loop (arm-exact: a negated guard removes nothing / everything)
    more = [
        (["if not self.sequences['Deleted']:\n    return", "if len(self.sequences['Deleted']) == 0:\n    return"],
         "EXPUNGE returns early exactly when no message is \\Deleted", "the early return of EXPUNGE no longer fires exactly when the \\Deleted sequence is empty: EXPUNGE removes nothing although messages are flagged"),
        (["if uid_msg_set is None:\n    return"],
         "forced expunge without a UID list removes nothing", "the forced expunge (MOVE / POP3 QUIT) no longer returns when it was given no UID list"),
        (["for msg_key in to_delete:\n    if msg_key not in self._msg_key_to_idx:\n        ...\n        continue\n    which = self._msg_key_to_idx[msg_key]\n    ...",
          "for msg_key in to_delete:\n    ...\n    if msg_key not in self._msg_key_to_idx:\n        ...\n        continue\n    which = self._msg_key_to_idx[msg_key]\n    ..."],
         "a key that is no longer in the mailbox is skipped (and only such a key)", "the removal loop's skip test is no longer `key not in the index`: present messages are skipped / vanished ones dereferenced"),
        (["which = self._msg_key_to_idx[msg_key]"], "position of the key looked up in the reverse index", "the position of the message to remove is no longer looked up by its key"),
        (["del self.msg_keys[which]"], "msg_keys entry removed at that position", "the message key is no longer removed from msg_keys at the looked-up position"),
        (["del self.uids[which]"], "uids entry removed at the same position", "the UID is no longer removed at the same position as its message key"),
        (["self.num_msgs -= 1", "self.num_msgs = len(self.msg_keys)"], "message count follows the removal (one per removed message)", "num_msgs no longer decreases by exactly one per removed message: EXISTS / STATUS report a wrong count"),
        (["await self.mailbox.aremove(msg_key)"], "the message file of that key is removed", "the message file removed is not the one of the key being expunged"),
        (["for seq in self.sequences.keys():\n    for msg_key in to_delete:\n        self.sequences[seq].discard(msg_key)", "for seq in self.sequences:\n    for msg_key in to_delete:\n        self.sequences[seq].discard(msg_key)", "for seq in self.sequences.values():\n    seq.difference_update(to_delete)",
          # the keys handled so far, collected by the removal loop itself (so that an interrupted EXPUNGE cleans up what it did)
          ("for msg_key in to_delete:\n    done.append(msg_key)\n    ...", "for seq in self.sequences.keys():\n    self.sequences[seq].difference_update(done)"),
          ("for msg_key in to_delete:\n    done.append(msg_key)\n    ...", "for seq in self.sequences.values():\n    seq.difference_update(done)")],
         "removed keys are discarded from every sequence", "removed message keys stay in the flag sequences: .mh_sequences and the database keep mentioning messages that no longer exist"),
    ]
    for pats, okmsg, badmsg in more:
        if any((all(pm.has(y) for y in x) if isinstance(x, tuple) else pm.has(x)) for x in pats):
            ctx.ok("R5.3", where(fi), okmsg)
        else:
            ctx.bad("R5.3", fi.module, fi.qual, pats[0].replace("\n", " "), badmsg, fi.node.lineno)
    # every reaching definition of the removal loop's list is one of the shapes bound above
    ln = [n for n in g.nodes_for(loop[0])]
    defs = reaching_defs(g, ln[0], var)
    ctx.paths_explored += len(defs)
    allowed_src = {pm.name(v) for v in ("msg_keys_to_delete", "new_to_delete", "to_delete")} | {var, "self"}
    # (the comprehension forms of the forced path, pinned by `forced_alts`, read the filtered UID list / the UID argument)
    allowed_src |= {pm.name("known"), pm.name("uids_to_delete"), "uid_msg_set"} - {None} if not pm.has(forced_pat) else set()
    for d in defs:
        a = g.nodes[d].ast
        bound = {t.id for c in ast.walk(a.value) if isinstance(c, ast.comprehension) for t in ast.walk(c.target) if isinstance(t, ast.Name)}
        srcs = names_in(a.value) - {"sorted", "reverse", "True"} - bound
        if srcs <= allowed_src:
            ctx.ok("R5.3", where(fi), f"deletion list def @{g.nodes[d].line}: {norm(a, 60)}")
        else:
            ctx.bad("R5.3", fi.module, fi.qual, norm(a), "deletion list defined from something other than the \\Deleted keys / the UID-restricted subset", g.nodes[d].line)
    # who may remove
    n_sites = 0
    for f2 in p.functions.values():
        if f2.module in ("hashers", "set_password", "trace", "utils"):
            continue
        for c in calls_in(f2.node):
            nm = call_name(c)
            if nm in ("aremove", "aclear", "remove_folder", "rmtree") or (nm == "remove" and _is_fs_remove(c)):
                n_sites += 1
                owners = REMOVAL_OWNERS[nm]
                if f2.key in owners:
                    ctx.ok("R5.3", where(f2), f"{norm(c.func)} in its owner function", nontrivial=False)
                else:
                    ctx.bad("R5.3", f2.module, f2.qual, norm(c, 100), f"message/folder removal primitive {nm}() called outside its owner functions {sorted(owners)}", c.lineno)
    ctx.floor("R5.3", n_sites, 6, "removal primitive call sites")


def _is_fs_remove(c):
    r = norm(call_recv(c)) if call_recv(c) is not None else ""
    return r in ("aiofiles.os", "os", "self", "inbox.mailbox", "self.mailbox") or r.endswith(".mailbox")


# ----------------------------------------------------------------------------
EFFECT_CALLS = {"aclear", "remove_folder", "rmtree", "symlink", "rename", "aremove", "add", "MH", "set_sequences_in_folder", "commit_to_db", "utime"}
RAISE_AFTER_EFFECT_OK = {
    ("mbox.Mailbox.append", "Bad"): "internal-inconsistency report after the fact (message stored but UID lookup failed)",
    ("mbox.Mailbox.copy", "Bad"): "destination deleted between phases; source side untouched",
}


def _noBadFamily(p):
    fam = set()
    for c in p.classes:
        names = {ci.name for ci in p.mro(c)}
        if names & {"No", "Bad"}:
            fam.add(c)
    return fam


def _effect_node(n, self_excluded=("execute",)):
    a = n.ast
    if a is None or n.kind not in ("stmt", "return", "test"):
        return None
    for c in calls_in(a):
        nm = call_name(c)
        if nm in EFFECT_CALLS and not (nm == "rename" and isinstance(c.func, ast.Attribute) and norm(c.func.value) == "Mailbox"):
            if nm == "add" and "mailbox" not in norm(c.func):
                continue
            if nm == "MH" and not isinstance(c.func, ast.Name):
                continue
            return nm
        if nm == "execute" and c.args and isinstance(c.args[0], (ast.Constant, ast.JoinedStr)):
            sql = norm(c.args[0]).lower()
            if any(k in sql for k in ("insert ", "update ", "delete ")):
                return "db-write"
    return None


def r5_5(ctx):
    p = ctx.p
    fam = _noBadFamily(p)
    ctx.require({"No", "Bad"} <= fam, "exception family No/Bad not found", anchor=True)
    targets = [p.func(k) for k in ("mbox.Mailbox.create", "mbox.Mailbox.delete", "mbox.Mailbox.rename", "mbox.Mailbox.append", "mbox.Mailbox.copy", "mbox.Mailbox.store", "mbox.Mailbox.expunge", "mbox._helper_rename_folder", "mbox._helper_rename_inbox")]
    targets += [fi for m, fi in p.cls("Authenticated").methods.items() if m.startswith("do_")]
    pairs = 0
    for fi in targets:
        g = ctx.cfg(fi)
        eff = {n.id: _effect_node(n) for n in g.nodes}
        eff = {k: v for k, v in eff.items() if v}
        raises = []
        for n in g.nodes:
            if n.kind == "raise" and isinstance(n.ast, ast.Raise) and n.ast.exc is not None:
                e = n.ast.exc
                nm = norm(e.func) if isinstance(e, ast.Call) else norm(e)
                if nm in fam:
                    raises.append((n.id, nm))
        if not eff or not raises:
            ctx.ok("R5.5", where(fi), f"{len(raises)} refusal(s), {len(eff)} effect node(s): no refusal can follow an effect", nontrivial=False)
            continue
        seen = flow.reach(g, list(eff), flow.NORMAL)
        ctx.paths_explored += len(seen)
        for rid, nm in raises:
            pairs += 1
            if rid in seen and rid not in eff:
                if (fi.key, nm) in RAISE_AFTER_EFFECT_OK:
                    ctx.ok("R5.5", where(fi), f"raise {nm} after an effect: allowed - {RAISE_AFTER_EFFECT_OK[(fi.key, nm)]}", nontrivial=False)
                    continue
                path = flow.path_to(g, seen, rid)
                first = g.nodes[path[0]]
                ctx.bad(
                    "R5.5", fi.module, fi.qual, norm(g.nodes[rid].ast, 100),
                    f"a {nm} refusal is reachable after a persistent effect ({eff[path[0]]} @{first.line}): the command is "
                    "answered NO/BAD although it already changed the mailbox tree / messages",
                    g.nodes[rid].line, flow.fmt_path(g, path),
                )
            else:
                ctx.ok("R5.5", where(fi), f"raise {nm} @{g.nodes[rid].line} precedes every persistent effect")
    ctx.floor("R5.5", pairs, 4, "refusals in effectful operations")


def r5_6(ctx):
    p = ctx.p
    da = p.func("client.Authenticated.do_append")
    ctx.analysed(da)
    ret = [s for s in body_walk(da.node) if isinstance(s, ast.Return) and s.value is not None and "APPENDUID" in norm(s.value)]
    ctx.require(ret, "do_append: APPENDUID return not found")
    parts = [x for x in fstring_parts(ret[0].value) if not isinstance(x, str)]
    uid_assign = [s for s in body_walk(da.node) if isinstance(s, ast.Assign) and isinstance(strip_await(s.value), ast.Call) and call_name(strip_await(s.value)) == "append" and "mbox" in norm(strip_await(s.value).func)]
    okv = len(parts) == 2 and uid_assign and norm(parts[1]) == norm(uid_assign[0].targets[0]) and norm(parts[0]) == norm(call_recv(strip_await(uid_assign[0].value))) + ".uid_vv"
    if okv:
        ctx.ok("R5.6", where(da), "APPENDUID <dest uid_vv> <uid returned by append()>")
    else:
        ctx.bad("R5.6", da.module, da.qual, norm(ret[0].value), "APPENDUID is not built from the destination's uid_vv and the UID returned by append()", ret[0].lineno)
    fc = p.func("client.Authenticated._format_copyuid")
    ctx.analysed(fc)
    ret = [s for s in body_walk(fc.node) if isinstance(s, ast.Return) and s.value is not None and "COPYUID" in norm(s.value)]
    ctx.require(ret, "_format_copyuid: COPYUID return not found")
    holes = [norm(x) for x in fstring_parts(ret[0].value) if not isinstance(x, str)]
    if holes == ["dest_mbox.uid_vv", "str_src_uids", "str_dst_uids"]:
        ctx.ok("R5.6", where(fc), "COPYUID <dest uid_vv> <src set> <dst set> in that order")
    else:
        ctx.bad("R5.6", fc.module, fc.qual, norm(ret[0].value), "COPYUID fields are not (destination uid_vv, source set, destination set)", ret[0].lineno)
    for var, src in (("new_src_uids", "src_uids"), ("new_dst_uids", "dst_uids")):
        a = [s for s in body_walk(fc.node) if isinstance(s, ast.Assign) and norm(s.targets[0]) == var]
        if a and f"groupby({src}," in norm(a[0].value, 400):
            ctx.ok("R5.6", where(fc), f"{var} compressed from {src}", nontrivial=False)
        else:
            ctx.bad("R5.6", fc.module, fc.qual, var, f"{var} is no longer derived from {src}", fc.node.lineno)
    for m in ("do_copy", "do_move"):
        fi = p.func(f"client.Authenticated.{m}")
        ctx.analysed(fi)
        ca = [s for s in body_walk(fi.node) if isinstance(s, ast.Assign) and isinstance(s.targets[0], ast.Tuple) and isinstance(strip_await(s.value), ast.Call) and call_name(strip_await(s.value)) == "copy"]
        ctx.require(ca, f"{m}: copy() result unpack not found")
        sv, dv = [e.id for e in ca[0].targets[0].elts]
        dest = strip_await(ca[0].value).args[1] if len(strip_await(ca[0].value).args) > 1 else None
        fcalls = [c for c in calls_in(fi.node) if call_name(c) == "_format_copyuid"]
        ctx.require(fcalls, f"{m}: _format_copyuid call not found")
        c = fcalls[0]
        def derives(arg, v):
            t = norm(arg)
            if isinstance(arg, ast.Name) and arg.id != v:
                for s in body_walk(fi.node):
                    if isinstance(s, ast.Assign) and norm(s.targets[0]) == arg.id:
                        return f" in {v} " in " " + norm(s.value) + " "
                return False
            return f" in {v} " in " " + t + " " or t == v
        if len(c.args) == 3 and dest is not None and norm(c.args[0]) == norm(dest) and derives(c.args[1], sv) and derives(c.args[2], dv):
            ctx.ok("R5.6", where(fi), "COPYUID(dest mailbox of copy(), source UIDs, destination UIDs) in the order copy() returned them")
        else:
            ctx.bad("R5.6", fi.module, fi.qual, norm(c, 140), "COPYUID arguments are not (destination mailbox, source UIDs, destination UIDs) as returned by copy()", c.lineno)


def r5_7(ctx):
    p = ctx.p
    fi = p.func("utils.sequence_set_to_list")
    ctx.analysed(fi)
    rets = [s for s in body_walk(fi.node) if isinstance(s, ast.Return)]
    okv = rets and all(any(isinstance(c.func, ast.Name) and c.func.id in ("set", "frozenset") or norm(c.func) == "dict.fromkeys" for c in calls_in(r.value)) for r in rets if r.value is not None)
    if okv:
        ctx.ok("R5.7", where(fi), "expansion result is de-duplicated (set) before it is returned")
    else:
        ctx.bad("R5.7", fi.module, fi.qual, norm(rets[0]) if rets else "return", "sequence_set_to_list no longer de-duplicates: `COPY 2:4,3` copies message 3 twice and MOVE expunges a UID twice", rets[0].lineno if rets else fi.node.lineno)


def run(ctx):
    ctx.do(r5_1)
    ctx.do(r5_1b)
    ctx.do(r5_2)
    ctx.do(r5_3)
    ctx.do(r5_3b)
    ctx.do(r5_5)
    ctx.do(r5_6)
    ctx.do(r5_7)
    from . import c04, c10
    ctx.do(c04.r4_9)
    from . import c16
    ctx.do(c16.r16_5)
    from . import c03, c15
    ctx.do(c03.r3_5)
    ctx.do(c15.r15_3)
    ctx.do(c15.r15_4)
    ctx.do(c15.r15_5)  # UID MOVE removes the UIDs it names
    ctx.do(c10.r10_4)
    ctx.do(c10.r10_4_units)
    from . import c01 as _c01
    ctx.do(_c01.r1_2)  # COPY / MOVE by message number address what the session meant
    ctx.do(c10.r10_3)  # a queued command's set is resolved again after its wait
    ctx.do(c10.r10_2)  # a removal by UID list (MOVE, POP3 QUIT) runs under a command that excludes the readers it renumbers
    from . import c13 as _c13g
    ctx.do(_c13g.r13_9)  # no message is born \Deleted: the next EXPUNGE would remove what no client flagged
    from . import c12 as _c12d
    ctx.do(_c12d.r12_8)  # the row of an emptied \Deleted sequence is really deleted: it does not come back after a restart
    ctx.do(_c12d.r12_5)
    for k, v in RAISE_AFTER_EFFECT_OK.items():
        ctx.trust(f"frozen raise-after-effect exemption: {k} - {v}")
