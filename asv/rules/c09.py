"""C09 - mailbox names cannot reach outside the user's mail directory.

 R9.1 every flow of a client-supplied mailbox name into a file-system sink passes a confinement sanitiser
 R9.2 LIST/LSUB touch no file-system sink with reference/pattern data
"""
from __future__ import annotations

import ast

from ..astutil import polarity_atoms, body_walk, call_name, call_recv, calls_in, names_in, norm, strip_await, walk_no_nested
from .. import flow
from .common import env_of, parmap, typer, where

PROP = "C09"
EXPLANATION = (
    "Taint rule with structural sanitiser recognition. Sources: the values the parser stores into mailbox_name, "
    "mailbox_src_name and mailbox_dst_name (all produced by _p_mailbox). Sinks: path construction or use with the name as "
    "a component - MH(path), MH.get_folder/add_folder/remove_folder, mbox_msg_path, maildir / x, os.path.join, "
    "aiofiles.os.symlink/rename/remove, shutil.rmtree. A flow is safe only if it passes a confinement sanitiser: a guard on "
    "the name that raises when a '/'-separated component is '..' AND rejects or strips absolute/doubled leading slashes, or "
    "a resolve-and-is_relative_to/commonpath check against the mail root (os.path.normpath alone is not one: it keeps "
    "leading '..' and '//'). The sanitiser is looked for at the source (_p_mailbox) and, failing that, in every function "
    "on the way that receives the name and contains a sink. Also checked: the three command attributes are assigned only "
    "from _p_mailbox(); handlers pass only those attributes, constants or names read from the mailboxes table to the "
    "name-taking operations; names enter the mailboxes table only from sanitised names or the directory walk (second-order "
    "flow); (R9.2) LIST/LSUB code reaches no file-system sink with pattern/reference data. This is the whole static content "
    "of the property; symlinks already inside the root are not name-driven and not decided."
    " A '..' guard in prefix form only counts when an unconditional normpath dominates it, a strip of leading '/' only when it is unconditional (modulo the `reference` mode parameter); (R9.3) the mail directory itself ('.') is refused."
)
RULE_TEXT = (
    "instances: each (function, name parameter) on a source-to-sink flow; each assignment of a command name attribute; "
    "each handler call passing a name; each sink call site; non-trivial = needed sanitiser recognition or flow resolution"
)
ASSUMPTIONS = ["mailbox names reach the user process only through the parsed command attributes", "not decided: symlinks that already exist inside the mail root"]
LEVEL_TEXT = (
    "Interprocedural taint (sources: parser name attributes; sinks: path construction/use) with a structural recogniser "
    "for confinement guards: holds for every name value because values are never inspected. This clause is the whole "
    "static content of the property."
)
LEVEL_NOTE = "Trusted: CPython ast; the sanitiser recogniser and the sink table in asv/rules/c09.py."
TECHNIQUE = "interprocedural taint with structural sanitiser recognition"
DESIGN_REF = "DESIGN.md section 3 / C09"

NAME_ATTRS = ("mailbox_name", "mailbox_src_name", "mailbox_dst_name")
SINK_CALLS = {"MH", "get_folder", "add_folder", "remove_folder", "mbox_msg_path", "rmtree", "symlink", "rename", "remove", "join", "Path", "folder_exists"}


def _mentions(e, var):
    return var in names_in(e)


def sanitises(fi, var: str) -> str | None:
    """Structural recogniser for a confinement guard on local/param `var` in `fi`.
    Returns a description or None."""
    aliases = {var}
    # simple aliases:  parts = var.split("/") ; v2 = var.strip...
    for n in body_walk(fi.node):
        if isinstance(n, ast.Assign) and len(n.targets) == 1 and isinstance(n.targets[0], ast.Name) and names_in(n.value) & aliases:
            aliases.add(n.targets[0].id)
    dotdot = False
    absolute = False
    resolved = False
    par = parmap(fi)
    params = {a.arg for a in fi.node.args.args + fi.node.args.kwonlyargs} - aliases - {"self", "cls"}

    def lift(c):
        """look through enclosing Ifs that test only other parameters (`if not reference:`): that mode switch is accepted,
        the other mode is reasoned about separately"""
        while True:
            up = par.get(c)
            if isinstance(up, ast.If) and not (names_in(up.test) - params) and c in up.body:
                # ... but it must be the mode in which file-system names are produced: the body runs when the mode parameter
                # (`reference`) is false
                if all(pos_ is False for a_, pos_ in polarity_atoms(up.test) if isinstance(a_, ast.Name)):
                    c = up
                    continue
            return c

    def same_list_before(a, b) -> bool:
        up = par.get(a)
        for fld in ("body", "orelse", "finalbody"):
            lst = getattr(up, fld, None)
            if isinstance(lst, list) and a in lst and b in lst:
                return lst.index(a) < lst.index(b)
        return False

    def dominating(cand, guard) -> bool:
        """cand is an earlier sibling of guard or of one of guard's ancestors (so it runs before guard on every path)"""
        c = lift(cand)
        g = guard
        while g is not None:
            if same_list_before(c, g):
                return True
            g = par.get(g)
        return False

    normalisers = [
        n for n in body_walk(fi.node)
        if isinstance(n, ast.Assign) and isinstance(strip_await(n.value), ast.Call) and call_name(strip_await(n.value)) == "normpath"
        and names_in(n.value) & aliases and any(isinstance(t, ast.Name) and t.id in aliases for t in n.targets)
    ]
    strips = []
    guards = []
    for n in body_walk(fi.node):
        if isinstance(n, ast.If) and any(isinstance(x, ast.Raise) for s in n.body for x in walk_no_nested(s)):
            t = n.test
            if not (names_in(t) & aliases):
                continue
            consts = [c.value for c in ast.walk(t) if isinstance(c, ast.Constant) and isinstance(c.value, str)]
            txt = norm(t, 400)
            # arm-exact: the raising arm must be the one where the name *does* contain the '..' (a negated guard refuses
            # every ordinary name and lets the climbing ones through)
            def _dd_positive(test):
                """The test is true whenever the name is '..' and whenever it starts with '../' (or, component-wise form,
                whenever a component is '..'): Kleene evaluation with exactly one of the '..'-atoms true at a time."""
                atoms = []
                for a_, _ in polarity_atoms(test):
                    cs = [c.value for c in ast.walk(a_) if isinstance(c, ast.Constant) and isinstance(c.value, str)]
                    if any(".." in c for c in cs) or "pardir" in norm(a_):
                        atoms.append(a_)
                if not atoms:
                    return False

                def ev(t_, true_atom):
                    if isinstance(t_, ast.UnaryOp) and isinstance(t_.op, ast.Not):
                        v = ev(t_.operand, true_atom)
                        return None if v is None else (not v)
                    if isinstance(t_, ast.BoolOp):
                        vs = [ev(v, true_atom) for v in t_.values]
                        if isinstance(t_.op, ast.And):
                            return False if any(v is False for v in vs) else (None if any(v is None for v in vs) else True)
                        return True if any(v is True for v in vs) else (None if any(v is None for v in vs) else False)
                    if any(t_ is a for a in atoms):
                        holds = t_ is true_atom  # the condition "name has that '..' shape" holds for this atom only
                        if isinstance(t_, ast.Compare) and len(t_.ops) == 1 and isinstance(t_.ops[0], (ast.NotEq, ast.NotIn)):
                            return not holds
                        return holds
                    return None

                return all(ev(test, a) is True for a in atoms)

            if (any(".." in c for c in consts) or "os.pardir" in txt or "pardir" in txt) and _dd_positive(t):
                componentwise = ".split(" in txt or ".parts" in txt
                # a prefix test (== '..' / startswith('../')) only confines a name that was normalised before, on every path
                if componentwise or any(dominating(a, n) for a in normalisers):
                    dotdot = True
                    guards.append(n)
            if "isabs(" in txt or "is_absolute(" in txt or any(c.startswith("/") and "startswith" in txt for c in consts) or ("startswith('/')" in txt):
                absolute = True
            if "is_relative_to(" in txt or "commonpath(" in txt:
                resolved = True
        if isinstance(n, ast.Assign) and names_in(n.value) & aliases:
            v = strip_await(n.value)
            if isinstance(v, ast.Call) and call_name(v) == "lstrip" and v.args and isinstance(v.args[0], ast.Constant) and v.args[0].value == "/":
                if any(isinstance(t, ast.Name) and t.id in aliases for t in n.targets):
                    strips.append(n)
            # the same strip under the mode switch, written as a conditional expression:
            #   name = x if reference else x.lstrip('/')
            if isinstance(v, ast.IfExp):
                t_ = v.test
                neg = isinstance(t_, ast.UnaryOp) and isinstance(t_.op, ast.Not)
                tn = t_.operand if neg else t_
                arm, other = (v.body, v.orelse) if neg else (v.orelse, v.body)
                if (
                    isinstance(tn, ast.Name) and tn.id in params
                    and isinstance(arm, ast.Call) and call_name(arm) == "lstrip" and arm.args and isinstance(arm.args[0], ast.Constant) and arm.args[0].value == "/"
                    and isinstance(call_recv(arm), ast.Name) and call_recv(arm).id in aliases
                    and isinstance(other, ast.Name) and other.id in aliases
                    and any(isinstance(t, ast.Name) and t.id in aliases for t in n.targets)
                ):
                    strips.append(n)
        if isinstance(n, ast.While) and "startswith('/')" in norm(n.test) and names_in(n.test) & aliases:
            absolute = True
    # the leading-'/' strip must run before the '..' guard on every path (else '/../x' passes the guard and is stripped after)
    # (after normpath an absolute name has no '..' left, so stripping later is fine too)
    if strips and guards and (any(dominating(s_, g) for s_ in strips for g in guards) or any(same_list_before(lift(a), lift(s_)) for a in normalisers for s_ in strips)):
        absolute = True
    if resolved:
        return "resolves against the root and tests is_relative_to/commonpath"
    if dotdot and absolute:
        return "rejects '..' components and absolute/doubled leading slashes"
    return None


def _sink_uses(p, fi, var):
    """Sink call sites in fi that use `var` (or a value derived from it) as a path component."""
    derived = {var}
    for _ in range(3):
        for n in body_walk(fi.node):
            if isinstance(n, ast.Assign) and names_in(n.value) & derived:
                for t in n.targets:
                    for x in ast.walk(t):
                        if isinstance(x, ast.Name):
                            derived.add(x.id)
            if isinstance(n, (ast.For, ast.AsyncFor)) and names_in(n.iter) & derived:
                for x in ast.walk(n.target):
                    if isinstance(x, ast.Name):
                        derived.add(x.id)
            if isinstance(n, ast.Call) and call_name(n) == "append" and n.args and names_in(n.args[0]) & derived and isinstance(call_recv(n), ast.Name):
                derived.add(call_recv(n).id)
    out = []
    for c in calls_in(fi.node):
        nm = call_name(c)
        if nm in SINK_CALLS:
            if nm == "join" and not norm(c.func).startswith("os.path"):
                continue
            if nm == "rename" and norm(c.func) in ("Mailbox.rename", "cls.rename"):
                continue
            if nm == "remove" and "os" not in norm(c.func):
                continue
            args = list(c.args) + [k.value for k in c.keywords]
            if any(names_in(a) & derived for a in args):
                out.append(c)
    for n in body_walk(fi.node):
        if isinstance(n, ast.BinOp) and isinstance(n.op, ast.Div) and names_in(n.right) & derived and "maildir" in norm(n.left):
            out.append(n)
    return out, derived


# functions that receive a mailbox name parameter and forward it
NAME_PARAMS = {
    "user_server.IMAPUserServer.get_mailbox": ["name"],
    "user_server.IMAPUserServer.folder_exists": ["name"],
    "mbox.Mailbox.__init__": ["name"],
    "mbox.Mailbox.create": ["name"],
    "mbox.Mailbox.delete": ["name"],
    "mbox.Mailbox.rename": ["old_name", "new_name"],
    "mbox._helper_rename_folder": ["new_name"],
    "mbox._helper_rename_inbox": ["new_name"],
    "mbox.Mailbox.get_actual_mtime": ["name"],
}


def r9_1(ctx):
    p = ctx.p
    pm = p.func("parse.IMAPClientCommand._p_mailbox")
    ctx.analysed(pm)
    # variable returned by _p_mailbox
    ret_vars = set()
    for s in body_walk(pm.node):
        if isinstance(s, ast.Return) and s.value is not None:
            ret_vars |= names_in(s.value) - {"os"}
    src_ok = None
    for v in sorted(ret_vars):
        d = sanitises(pm, v)
        if d:
            src_ok = f"_p_mailbox: `{v}` {d}"
    # (b) attributes assigned only from _p_mailbox()
    n_attr = 0
    for fi in p.funcs_in("parse"):
        for s in body_walk(fi.node):
            if isinstance(s, ast.Assign):
                for t in s.targets:
                    if isinstance(t, ast.Attribute) and t.attr in NAME_ATTRS and isinstance(t.value, ast.Name) and t.value.id == "self":
                        n_attr += 1
                        v = strip_await(s.value)
                        if isinstance(v, ast.Call) and call_name(v) == "_p_mailbox":
                            ctx.ok("R9.1", where(fi), f"self.{t.attr} = self._p_mailbox()", nontrivial=False)
                        else:
                            ctx.bad("R9.1", fi.module, fi.qual, norm(s), f"command attribute {t.attr} is filled from something other than _p_mailbox() (bypasses the name sanitiser)", s.lineno)
    ctx.floor("R9.1", n_attr, 6, "assignments of command name attributes")
    # (c) handlers pass only the name attributes / constants / db names to the name-taking operations
    n_calls = 0
    for fi in p.funcs_in("client") + p.funcs_in("pop3_client"):
        for c in calls_in(fi.node):
            nm = call_name(c)
            if nm in ("get_mailbox", "create", "delete", "rename") and (nm == "get_mailbox" or norm(call_recv(c) or ast.Name("")) == "Mailbox"):
                n_calls += 1
                ctx.analysed(fi)
                for a in c.args:
                    if isinstance(a, ast.Attribute) and a.attr in NAME_ATTRS and norm(a.value) == "cmd":
                        continue
                    if isinstance(a, ast.Constant):
                        continue
                    if norm(a) == "self.server" or (fi.name == "_compute_status_for_list" and isinstance(a, ast.Name) and a.id == fi.node.args.args[1].arg):
                        continue  # server handle; the name parameter of _compute_status_for_list comes from the mailboxes table (R9.2)
                    ctx.bad("R9.1", fi.module, fi.qual, norm(c, 100), f"a mailbox operation is called with `{norm(a)}`, which is not one of the sanitised command name attributes", c.lineno)
    ctx.floor("R9.1", n_calls, 12, "handler calls of name-taking operations")
    ctx.call_sites += n_calls

    if src_ok:
        ctx.ok("R9.1", where(pm), f"source sanitised: {src_ok}")
        # ... on *every* way out: each return of a non-constant name is dominated by the '..' guard
        g = ctx.cfg(pm)
        gtests = set()
        for n_ in g.nodes:
            if n_.kind == "test" and isinstance(n_.stmt, ast.If) and any(isinstance(x, ast.Raise) for st in n_.stmt.body for x in walk_no_nested(st)):
                consts = [c.value for c in ast.walk(n_.ast) if isinstance(c, ast.Constant) and isinstance(c.value, str)]
                if any(".." in c for c in consts) and sanitises(pm, next(iter(ret_vars), "")):
                    gtests.add(n_.id)
        for n_ in g.nodes:
            if n_.kind == "return" and n_.ast is not None and getattr(n_.ast, "value", None) is not None and not isinstance(n_.ast.value, ast.Constant):
                ctx.paths_explored += 1
                # a path on which the name is known to be empty carries nothing to confine
                def empty_edge(e):
                    t = g.nodes[e.src]
                    if t.kind != "test" or t.ast is None:
                        return False
                    a = t.ast
                    if isinstance(a, ast.Compare) and len(a.ops) == 1 and isinstance(a.comparators[0], ast.Constant) and a.comparators[0].value == "" and isinstance(a.left, ast.Name):
                        return (isinstance(a.ops[0], ast.NotEq) and e.label == "false") or (isinstance(a.ops[0], ast.Eq) and e.label == "true")
                    if isinstance(a, ast.UnaryOp) and isinstance(a.op, ast.Not) and isinstance(a.operand, ast.Name):
                        return e.label == "true"
                    if isinstance(a, ast.Name):
                        return e.label == "false"
                    return False

                seen = flow.reach(g, [g.entry], flow.NORMAL, avoid=lambda x: x in gtests, edge_ok=lambda e: not empty_edge(e))
                w = flow.path_to(g, seen, n_.id) if n_.id in seen else None
                if w is not None:
                    ctx.bad(
                        "R9.1", pm.module, pm.qual, f"{norm(n_.ast, 80)} not behind the '..' guard",
                        f"`{norm(n_.ast, 70)}` hands on a name on a path that never passes the confinement guard: such a name (e.g. "
                        "`INBOX/../../other`) reaches the file-system sinks unchecked",
                        n_.line, flow.fmt_path(g, w),
                    )
                else:
                    ctx.ok("R9.1", where(pm), f"{norm(n_.ast, 50)} @{n_.line} is dominated by the '..' guard")
    # the checked name must not be re-derived on its way to the sinks (a strip / replace / join after the check can re-create
    # a leading '..'); the two rebinding forms confirmed by hand are listed
    n_rb = 0
    for key, params in NAME_PARAMS.items():
        fi = p.func(key)
        for s_ in body_walk(fi.node):
            if isinstance(s_, (ast.Assign, ast.AugAssign)):
                ts = s_.targets if isinstance(s_, ast.Assign) else [s_.target]
                for t in ts:
                    if isinstance(t, ast.Name) and t.id in params:
                        n_rb += 1
                        v = s_.value if isinstance(s_, ast.Assign) else None
                        okv = False
                        if isinstance(v, ast.Constant) and v.value == "inbox":
                            okv = True  # the inbox constant
                        if isinstance(v, ast.IfExp) and norm(v.body) == f"{t.id}[1:]" and norm(v.orelse) == t.id and "'/'" in norm(v.test):
                            okv = True  # one leading '/' dropped (the namespace prefix): cannot create '..'
                        if isinstance(v, ast.Call) and call_name(v) == "lstrip" and v.args and isinstance(v.args[0], ast.Constant) and v.args[0].value == "/" and norm(call_recv(v)) == t.id:
                            okv = True
                        if v is not None and norm(v) == f"{t.id}[1:]":
                            # the same drop of one leading '/', written as a statement under a test that the name starts with '/'
                            par_ = parmap(fi)
                            cur_ = s_
                            while cur_ in par_:
                                cur_ = par_[cur_]
                                if isinstance(cur_, ast.If) and "'/'" in norm(cur_.test) and t.id in names_in(cur_.test):
                                    okv = True
                        if okv:
                            ctx.ok("R9.1", where(fi), f"{norm(s_, 60)}: rebinding that cannot re-create a '..' prefix", nontrivial=False)
                        elif sanitises(fi, t.id):
                            ctx.ok("R9.1", where(fi), f"{norm(s_, 60)}: re-derived, and re-checked in this function")
                        else:
                            ctx.bad(
                                "R9.1", fi.module, fi.qual, norm(s_, 90),
                                f"the mailbox name is re-derived after the parser checked it (`{norm(s_, 70)}`): the confinement guard saw another "
                                "string than the one that reaches the file system - e.g. \" ../other\" passes the guard as a folder called ' ..' and "
                                "is then trimmed to `../other`",
                                s_.lineno,
                            )
    n_flow = 0
    for key, params in NAME_PARAMS.items():
        fi = p.func(key)
        ctx.analysed(fi)
        for prm in params:
            ctx.require(prm in [a.arg for a in fi.node.args.args], f"{key}: parameter {prm} vanished", anchor=True)
            uses, derived = _sink_uses(p, fi, prm)
            if not uses:
                continue
            n_flow += 1
            if src_ok:
                ctx.ok("R9.1", where(fi), f"{prm} -> {len(uses)} fs sink(s): name sanitised at the parser")
                continue
            d = sanitises(fi, prm)
            if d:
                ctx.ok("R9.1", where(fi), f"{prm} -> {len(uses)} fs sink(s): {d} before use")
            else:
                u = uses[0]
                ctx.bad(
                    "R9.1", fi.module, fi.qual, f"{prm} -> {norm(u, 80)}",
                    f"client-supplied mailbox name `{prm}` reaches a file-system sink with no confinement guard anywhere on the "
                    "way (os.path.normpath keeps leading '..' and '//'): e.g. CREATE ../evil, DELETE ../other, RENAME a ../b, "
                    "SELECT //etc/x act outside the mail directory",
                    getattr(u, "lineno", fi.node.lineno),
                )
    ctx.floor("R9.1", n_flow, 6, "name parameter -> fs sink flows")
    # second-order: names inserted into the mailboxes table
    n_ins = 0
    for fi in p.functions.values():
        for c in calls_in(fi.node):
            if call_name(c) == "execute" and c.args and isinstance(c.args[0], ast.Constant) and isinstance(c.args[0].value, str):
                sql = c.args[0].value.lower()
                if ("insert into mailboxes" in sql) or ("update mailboxes set name" in sql):
                    n_ins += 1
                    ctx.analysed(fi)
                    if fi.key in ("mbox.Mailbox._restore_from_db", "mbox._helper_rename_folder._do_rename_folder"):
                        ctx.ok("R9.1", where(fi), "mailboxes.name written from self.name / the rename target (already on a checked flow)", nontrivial=False)
                    else:
                        ctx.bad("R9.1", fi.module, fi.qual, norm(c, 100), "a new writer of mailboxes.name: names read back from the table are trusted by LIST-STATUS", c.lineno)
    ctx.floor("R9.1", n_ins, 2, "writers of mailboxes.name")


def r9_2(ctx):
    p = ctx.p
    fns = [p.func(k) for k in ("mbox.Mailbox.list", "mbox.Mailbox._list_simple", "mbox.Mailbox._list_with_recursivematch", "mbox.Mailbox._mbox_pattern_to_re")]
    for fi in fns:
        ctx.analysed(fi)
        bad = [c for c in calls_in(fi.node) if call_name(c) in ("MH", "get_folder", "add_folder", "remove_folder", "mbox_msg_path", "rmtree", "symlink", "get_mailbox", "open", "listdir", "walk", "scandir", "exists") or (call_name(c) == "join" and norm(c.func).startswith("os.path"))]
        if bad:
            ctx.bad("R9.2", fi.module, fi.qual, norm(bad[0], 100), "LIST/LSUB code reaches a file-system operation with pattern/reference data", bad[0].lineno)
        else:
            ctx.ok("R9.2", where(fi), "no file-system sink in the LIST path (db query + regex only)")
    dl = p.func("client.Authenticated.do_list")
    ctx.analysed(dl)
    for c in calls_in(dl.node):
        if call_name(c) == "get_mailbox":
            ctx.bad("R9.2", dl.module, dl.qual, norm(c), "do_list opens a mailbox directly", c.lineno)
    cs = p.func("client.Authenticated._compute_status_for_list")
    par = [a.arg for a in cs.node.args.args]
    callers = [c for c in calls_in(dl.node) if call_name(c) == "_compute_status_for_list"]
    from .common import pm_of
    pdl = pm_of(p, dl)
    fed = pdl.find("for mbox_name, attributes, child_info in results:\n    ...")
    okn = fed is not None and callers and all(isinstance(c.args[0], ast.Name) and c.args[0].id == pdl.name("mbox_name") for c in callers)
    if okn:
        ctx.ok("R9.2", where(dl), "LIST-STATUS opens only names that came back from the mailboxes table")
    else:
        ctx.bad("R9.2", dl.module, dl.qual, "_compute_status_for_list(mbox_name, ...)", "LIST-STATUS is no longer fed with table names only", dl.node.lineno)
    # the regexp parameter is bound, never interpolated into SQL
    ls = p.func("mbox.Mailbox._list_simple")
    q = [c for c in calls_in(ls.node) if call_name(c) == "query"]
    if q and all(len(c.args) == 2 and norm(c.args[1]) == "(mbox_re,)" for c in q):
        ctx.ok("R9.2", where(ls), "pattern regex passed as a bound SQL parameter")
    else:
        ctx.bad("R9.2", ls.module, ls.qual, "server.db.query(query, (mbox_re,))", "pattern no longer passed as a bound parameter", ls.node.lineno)


def r9_3(ctx):
    """The mail directory itself ('.') is not addressable as a mailbox (DELETE . would rmtree the whole root)."""
    p = ctx.p
    pm = p.func("parse.IMAPClientCommand._p_mailbox")
    okv = False
    for n in body_walk(pm.node):
        if isinstance(n, ast.If) and any(isinstance(x, ast.Raise) for s in n.body for x in walk_no_nested(s)):
            for c, pos in polarity_atoms(n.test):
                if isinstance(c, ast.Compare) and len(c.ops) == 1 and isinstance(c.ops[0], (ast.Eq, ast.In, ast.NotEq, ast.NotIn)):
                    consts = [x.value for x in ast.walk(c) if isinstance(x, ast.Constant) and isinstance(x.value, str)]
                    affirm = isinstance(c.ops[0], (ast.Eq, ast.In))
                    if "." in consts and affirm == pos:
                        okv = True
    gm = p.func("user_server.IMAPUserServer.get_mailbox")
    for n in body_walk(gm.node):
        if isinstance(n, ast.If) and any(isinstance(x, ast.Raise) for s in n.body for x in walk_no_nested(s)) and "'.'" in norm(n.test):
            okv = True
    if okv:
        ctx.ok("R9.3", where(pm), "the name '.' (the mail directory itself) is refused")
    else:
        ctx.bad("R9.3", pm.module, pm.qual, "name == '.'", "the mail directory itself ('.', './.', 'a/..') is accepted as a mailbox name: SELECT/DELETE/CREATE then operate on the root (`DELETE .` removes every mailbox and the database)", pm.node.lineno)


def run(ctx):
    ctx.do(r9_3)
    ctx.do(r9_1)
    ctx.do(r9_2)
    ctx.trust("sink table: " + ", ".join(sorted(SINK_CALLS)) + ", `maildir / x`")
    ctx.trust("sanitiser recogniser: guard raising on '..' component AND absolute/leading-slash handling, or is_relative_to/commonpath")
