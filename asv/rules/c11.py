"""C11 - a crash loses nothing acknowledged and never rebinds a UID.

Only the ordering clauses are static:
 R11.1 commit before acknowledge (each persistent operation ends in a commit; commit_to_db ends in the commit)
 R11.2 the unsolicited FETCH built during reconcile carries no UID
 R11.3 migrations are atomic with their version row, or idempotent
 R11.4 a new mailbox row and its sequence rows are created in one transaction
 R11.5 reconcile never lowers next_uid (shared with C02 R2.1/R2.4)
"""
from __future__ import annotations

import ast

from .. import flow
from ..astutil import body_walk, call_name, call_recv, calls_in, kwarg, norm, strip_await, walk_no_nested
from .common import parmap, where

PROP = "C11"
EXPLANATION = (
    "A crash is a process kill; what is static is the order of durable effects relative to the acknowledgement. "
    "(R11.1) the tagged OK is pushed by command() only after do_* returned; every mailbox operation with a persistent "
    "effect (append, expunge, store, the flag tail of fetch, copy's destination resync, create, delete, rename, "
    "subscribe/unsubscribe, pack, reconcile) reaches a commit (commit_to_db, db.commit(), execute(commit=True)) after "
    "its last in-memory/file mutation on every normal path, and inside commit_to_db, update_mtime_in_db and "
    "get_next_uid_vv every database write is followed by a commit on every normal path; (R11.2) the unsolicited FETCH "
    "lines produced by the reconcile use the non-UID form; (R11.3) in apply_migrations an explicit BEGIN precedes each "
    "migration and no commit separates it from the insert of its version row, or every DDL statement of every migration "
    "is idempotent (IF NOT EXISTS / guarded ALTER); (R11.4) between INSERT INTO mailboxes and the last INSERT INTO "
    "sequences of the create arm there is no commit and the arm ends in one; (R11.5) see C02. "
    "Decides these ordering clauses, not the outcome of a restart after a kill at each point."
)
RULE_TEXT = (
    "instances: each persistent operation (mutation node -> exit), each db write inside the commit helpers, each "
    "migration, the create arm; non-trivial = needed a CFG must-pass-through query or SQL inspection"
)
ASSUMPTIONS = [
    "Python's sqlite3/aiosqlite autocommits DDL outside an explicit transaction (legacy isolation level)",
    "file data handed to the OS survives a process kill; fsync-level durability is not decided",
    "not decided: enumeration of kill points and restart outcomes",
]
LEVEL_TEXT = (
    "Static must-pass-through(commit) rules over every persistent operation and over the commit helpers, plus SQL "
    "inspection of the migration and create paths: decides the ordering clauses that make 'acknowledged implies "
    "committed' and 'restart always succeeds' possible. Kill-point enumeration is a different family and not claimed."
)
LEVEL_NOTE = "Structural ordering clauses only. Trusted: CPython ast; sqlite3 DDL autocommit fact; table of persistent operations in asv/rules/c11.py."
TECHNIQUE = "CFG must-pass-through(commit) + SQL constant inspection"
DESIGN_REF = "DESIGN.md section 3 / C11"


def _commit_node(n, extra=()):
    a = n.ast
    if a is None or n.kind in ("with_exit", "finally", "handler", "dispatch", "join", "with_enter"):
        return False
    for c in calls_in(a):
        nm = call_name(c)
        if nm in ("commit_to_db", "commit") or nm in extra:
            return True
        if nm == "execute" and any(k.arg == "commit" and isinstance(k.value, ast.Constant) and k.value.value is True for k in c.keywords):
            return True
    return False


def _mutation_node(n, obj_hint=None):
    """In-memory / file mutation of persistent mailbox state."""
    a = n.ast
    if a is None or n.kind not in ("stmt",):
        return None
    for c in calls_in(a):
        nm = call_name(c)
        r = call_recv(c)
        if nm in ("add", "discard", "update", "remove") and r is not None and ("sequences" in norm(r) or norm(r) in ("seqs",)):
            return "flag change"
        if nm in ("add", "remove", "discard") and r is not None and norm(r).endswith(".attributes"):
            return "attribute change"
        if nm in ("aremove", "aclear"):
            return "message removal"
        if nm == "add" and r is not None and norm(r).endswith(".mailbox"):
            return "message added"
        if nm in ("_help_add_flag", "_help_remove_flag", "_help_replace_flags"):
            return "flag change"
        if nm in ("extend", "append") and r is not None and (norm(r).endswith(".uids") or norm(r).endswith(".msg_keys")):
            return "uid allocation"
        if nm == "pack":
            return "folder pack"
    if isinstance(a, (ast.Assign, ast.AugAssign, ast.Delete)):
        tg = a.targets if isinstance(a, (ast.Assign, ast.Delete)) else [a.target]
        for t in tg:
            for x in ast.walk(t):
                if isinstance(x, ast.Attribute) and x.attr in ("uids", "msg_keys", "next_uid", "uid_vv", "subscribed", "sequences") and isinstance(x.ctx, (ast.Store, ast.Del)):
                    return f"store to {x.attr}"
                if isinstance(x, ast.Subscript) and isinstance(x.value, ast.Attribute) and x.value.attr in ("uids", "msg_keys") and isinstance(x.ctx, (ast.Store, ast.Del)):
                    return f"store to {x.value.attr}"
    return None


OPS = [
    ("mbox.Mailbox.append", ("check_new_msgs_and_flags",), "append: message added + flags; the forced resync commits"),
    ("mbox.Mailbox.expunge", (), "expunge"),
    ("mbox.Mailbox.store", (), "store"),
    ("mbox.Mailbox.fetch", (), "flag tail of a non-PEEK fetch"),
    ("mbox.Mailbox.copy", ("check_new_msgs_and_flags",), "copy: destination resync commits"),
    ("mbox.Mailbox.delete", (), "delete"),
    ("mbox.Mailbox.create", (), "create"),
    ("mbox._helper_rename_inbox", (), "rename inbox"),
    ("mbox.Mailbox._pack_if_necessary", (), "pack"),
    ("mbox.Mailbox.check_new_msgs_and_flags", ("update_mtime_in_db",), "reconcile"),
    ("client.Authenticated.do_subscribe", (), "subscribe"),
    ("client.Authenticated.do_unsubscribe", (), "unsubscribe"),
]
MUTATION_EXEMPT = {
    ("mbox.Mailbox.__init__", "*"): "constructor",
}


def r11_1(ctx):
    p = ctx.p
    for key, extra, what in OPS:
        fi = p.func(key)
        g = ctx.cfg(fi)
        commits = {n.id for n in g.nodes if _commit_node(n, extra)}
        muts = [(n.id, _mutation_node(n)) for n in g.nodes]
        muts = [(i, m) for i, m in muts if m]
        if not muts:
            ctx.bad("R11.1", fi.module, fi.qual, what, f"expected persistent mutations in {fi.qual} were not found (rule blind)", fi.node.lineno)
            continue
        if not commits:
            ctx.bad("R11.1", fi.module, fi.qual, what, f"{fi.qual} changes persistent state but never commits", fi.node.lineno)
            continue
        bad = None
        for i, m in muts:
            w = flow.escapes_without(g, i, lambda n: n in commits, [g.exit])
            ctx.paths_explored += 1
            if w:
                bad = (i, m, w)
                break
        if bad:
            i, m, w = bad
            ctx.bad(
                "R11.1", fi.module, fi.qual, f"{m}: {norm(g.nodes[i].ast, 80)}",
                f"{what}: after this {m} the function can return without a database commit; the tagged OK follows, so an "
                "acknowledged change is lost by a kill before the next commit",
                g.nodes[i].line, flow.fmt_path(g, w),
            )
        else:
            ctx.ok("R11.1", where(fi), f"{what}: {len(muts)} mutation node(s), each followed by a commit on every normal path")
    # commit helpers: every db write followed by commit
    for key in ("mbox.Mailbox.commit_to_db", "mbox.Mailbox.update_mtime_in_db", "user_server.IMAPUserServer.get_next_uid_vv", "user_server.IMAPUserServer._remove_stale_mailbox"):
        fi = p.func(key)
        g = ctx.cfg(fi)
        commits = {n.id for n in g.nodes if n.ast is not None and n.kind in ("stmt", "return") and any(
            call_name(c) == "commit" or (call_name(c) == "execute" and any(k.arg == "commit" and isinstance(k.value, ast.Constant) and k.value.value is True for k in c.keywords))
            for c in calls_in(n.ast))}
        writes = [n.id for n in g.nodes if n.ast is not None and n.kind in ("stmt", "return") and any(
            call_name(c) == "execute" and not any(k.arg == "commit" and isinstance(k.value, ast.Constant) and k.value.value is True for k in c.keywords)
            for c in calls_in(n.ast))]
        if not commits:
            ctx.bad("R11.1", fi.module, fi.qual, "db.commit()", f"{fi.qual} writes to the database and never commits", fi.node.lineno)
            continue
        bad = None
        for wn in writes:
            w = flow.escapes_without(g, wn, lambda n: n in commits, [g.exit])
            ctx.paths_explored += 1
            if w:
                bad = (wn, w)
                break
        if bad:
            wn, w = bad
            ctx.bad(
                "R11.1", fi.module, fi.qual, norm(g.nodes[wn].ast, 90),
                f"{fi.qual} can return with this statement still in an open transaction (no commit on the path): callers "
                "treat the state as durable and acknowledge the command; a kill before the next commit rolls it back",
                g.nodes[wn].line, flow.fmt_path(g, w),
            )
        else:
            ctx.ok("R11.1", where(fi), f"{len(writes)} uncommitted write statement(s), each followed by a commit on every normal path")
    # command(): the OK is pushed after the handler returned
    cm = p.func("client.BaseClientHandler.command")
    g = ctx.cfg(cm)
    disp = [n.id for n in g.nodes if n.ast is not None and n.kind == "stmt" and "getattr(self, f'do_" in norm(n.ast, 400)]
    okp = [n.id for n in g.nodes if n.ast is not None and n.kind == "stmt" and " OK " in norm(n.ast, 300) and "push" not in norm(n.ast, 300)]
    ctx.require(disp, "command(): handler dispatch not found")
    ok_nodes = [n.id for n in g.nodes if n.ast is not None and n.kind == "stmt" and isinstance(n.ast, ast.Assign) and " OK " in norm(n.ast.value, 300)]
    dom_bad = False
    for o in ok_nodes:
        w = flow.dominated_by(g, o, lambda n: n in disp, flow.ALL)
        if w:
            dom_bad = True
    if ok_nodes and not dom_bad:
        ctx.ok("R11.1", where(cm), "the tagged OK is built only after the handler call returned")
    else:
        ctx.bad("R11.1", cm.module, cm.qual, "tagged OK", "a tagged OK can be produced without the handler having run to completion", cm.node.lineno)


def r11_2(ctx):
    p = ctx.p
    fi = p.func("mbox.Mailbox.check_new_msgs_and_flags")
    ctx.analysed(fi)
    from .common import pm_of

    # (the matcher compares canonical forms: `fetch, _ = f(key); xs.append(fetch)` is `xs.append(f(key)[0])`)
    okv = any(pm_of(p, fi).has(x) for x in (
        "fetch, _ = self._generate_fetch_msg_for(key)\nnotifications.append(fetch)",
        "fetch, _ = self._generate_fetch_msg_for(key, publish_uid=False)\nnotifications.append(fetch)",
        "fetch, _ = self._generate_fetch_msg_for(key, False)\nnotifications.append(fetch)",
    ))
    gen = [c for c in calls_in(fi.node) if call_name(c) == "_generate_fetch_msg_for"]
    ctx.floor("R11.2", len(gen), 1, "FETCH lines generated by the reconcile")
    if len(gen) != 1:
        okv = False
    for s in body_walk(fi.node):
        if isinstance(s, ast.Assign) and isinstance(s.targets[0], ast.Tuple) and isinstance(s.value, ast.Call) and call_name(s.value) == "_generate_fetch_msg_for":
            first = s.targets[0].elts[0]
            pu = kwarg(s.value, "publish_uid")
            if isinstance(first, ast.Name) and (pu is None or (isinstance(pu, ast.Constant) and pu.value is False)):
                # and the first component is what gets appended
                if any(isinstance(c, ast.Call) and call_name(c) == "append" and c.args and norm(c.args[0]) == first.id for c in calls_in(fi.node)):
                    okv = True
    if okv:
        ctx.ok("R11.2", where(fi), "unsolicited FETCH of new messages uses the non-UID form (first component, publish_uid off)")
    else:
        ctx.bad("R11.2", fi.module, fi.qual, "fetch, _ = self._generate_fetch_msg_for(key)", "the reconcile's unsolicited FETCH may reveal a UID before it is committed", fi.node.lineno)


def r11_3(ctx):
    p = ctx.p
    am = p.func("db.Database.apply_migrations")
    ctx.analysed(am)
    loops = [n for n in body_walk(am.node) if isinstance(n, (ast.For, ast.AsyncFor)) and "MIGRATIONS" in norm(n.iter)]
    ctx.require(loops, "apply_migrations: loop over MIGRATIONS not found")
    lp = loops[0]
    events = []
    for s in lp.body:
        for c in calls_in(s):
            nm = call_name(c)
            txt = norm(c, 300).lower()
            if nm == "execute" and c.args and isinstance(c.args[0], ast.Constant) and str(c.args[0].value).strip().lower().startswith("begin"):
                events.append((c.lineno, "BEGIN"))
            elif isinstance(c.func, ast.Name) and c.func.id == lp.target.elts[1].id if isinstance(lp.target, ast.Tuple) else False:
                events.append((c.lineno, "MIGRATE"))
            elif nm == "execute" and "insert into versions" in txt:
                events.append((c.lineno, "VERSION" + ("+COMMIT" if "commit=true" in txt else "")))
            elif nm in ("commit",):
                events.append((c.lineno, "COMMIT"))
            elif nm == "rollback":
                events.append((c.lineno, "ROLLBACK"))
    seq = [e[1] for e in sorted(events)]
    atomic = False
    if "BEGIN" in seq and "MIGRATE" in seq:
        bi, mi = seq.index("BEGIN"), seq.index("MIGRATE")
        vi = next((i for i, x in enumerate(seq) if x.startswith("VERSION")), None)
        if vi is not None and bi < mi < vi and "COMMIT" not in seq[mi:vi]:
            atomic = True
    # version bookkeeping: resume after the last recorded version, record each migration under its own index
    from .common import pm_of
    pma = pm_of(p, am)
    book = [
        ("version = 0", "a database without version rows starts at migration 0"),
        ("row = await self.fetchone('SELECT version FROM versions ORDER BY version DESC LIMIT 1')", "the highest recorded version is read"),
        ("if row:\n    version = int(row[0]) + 1", "migrations resume right after the highest recorded version"),
        ("for idx, migration in enumerate(MIGRATIONS[version:], start=version):\n    ...", "the remaining migrations run in order, numbered by their position in MIGRATIONS"),
        ("await self.conn.execute('insert into versions (version) values (?)', str(idx))", "each migration is recorded under its own number"),
    ]
    for pat, what in book:
        if pma.has(pat):
            ctx.ok("R11.3", where(am), what)
        else:
            ctx.bad("R11.3", am.module, am.qual, what, f"migration bookkeeping lost: {what} - a restart re-runs an applied migration (start-up fails) or skips one that was never applied", am.node.lineno)
    # idempotent alternative
    mig = p.module_constant("db", "MIGRATIONS")
    names = [e.id for e in mig.elts] if isinstance(mig, ast.List) else []
    ctx.floor("R11.3", len(names), 5, "registered migrations")
    non_idem = []
    for nm in sorted(set(names)):
        fi = p.func(f"db.{nm}")
        ctx.analysed(fi)
        for c in calls_in(fi.node):
            if call_name(c) == "execute" and c.args and isinstance(c.args[0], ast.Constant):
                sql = " ".join(str(c.args[0].value).lower().split())
                if sql.startswith("create table") and "if not exists" not in sql:
                    non_idem.append((nm, sql[:50]))
                elif sql.startswith("create") and "index" in sql and "if not exists" not in sql:
                    non_idem.append((nm, sql[:50]))
                elif sql.startswith("alter table"):
                    from .c08 import _in_try_catching
                    if not _in_try_catching(c, fi, {"OperationalError"}):
                        non_idem.append((nm, sql[:50]))
    # the explicit transaction only holds if no migration ends it from the inside: executescript() issues a COMMIT before
    # it runs its statements (sqlite3 / aiosqlite), and so do commit() and a literal COMMIT / END / BEGIN
    def _ends_txn(c):
        nm = call_name(c)
        if nm in ("executescript", "commit"):
            return nm + "()"
        if nm == "execute" and c.args and isinstance(c.args[0], ast.Constant) and str(c.args[0].value).strip().lower().split(" ")[0].rstrip(";") in ("commit", "end", "begin"):
            return f"execute({str(c.args[0].value).strip()[:20]!r})"
        if nm == "execute" and any(k.arg == "commit" and isinstance(k.value, ast.Constant) and k.value.value is True for k in c.keywords):
            return "execute(..., commit=True)"
        return None

    probe = ast.parse("async def f(c):\n    await c.executescript('create table t (x)')").body[0]
    ctx.require(any(_ends_txn(c) for c in calls_in(probe)), "R11.3 self-test: the executescript matcher does not fire on its positive example", anchor=True)
    breakers = []
    for nm in sorted(set(names)):
        fi = p.func(f"db.{nm}")
        for c in calls_in(fi.node):
            why = _ends_txn(c)
            if why:
                breakers.append((fi, c, why))
    if atomic and breakers:
        fi, c, why = breakers[0]
        ctx.bad("R11.3", fi.module, fi.qual, why, f"migration `{fi.name}` ends the transaction apply_migrations opened for it ({why} commits what is pending and runs the rest in autocommit): its DDL becomes durable before its version row, and a kill in between makes every later start re-run it and fail", c.lineno)
        atomic = False
        non_idem = non_idem or [(fi.name, why)]
    elif atomic:
        ctx.ok("R11.3", where(am), f"none of the {len(set(names))} migrations commits or runs a script inside the transaction opened for it")
    if atomic:
        ctx.ok("R11.3", where(am), "each migration runs inside an explicit transaction together with its version row: " + " -> ".join(seq))
        # the transaction is closed on both outcomes: COMMIT after the version row, ROLLBACK in a handler that re-raises
        vi = next(i for i, x in enumerate(seq) if x.startswith("VERSION"))
        committed = "COMMIT" in seq[vi + 1:] or seq[vi].endswith("+COMMIT")
        rolled = any(isinstance(h, ast.ExceptHandler) and any(call_name(c) == "rollback" for st in h.body for c in calls_in(st)) and any(isinstance(x, ast.Raise) for st in h.body for x in ast.walk(st)) for h in ast.walk(lp))
        if committed and rolled:
            ctx.ok("R11.3", where(am), "the migration's transaction is committed after its version row and rolled back (and the error re-raised) on failure")
        else:
            ctx.bad("R11.3", am.module, am.qual, "BEGIN ... commit() / except: rollback(); raise", "the explicit transaction around a migration is not closed on every outcome (" + ("no commit after the version row" if not committed else "no rollback + re-raise on failure") + "): the next BEGIN fails inside the open transaction, or a failed migration leaves its partial DDL pending for whoever commits next", lp.lineno)
    elif not non_idem:
        ctx.ok("R11.3", where(am), "every DDL statement of every migration is idempotent")
    else:
        ctx.bad(
            "R11.3", am.module, am.qual, "migration(self.conn) ... insert into versions",
            f"DDL of a migration is autocommitted and its version row is inserted only afterwards ({' -> '.join(seq)}); "
            f"{len(non_idem)} non-idempotent statement(s) (e.g. {non_idem[0][0]}: `{non_idem[0][1]}...`): a kill in between makes "
            "every later start re-run the migration and fail ('table ... already exists' / 'duplicate column name')",
            lp.lineno,
        )


def r11_4(ctx):
    p = ctx.p
    fi = p.func("mbox.Mailbox._restore_from_db")
    g = ctx.cfg(fi)
    ins_mb = [n.id for n in g.nodes if n.ast is not None and n.kind == "stmt" and "insert into mailboxes" in norm(n.ast, 400).lower()]
    ins_sq = [n.id for n in g.nodes if n.ast is not None and n.kind == "stmt" and "insert into sequences" in norm(n.ast, 400).lower()]
    ctx.require(ins_mb and ins_sq, "_restore_from_db: INSERT statements of the create arm not found")
    commits = {n.id for n in g.nodes if n.ast is not None and n.kind in ("stmt", "return") and any(call_name(c) in ("commit", "commit_to_db", "get_next_uid_vv") or (call_name(c) == "execute" and kwarg(c, "commit") is not None) for c in calls_in(n.ast))}
    # no commit reachable between the two inserts
    seen = flow.reach(g, ins_mb, flow.NORMAL)
    ctx.paths_explored += len(seen)
    between = []
    for c in commits:
        if c in seen and c not in ins_mb:
            after = flow.reach(g, [c], flow.NORMAL)
            if any(q in after and q != c for q in ins_sq):
                between.append(c)
    if between:
        ctx.bad("R11.4", fi.module, fi.qual, norm(g.nodes[between[0]].ast, 80), "a commit separates the new mailboxes row from its sequences rows: a kill in between leaves a mailbox row without flags (all messages lose their flags on restart)", g.nodes[between[0]].line)
    else:
        ctx.ok("R11.4", where(fi), "no commit between INSERT INTO mailboxes and the sequence rows")
    w = flow.escapes_without(g, ins_mb[0], lambda n: n in commits, [g.exit])
    ctx.paths_explored += 1
    if w:
        ctx.bad("R11.4", fi.module, fi.qual, "create arm commit", "the create arm can return without committing the new rows", g.nodes[ins_mb[0]].line, flow.fmt_path(g, w))
    else:
        ctx.ok("R11.4", where(fi), "create arm ends in a commit")


def r11_5(ctx):
    """Moving a message between folders is add-then-remove: at every instant the message file exists in at least one of the two
    folders, so a kill loses nothing (at worst it leaves a duplicate).  RENAME INBOX moves every message of the inbox this
    way; inside one iteration of its loop the removal from the inbox comes only after the add to the new mailbox."""
    p = ctx.p
    fi = p.func("mbox._helper_rename_inbox")
    g = ctx.cfg(fi)
    loops = [l for l in body_walk(fi.node) if isinstance(l, (ast.For, ast.AsyncFor)) and any(call_name(c) == "remove" for c in calls_in(l))]
    ctx.require(loops, "_helper_rename_inbox: the loop that removes the moved messages from the inbox not found")
    lp = loops[0]
    adds = {n.id for n in g.nodes if n.ast is not None and n.kind == "stmt" and any(call_name(c) == "add" and norm(call_recv(c)).endswith(".mailbox") and not norm(call_recv(c)).startswith("inbox") for c in calls_in(n.ast))}
    rems = [n.id for n in g.nodes if n.ast is not None and n.kind == "stmt" and any(call_name(c) in ("remove", "aremove", "discard", "__delitem__") and norm(call_recv(c)) == "inbox.mailbox" for c in calls_in(n.ast))]
    head = [n.id for n in g.nodes if n.kind == "iter" and n.ast is lp.iter]
    ctx.require(adds and rems and head, "_helper_rename_inbox: add to the new mailbox / remove from the inbox / loop head not found")
    bad = None
    for r in rems:
        w = flow.escapes_without(g, head[0], lambda n: n in adds, [r])
        ctx.paths_explored += 1
        if w is not None:
            bad = (r, w)
    if bad:
        ctx.bad("R11.5", fi.module, fi.qual, "inbox.mailbox.remove(key) before new_mbox.mailbox.add(msg)", "RENAME INBOX can remove a message from the inbox before it has been added to the new mailbox: a kill in between leaves the (acknowledged) message in neither folder", g.nodes[bad[0]].line, flow.fmt_path(g, bad[1]) if isinstance(bad[1], list) else None)
    else:
        ctx.ok("R11.5", where(fi), "RENAME INBOX: each message is added to the new mailbox before it is removed from the inbox")


RESET_FIELDS = ("self.msg_keys", "self.uids", "self.num_msgs", "self.num_recent", "self.sequences", "self.mtime")


def r11_6(ctx):
    """Recovery after a kill.  When the resync finds a folder that no longer fits what the database remembers (fewer files than
    known keys; key and UID lists of different lengths) it treats the mailbox as new: *all* per-message state is dropped
    together - keys, UIDs, counts and the flag sets, which are indexed by those keys.  A reset that keeps the flag sets leaves
    keys of vanished messages in them: they are written back to .mh_sequences and the database, EXPUNGE trips over them, and
    the next message that re-uses such a key is born with the dead message's flags (\\Deleted included).  The two reset blocks
    are siblings: they assign the same fields."""
    p = ctx.p
    fi = p.func("mbox.Mailbox.check_new_msgs_and_flags")
    ctx.analysed(fi)
    blocks = []
    for n in body_walk(fi.node):
        for fld in ("body", "orelse"):
            lst = getattr(n, fld, None)
            if isinstance(lst, list) and any(isinstance(s, ast.Assign) and norm(s.targets[0]) == "self.uids" and isinstance(s.value, ast.List) and not s.value.elts for s in lst):
                blocks.append(lst)
    ctx.floor("R11.6", len(blocks), 2, "`treat as a new mailbox` reset blocks in the resync")
    for lst in blocks:
        got = {norm(t) for s in lst if isinstance(s, ast.Assign) for t in s.targets}
        # a reset moved into a helper that was folded back by asv/inline.py is seen here as its statements
        missing = [f for f in RESET_FIELDS if f not in got]
        if missing:
            ctx.bad("R11.6", fi.module, fi.qual, f"reset block without {missing[0]}", f"a `treat as a new mailbox` reset drops the key and UID lists but keeps `{missing[0]}`: state indexed by the dropped keys survives the recovery (flag sets keep keys of messages that no longer exist; the next message that re-uses the key inherits them)", lst[0].lineno)
        else:
            seqs = [s for s in lst if isinstance(s, ast.Assign) and norm(s.targets[0]) == "self.sequences"]
            fresh = seqs and isinstance(seqs[0].value, ast.Call) and call_name(seqs[0].value) in ("defaultdict", "dict") or (seqs and isinstance(seqs[0].value, ast.Dict) and not seqs[0].value.keys)
            if fresh:
                ctx.ok("R11.6", where(fi), f"reset block @{lst[0].lineno} drops keys, UIDs, counts and flag sets together")
            else:
                ctx.bad("R11.6", fi.module, fi.qual, norm(seqs[0]), "the reset assigns the flag sets from something other than a fresh empty map", seqs[0].lineno)


def r11_8(ctx):
    """A pack renumbers every file of the folder and only afterwards commits the new keys.  A kill in between leaves the
    database with keys that name other files, or none: the count is right, so "the folder has shrunk" does not fire, and every
    UID is paired with another message (or cannot be fetched).  The recovery test therefore also asks whether every key the
    mailbox *knows* is still in the folder - not only whether there are fewer files than before."""
    p = ctx.p
    fi = p.func("mbox.Mailbox.check_new_msgs_and_flags")
    ctx.analysed(fi)
    par = parmap(fi)
    guards = []
    for n in body_walk(fi.node):
        if isinstance(n, ast.If) and any(isinstance(s_, ast.Assign) and norm(s_.targets[0]) == "self.uids" and isinstance(s_.value, ast.List) and not s_.value.elts for s_ in n.body):
            guards.append(n)
    ctx.require(guards, "check_new_msgs_and_flags: guard of the `treat as a new mailbox` reset not found")

    from .common import pm_of

    def _knows(e) -> bool:
        # (the folder's key list is a local: matched modulo renaming)
        pats = (
            "set(self.msg_keys).issubset(msg_keys)", "set(self.msg_keys) <= set(msg_keys)", "set(self.msg_keys) - set(msg_keys)",
            "set(msg_keys).issuperset(self.msg_keys)", "set(msg_keys) >= set(self.msg_keys)", "set(self.msg_keys).difference(msg_keys)",
            "all((k in msg_keys for k in self.msg_keys))", "any((k not in msg_keys for k in self.msg_keys))",
        )
        return any(pm_of(p, fi).find_all(x, scope=e) for x in pats)

    hit = [g_ for g_ in guards if _knows(g_.test)]
    if hit:
        ctx.ok("R11.8", where(fi), "the recovery test asks whether every known message key is still in the folder (a kill between pack and commit is recognised)")
    else:
        ctx.bad("R11.8", fi.module, fi.qual, f"if {norm(guards[0].test, 70)}: <reset>", "the resync recognises a folder that no longer fits the database only by its size: after a kill between MH.pack() and the commit of the renumbered keys the count is unchanged, the stored keys name other files (or none), and every UID is handed to another message / cannot be fetched under an unchanged UIDVALIDITY", guards[0].lineno)


def r11_7(ctx):
    """Rows that are found *through* another table are deleted before the rows they are found through: `DELETE FROM sequences
    WHERE mailbox_id IN (SELECT id FROM mailboxes WHERE name=?)` after `DELETE FROM mailboxes WHERE name=?` finds nothing, the
    flag rows stay as orphans, and the next mailbox that gets the same row id inherits them (or its first commit fails on the
    unique index)."""
    import re as _re

    p = ctx.p
    n = 0
    for fi in list(p.funcs_in("user_server")) + list(p.funcs_in("mbox")) + list(p.funcs_in("db")):
        ex = []
        for c in calls_in(fi.node):
            if call_name(c) == "execute" and c.args:
                sql = c.args[0]
                txt = " ".join(str(sql.value).split()).lower() if isinstance(sql, ast.Constant) and isinstance(sql.value, str) else None
                if txt:
                    ex.append((c, txt))
        dels = [(c, t, _re.match(r"delete from (\w+)", t).group(1)) for c, t in ex if _re.match(r"delete from (\w+)", t)]
        for c, t, table in dels:
            sub_tables = set(_re.findall(r"\(\s*select .*? from (\w+)", t))
            for other in sub_tables - {table}:
                n += 1
                ctx.analysed(fi)
                g = ctx.cfg(fi)
                def _node_of(call):
                    return [x.id for x in g.nodes if x.ast is not None and x.kind == "stmt" and any(y is call for y in ast.walk(x.ast))]

                me = _node_of(c)
                ctx.require(me, f"{fi.qual}: CFG node of the DELETE not found")
                earlier = [c2 for c2, t2, tb2 in dels if tb2 == other and c2 is not c and any(me[0] in flow.reach(g, [y], flow.NORMAL) and y != me[0] for y in _node_of(c2))]
                if earlier:
                    ctx.bad("R11.7", fi.module, fi.qual, f"DELETE FROM {other} ... before DELETE FROM {table} ... (SELECT ... FROM {other})", f"the rows of `{table}` are looked up through `{other}` after the `{other}` row has been deleted: the sub-select finds nothing, the `{table}` rows stay behind as orphans and are inherited by the next row that re-uses the id", c.lineno)
                else:
                    ctx.ok("R11.7", where(fi), f"`{table}` rows found through `{other}` are deleted while the `{other}` row still exists")
    ctx.floor("R11.7", n, 1, "DELETEs that select their rows through another table")


def r11_9(ctx):
    """Rows written before the `msg_keys` column existed carry UIDs but no keys.  The restore pairs the stored UIDs with the
    *first* len(uids) message files of the folder - UIDs were handed out in key order, anything the old server had not seen
    yet lies behind them and is picked up as new by the resync.  Taking the last len(uids) files (or all of them) re-binds
    every revealed UID to another message under the same UIDVALIDITY whenever something was delivered while the old server
    was down."""
    from .common import pm_of

    p = ctx.p
    fi = p.func("mbox.Mailbox._restore_from_db")
    ctx.analysed(fi)
    pm = pm_of(p, fi)
    heads = ["if not self.msg_keys and self.uids:\n    ks = [int(x) for x in self.mailbox.keys()]\n    self.msg_keys = ks[{sl}]\n    ..."]
    slices = [":len(self.uids)", "0:len(self.uids)"]
    pats = [h.format(sl=s_) for h in heads for s_ in slices]
    pats += ["if not self.msg_keys and self.uids:\n    self.msg_keys = [int(x) for x in self.mailbox.keys()][:len(self.uids)]\n    ...",
             "if not self.msg_keys and self.uids:\n    self.msg_keys = sorted(int(x) for x in self.mailbox.keys())[:len(self.uids)]\n    ..."]
    if any(pm.has(x) for x in pats):
        ctx.ok("R11.9", where(fi), "legacy row without msg_keys: stored UIDs paired with the first len(uids) keys of the folder")
    else:
        ctx.bad("R11.9", fi.module, fi.qual, "self.msg_keys = msg_keys[:len(self.uids)]", "a row from before the msg_keys column is no longer completed with the *first* len(uids) keys of the folder: after the upgrade restart every UID of that mailbox denotes another message (same UIDVALIDITY) as soon as one message was delivered that the old server had not numbered", fi.node.lineno)


def run(ctx):
    ctx.do(r11_1)
    ctx.do(r11_2)
    ctx.do(r11_3)
    ctx.do(r11_4)
    ctx.do(r11_5)
    ctx.do(r11_6)
    ctx.do(r11_7)
    ctx.do(r11_8)
    ctx.do(r11_9)
    from . import c02
    ctx.do(c02.r2_1)
    ctx.do(c02.r2_4)
    from . import c13
    ctx.do(c13.r13_6)
    from . import c12 as _c12
    ctx.do(_c12.r12_8)  # clean-up statements remove the rows of the mailbox that is gone, nobody else's
    ctx.note("R11.5 (reconcile never lowers next_uid; UID state committed) is decided by C02 rules R2.1/R2.4")
    ctx.trust("frozen table of persistent operations: " + ", ".join(k for k, _, _ in OPS))
